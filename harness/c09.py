"""C09 — CSV files with comment headers round-trip through write_csv / read_csv.

Model: lean/HydroVerif/Model/C09.lean (header writer, reader strip, _header2comment, file-name / member
resolution); theorems: lean/HydroVerif/Props/C09.lean.
Correspondence: (1) `_csvhead` lines and the comment dictionary obtained from them by the reader's regex strip
+ `_header2comment`, against the model's `csvhead` / `readHeader` (the system lines - time stamp, author,
python version ... - are taken from the real header and given to the model as opaque lines);
(2) `_header2comment` on arbitrary generated header elements; (3) `_check_name` against `checkName` on
directories holding arbitrary subsets of candidate files; (4) end-to-end: which file `write_csv` creates and
which zip member it stores, which file `read_csv` then opens, against `writeTarget` / `readTarget`.
Oracle (real code only, end-to-end in a scratch directory under build/): the frame read back has the same
column names, row count, equal non-empty text and numeric values to the float format precision; the
comment dictionary returns every supplied comment, nrow and ncol.
Cases: keys = lower-case letters/digits/underscore/dash, 1..25 characters (system keys nrow, ncol,
time_generated, author, source_file, work_dir, python_* , pandas_version, numpy_version are reserved; keys with
blanks are rewritten with underscores by the reader by design and are not generated for the oracle); values =
single-line printable text with colons, hashes, commas, quotes, trimmed, without a run of 10 dashes; storage
modes plain .csv, compress=True under x.csv / x.zip / x / x.y.csv, archive member in a sub-folder; float
formats %0.5f %0.2f %0.8e; float, int and text columns. Non-trivial = round trip performed and compared.
"""
import os
import re
import shutil
import string
import warnings
import zipfile
from pathlib import Path

import numpy as np

from . import common as C

PID = "C09"
# Translator: harness/gen_c09.py regenerates lean/HydroVerif/Generated/C09Consts.lean (KEY_LENGTH_MAX and the extension list
# of _check_name) from csv.py before the proofs are rebuilt: the theorems are re-checked against the constants the code holds now.
RESERVED = {"nrow", "ncol", "time_generated", "author", "source_file", "work_dir", "python_environment",
            "python_version", "pandas_version", "numpy_version", "python_inc", "python_lib"}


def enc(s):
    # leading marker "x" keeps an empty string distinguishable from an empty list
    return ",".join(["x"] + [str(ord(c)) for c in s])


def encs(lst):
    return "[" + ";".join(enc(s) for s in lst) + "]"


def dec(tok):
    body = tok[1:-1] if tok.startswith("[") else tok
    return "".join(chr(int(t)) for t in body.split(",") if t not in ("x", ""))


def decs(tok):
    body = tok[1:-1]
    return [] if body == "" else [dec(r) for r in body.split(";")]


def gen_key(rng, wild=False):
    alpha = string.ascii_lowercase + string.digits + "_-"
    if wild:
        alpha += "AB :"
    while True:
        n = rng.choice([1, 2, 5, 10, 24, 25]) if rng.random() < 0.5 else rng.randint(1, 25)
        k = "".join(rng.choice(alpha) for _ in range(n)).strip()
        if k and k.replace(":", "").lower() not in RESERVED and not re.match(r"comment_\d\d$", k) and "-" * 10 not in k:
            if wild and (k.replace(":", "").strip() == ""):
                continue
            return k


def gen_val(rng, wild=False):
    pool = string.ascii_letters + string.digits + " :#,\"'.;=()/-_%"
    while True:
        n = rng.choice([1, 3, 12, 40])
        v = "".join(rng.choice(pool) for _ in range(n)).strip()
        if wild and rng.random() < 0.1:
            v = v + "-" * 10 + "x"
        if v and (wild or "-" * 10 not in v):
            return v


def body(ctx):
    warnings.simplefilter("ignore")
    import pandas as pd
    from hydrodiy.io import csv
    rng = ctx.rng
    lean = ctx.lean
    reqs, checks = [], []
    work = C.BUILD / f"c09-work-{ctx.seed}-{ctx.tier}-{os.getpid()}"   # per process: two runs of this check may overlap
    shutil.rmtree(work, ignore_errors=True)
    work.mkdir(parents=True)
    src = work / "script.py"
    src.write_text("")
    strip_re = "^# *|\n$"

    # ---------------- (1) header writer + reader on dictionaries
    for it in range(ctx.scale(500, 5000)):
        wild = rng.random() < 0.25
        nk = rng.randint(0, 5)
        comment = {}
        for _ in range(nk):
            k, v = gen_key(rng, wild), gen_val(rng, wild)
            if rng.random() < 0.2:
                # the value quotes its own key followed by the separator (e.g. "id": "grid : 5 km")
                v = (gen_val(rng) + " " + rng.choice([k, k[-2:], k + " "]) + rng.choice([" : ", ": ", " :"]) + gen_val(rng)).strip()
                if "-" * 10 in v and not wild:
                    v = gen_val(rng)
            comment[k] = v
        if wild:
            normal = {}
            for k in comment:
                normal.setdefault(re.sub(":", "", k).lower(), k)
            if len(normal) != len(comment):
                continue
        nrow, ncol = rng.randint(0, 10 ** rng.randint(0, 6)), rng.randint(0, 50)
        sysinfo = rng.random() < 0.5
        head = csv._csvhead(nrow, ncol, comment, source_file=src, write_sys_info=sysinfo, author=rng.choice([None, "me", "a b"]))
        system = head[3 + len(comment):-1]
        header = [re.sub(strip_re, "", l + "\n") for l in head]
        cdict = csv._header2comment(header)
        keys = list(comment.keys())
        reqs.append(f"hdr {nrow} {ncol} {encs(keys)} {encs([comment[k] for k in keys])} {encs(system)}")
        checks.append(("hdr", (head, list(cdict.keys()), list(cdict.values())), {"comment": comment, "nrow": nrow, "ncol": ncol, "sysinfo": sysinfo}))
        ctx.count(("hdr", tuple(comment.items()), nrow, ncol, sysinfo), nk > 0, "hdr/" + ("wild" if wild else "admissible"),
                  sample={"comment": comment, "nrow": nrow, "ncol": ncol})
        if not wild:
            for k, v in comment.items():
                if cdict.get(k) != v:
                    ctx.finding("header/comment_not_returned", "a supplied header comment does not come back unchanged",
                                {"comment": comment, "key": k, "got": cdict.get(k), "sysinfo": sysinfo})
            if cdict.get("nrow") != str(nrow) or cdict.get("ncol") != str(ncol):
                ctx.finding("header/nrow_ncol_not_returned", "recorded nrow/ncol do not come back", {"nrow": nrow, "ncol": ncol, "got": [cdict.get("nrow"), cdict.get("ncol")]})

    # ---------------- (2) _header2comment on arbitrary elements
    for it in range(ctx.scale(500, 5000)):
        elems = []
        for _ in range(rng.randint(1, 6)):
            kind = rng.random()
            if kind < 0.5:
                elems.append(f"{gen_key(rng, True)} : {gen_val(rng, True)}")
            elif kind < 0.7:
                elems.append(gen_val(rng, True))
            elif kind < 0.8:
                elems.append("-" * rng.choice([9, 10, 50]))
            elif kind < 0.9:
                elems.append(" " * rng.randint(0, 3) + gen_key(rng) + ":" + " " * rng.randint(0, 3) + gen_val(rng))
            else:
                elems.append("x" * rng.choice([28, 29, 30, 31]) + ":" + gen_val(rng))
        elems = [e for e in elems if e != ""]
        if not elems:
            continue
        cdict = csv._header2comment(elems)
        reqs.append(f"h2c {encs(elems)}")
        checks.append(("h2c", (list(cdict.keys()), list(cdict.values())), {"elements": elems}))
        ctx.count(("h2c", tuple(elems)), True, "h2c")

    # ---------------- (3) _check_name
    names = ["d.csv", "d.zip", "d", "d.gz", "d.csv.gz", "a.b.csv", "d.txt", ".hid", "e."]
    cands = ["d.csv", "d.zip", "d", "d.gz", "d.csv.gz", "d.csv.zip", "a.b.csv", "a.b.zip", "a.b.gz", "d.txt", ".hid", ".hid.zip", "e.", "e..zip"]
    cdir = work / "check"
    for it in range(ctx.scale(200, 1500)):
        shutil.rmtree(cdir, ignore_errors=True)
        cdir.mkdir()
        present = [c for c in cands if rng.random() < 0.25]
        for c in present:
            (cdir / c).write_text("x")
        name = rng.choice(names)
        try:
            got = "some [" + enc(csv._check_name(cdir / name).name) + "]"
        except ValueError:
            got = "none"
        reqs.append(f"check [{enc(name)}] {encs(present)}")
        checks.append(("check", got, {"name": name, "present": present}))
        ctx.count(("check", name, tuple(present)), got != "none", "check_name")

    # ---------------- (4) end to end
    fmts = ["%0.5f", "%0.2f", "%0.8e", "%0.10f", "%0.7f"]
    e2e = work / "e2e"
    for it in range(ctx.scale(150, 1500)):
        shutil.rmtree(e2e, ignore_errors=True)
        e2e.mkdir()
        nrow = rng.choice([1, 2, 5, 30])
        cols = {}
        ncolumns = rng.randint(1, 5)
        colnames = []
        while len(colnames) < ncolumns:
            if rng.random() < 0.2:
                # names made of digits only (years, station numbers, with leading zeros) must stay text
                cn = rng.choice(["2019", "2020", "7", "007", "10", "1_2", "3-4", "42 a"])
            else:
                cn = "".join(rng.choice(string.ascii_letters + string.digits + " -_") for _ in range(rng.randint(1, 8))).strip()
            if cn and cn not in colnames:
                colnames.append(cn)
        for cn in colnames:
            kind = rng.choice(["float", "int", "text"])
            if kind == "float":
                cols[cn] = [rng.choice([1, -1]) * 10 ** rng.uniform(-9, 6) * rng.random() for _ in range(nrow)]
                if rng.random() < 0.3:
                    # values that look like conventional "missing data" codes are data like any other
                    cols[cn][rng.randrange(nrow)] = rng.choice([-999.0, -9999.0, -99.0, -999.000001, 9999.0, -1.0, 0.0, 1e30, -1e-30])
            elif kind == "int":
                cols[cn] = [rng.randint(-10 ** 6, 10 ** 6) for _ in range(nrow)]
                if rng.random() < 0.3:
                    cols[cn][rng.randrange(nrow)] = rng.choice([-999, -9999, -99, 9999, -1, 0, 2 ** 31, -2 ** 40])
            else:
                cols[cn] = [rng.choice(["t", "t", "#", "#1 ", "x:"]) + "".join(rng.choice(string.ascii_letters + ' ,":#;') for _ in range(rng.randint(1, 6))) + "z" for _ in range(nrow)]
        df = pd.DataFrame(cols)
        # frames with a history: the index is no longer the default row counter (selection, sorting, reversal, a date or
        # text index); it is not written (write_index=False) and must not leak into the columns
        hist = rng.choice(["fresh", "fresh", "selected", "sorted", "reversed", "dates", "labels"])
        if hist != "fresh":
            big = pd.DataFrame({cn: (list(v) + list(v))[:nrow * 2] for cn, v in cols.items()})
            if hist == "selected":
                keep = sorted(rng.sample(range(2 * nrow), nrow))
                df = big.iloc[[i in keep for i in range(2 * nrow)]]
            elif hist == "sorted":
                df = df.sort_values(colnames[0], kind="stable", ascending=False)
            elif hist == "reversed":
                df = df.iloc[::-1]
            elif hist == "dates":
                df = df.set_axis(pd.date_range("2001-01-01", periods=nrow, freq="D"), axis=0)
            else:
                df = df.set_axis([f"r{i}" for i in range(nrow)], axis=0)
            cols = {cn: list(df[cn].values) for cn in colnames}
            cols = {cn: [v.item() if hasattr(v, "item") else v for v in vals] for cn, vals in cols.items()}
        comment = {gen_key(rng): gen_val(rng) for _ in range(rng.randint(0, 3))}
        mode = rng.choice(["plain", "zip.csv", "zip.zip", "zip.noext", "zip.dots", "archive"])
        ff = rng.choice(fmts)
        base = rng.choice(["data", "d_1", "Run-A"])
        fname = {"plain": base + ".csv", "zip.csv": base + ".csv", "zip.zip": base + ".zip", "zip.noext": base,
                 "zip.dots": base + ".v2.csv", "archive": "sub/folder/" + base + ".csv"}[mode]
        case = {"mode": mode, "name": fname, "float_format": ff, "comment": comment, "columns": colnames, "nrow": nrow, "frame_history": hist}
        try:
            if mode == "archive":
                with zipfile.ZipFile(e2e / "arc.zip", "w") as arc:
                    csv.write_csv(df, fname, comment, src, archive=arc, float_format=ff, write_sys_info=rng.random() < 0.5)
                with zipfile.ZipFile(e2e / "arc.zip", "r") as arc:
                    members = arc.namelist()
                    df2, c2 = csv.read_csv(fname, archive=arc)
                    raw = arc.read(fname).decode("utf-8") if fname in members else None
                if members != [fname]:
                    ctx.finding("e2e/archive_member", "archive member is not stored under the given name", {**case, "members": members})
            else:
                compress = mode != "plain"
                csv.write_csv(df, e2e / fname, comment, src, compress=compress, float_format=ff, write_sys_info=rng.random() < 0.5)
                created = sorted(p.name for p in e2e.iterdir())
                member = "-"
                if compress and len(created) == 1 and zipfile.is_zipfile(e2e / created[0]):
                    with zipfile.ZipFile(e2e / created[0]) as z:
                        member = "[" + enc(z.namelist()[0]) + "]"
                impl = f"[{enc(created[0])}] {member}"
                reqs.append(f"name [{enc(fname)}] {1 if compress else 0}")
                checks.append(("name", impl, case))
                df2, c2 = csv.read_csv(e2e / fname)
                raw = None
                if len(created) == 1:
                    if compress and zipfile.is_zipfile(e2e / created[0]):
                        with zipfile.ZipFile(e2e / created[0]) as z:
                            raw = z.read(z.namelist()[0]).decode("utf-8")
                    elif not compress:
                        raw = (e2e / created[0]).read_text(encoding="utf-8")
        except Exception as e:  # noqa
            ctx.finding(f"e2e/{mode}/cannot_read_back", "a file written by write_csv cannot be read back by read_csv",
                        {**case, "error": f"{type(e).__name__}: {e}"[:300]})
            ctx.count(("e2e", it), False, "e2e/" + mode)
            continue
        ctx.count(("e2e", mode, fname, ff, tuple(colnames), nrow), True, "e2e/" + mode,
                  sample={"mode": mode, "name": fname, "columns": colnames, "comment": comment})
        # oracle
        if list(df2.columns) != colnames or len(df2) != nrow:
            ctx.finding("e2e/shape_or_names", "column names or row count changed in the round trip", {**case, "got_columns": list(df2.columns), "got_rows": len(df2)})
        else:
            digits = int(re.search(r"\.(\d+)", ff).group(1))
            for cn in colnames:
                a, b = df[cn].values, df2[cn].values
                if isinstance(cols[cn][0], str):
                    if list(a) != list(b):
                        ctx.finding("e2e/text_changed", "text values changed in the round trip", {**case, "column": cn, "wrote": list(a)[:3], "read": list(b)[:3]})
                elif isinstance(cols[cn][0], int):
                    if not np.array_equal(a, b):
                        ctx.finding("e2e/int_changed", "integer values changed in the round trip", {**case, "column": cn})
                else:
                    a = np.asarray(a, dtype=float)
                    b = np.asarray(b, dtype=float)
                    tol = 0.5000001 * 10.0 ** (-digits) * (np.maximum(1.0, 10.0 ** np.floor(np.log10(np.abs(a) + 1e-300))) if ff.endswith("e") else 1.0)
                    tol = tol + 4 * np.spacing(np.abs(a))   # the decimal text is read back to the nearest double
                    if not np.all(np.abs(a - b) <= tol):
                        ctx.finding("e2e/float_precision", "numeric values differ by more than the float format precision", {**case, "column": cn, "wrote": a[:3].tolist(), "read": b[:3].tolist()})
        # the table body through the model: the column-name line as the reader splits it, records tokenised
        # by the model against what the real reader returned, and the model's writer against the written text
        if raw is not None and list(df2.columns) == colnames and len(df2) == nrow:
            lines = raw.split("\n")
            nh = 0
            while nh < len(lines) and lines[nh].startswith("#"):
                nh += 1
            colline, blines = lines[nh], lines[nh + 1: nh + 1 + nrow]
            reqs.append(f"cols [{enc(colline + chr(10))}]")
            checks.append(("cols", list(df2.columns), {**case, "line": colline}))
            for r in sorted(rng.sample(range(nrow), min(nrow, 3))):
                got = []
                for cn in colnames:
                    v = df2[cn].values[r]
                    got.append(("t", str(v)) if isinstance(cols[cn][0], str) else ("n", float(v)))
                reqs.append(f"parse [{enc(blines[r])}]")
                checks.append(("parse", got, {**case, "line": blines[r], "row": r}))
                ctx.count(("body", blines[r]), any(ch in blines[r] for ch in '"'), "body/" + ("quoted" if '"' in blines[r] else "plain"))
        for k, v in comment.items():
            if c2.get(k) != v:
                ctx.finding("e2e/comment_not_returned", "a supplied header comment does not come back unchanged", {**case, "key": k, "got": c2.get(k)})
        # nothing but the caller's comments, the counts and the system information comes back: a key supplied to an
        # EARLIER call in this process (or any other stray key) is a header comment the caller did not supply for this file
        stray = sorted(k for k in c2 if k not in comment and k not in RESERVED and not re.fullmatch(r"comment_\d+", k))
        if stray:
            ctx.finding("e2e/comment_not_supplied", "the comment dictionary holds keys that were not supplied for this file",
                        {**case, "stray_keys": stray[:5], "values": [c2[k] for k in stray[:5]]})
        if c2.get("nrow") != str(nrow) or c2.get("ncol") != str(len(colnames)):
            ctx.finding("e2e/nrow_ncol", "recorded nrow/ncol are not returned", {**case, "got": [c2.get("nrow"), c2.get("ncol")]})

    # ---------------- (5) archives holding several members, some names being suffixes of others
    for it in range(ctx.scale(40, 400)):
        shutil.rmtree(e2e, ignore_errors=True)
        e2e.mkdir()
        base = rng.choice(["sim.csv", "obs.csv", "m.csv"])
        pool = [base, "run1/" + base, "calib/run1/" + base, "1/" + base, "11/" + base, "all/sub/" + base, "sub/" + base, "x" + base]
        members = rng.sample(pool, rng.randint(2, 4))
        frames = {}
        try:
            with zipfile.ZipFile(e2e / "arc.zip", "w") as arc:
                for k, mname in enumerate(members):
                    dfk = pd.DataFrame({"a" + str(k): [float(k + 1) * (i + 1) for i in range(k + 2)], "t": ["v%d_%d" % (k, i) for i in range(k + 2)]})
                    frames[mname] = dfk
                    csv.write_csv(dfk, mname, {"member": "m%d" % k}, src, archive=arc, write_sys_info=False)
            with zipfile.ZipFile(e2e / "arc.zip", "r") as arc:
                for k, mname in enumerate(members):
                    d2, c2 = csv.read_csv(mname, archive=arc)
                    ctx.count(("arc", tuple(members), mname), True, "e2e/archive_multi")
                    if list(d2.columns) != list(frames[mname].columns) or len(d2) != len(frames[mname]) or c2.get("member") != "m%d" % k:
                        ctx.finding("e2e/archive/wrong_member_read", "reading one member of an archive returns another member's table",
                                    {"members": members, "read": mname, "got_columns": [str(c) for c in d2.columns], "got_comment": c2.get("member")})
        except Exception as e:  # noqa
            ctx.finding("e2e/archive_multi/cannot_read_back", "a member written into an archive cannot be read back",
                        {"members": members, "error": f"{type(e).__name__}: {e}"[:300]})

    # ---------------- correspondence
    replies = lean.ask(reqs)
    extra_reqs, extra_checks = [], []
    for req, rep, chk in zip(reqs, replies, checks):
        kind, impl, case = chk
        if kind == "hdr":
            a, b, c = rep.split(" ")
            model = (decs(a), decs(b), decs(c))
            ok = model[0] == impl[0] and model[1] == impl[1] and model[2] == impl[2]
            if not ok:
                ctx.disagree("C09/header: implementation and model differ", {**case, "impl": impl, "model": model})
        elif kind == "h2c":
            a, b = rep.split(" ")
            model = (decs(a), decs(b))
            if model[0] != impl[0] or model[1] != impl[1]:
                ctx.disagree("C09/_header2comment: implementation and model differ", {**case, "impl": impl, "model": model})
        elif kind == "cols":
            model = decs(rep)
            if model != impl:
                ctx.disagree("C09/column names: the model's split of the written line differs from the names read_csv returned",
                             {**case, "impl": impl, "model": model})
        elif kind == "parse":
            model = decs(rep)
            ok = len(model) == len(impl)
            if ok:
                for f, (t, v) in zip(model, impl):
                    if t == "t":
                        ok = ok and f == v
                    else:
                        try:
                            fv = float(f)
                            ok = ok and (fv == v or abs(fv - v) <= 2 * np.spacing(abs(v)))
                        except ValueError:
                            ok = False
            if not ok:
                ctx.disagree("C09/record: the model's tokeniser and read_csv differ on a written record", {**case, "impl": impl, "model": model})
            else:
                # second leg: the model's writer reproduces the written text from the fields
                extra_reqs.append(f"row {encs(model)}")
                extra_checks.append((case["line"], case))
        elif kind == "check":
            if rep != impl:
                ctx.disagree("C09/_check_name: implementation and model differ", {**case, "impl": impl, "model": rep})
        elif kind == "name":
            full, member, *opened = rep.split(" ")
            if f"{full} {member}" != impl:
                ctx.disagree("C09/write target: implementation and model differ", {**case, "impl": impl, "model": rep})
            # the model's reader must open what the writer created (the real reader succeeded above)
            if opened[0] == "none":
                ctx.disagree("C09/read target: model cannot open the written file", {**case, "model": rep})
    for rep, (line, case) in zip(lean.ask(extra_reqs) if extra_reqs else [], extra_checks):
        if dec(rep) != line:
            ctx.disagree("C09/record writer: the model's quoting differs from the text to_csv wrote", {**case, "impl": line, "model": dec(rep)})
    shutil.rmtree(work, ignore_errors=True)
    ctx.extra["rule"] = __doc__.split("Cases:")[1].strip()
    ctx.assumptions += ["DataFrame.to_csv / pandas.read_csv are external: their record quoting and tokenising are modelled (writeRow / parseRow / splitCols) and compared on the written text; number formatting, type inference, zipfile and the file system are exercised end-to-end only",
                        "regular expressions are modelled for single-line ASCII header elements"]


def main(tier, replay=None):
    from . import gen_c09
    return C.run_check(PID, tier, body, replay=replay, regen=gen_c09.regen,
                       trusted=["pandas to_csv/read_csv, zipfile, pathlib, the file system (external)",
                                "python `re` on single-line ASCII strings (modelled as list functions, compared by result)"])
