"""C09 — CSV files with comment headers round-trip through write_csv / read_csv.

Model: lean/HydroVerif/Model/C09.lean (header writer with every kind of comment argument and the system pairs, reader strip,
_header2comment, record writer / tokeniser, whole-file text, file-name / member resolution), Model/C09Num.lean (number
formatting `%0.Nf` / `%0.Ne` / str(int) and decimal parsing over exact rationals), Model/C09Fs.lean (directory and archive state
machines); theorems: lean/HydroVerif/Props/C09.lean.
Correspondence: (1) `_csvhead` lines - for str / list / tuple / dict comments, with and without system information - and the
comment dictionary obtained from them by the reader's regex strip + `_header2comment`, against `csvheadFull` / `readHeader`
(only the time stamp is taken from the real header); (2) `_header2comment` on arbitrary generated header elements;
(3) `_check_name` against `checkName` on directories holding arbitrary subsets of candidate files; (4) end-to-end: which file
`write_csv` creates and which zip member it stores, which file `read_csv` then opens (`writeTarget` / `readTarget`), the column
line, sampled records, every numeric cell of those records (text written = model's formatting of the exact value; value read =
double next to the model's reading of the text) and the whole file through `readFile` / `writeFile`; (7) number formatting on
ties, carries, zeros of both signs, subnormal and huge magnitudes, 64-bit integers; (8) random directory histories (writes in
both storage modes under names sharing a stem, refused writes, reads) against `run`; (9) random archive histories against `arun`.
Oracle (real code only, in a scratch directory under build/): the frame read back has the same column names, row count, equal
non-empty text, exactly equal integers (compared as python integers) and float values to the float format precision; the
comment dictionary returns every supplied comment, nrow and ncol, and no key that was not supplied. It runs on single
write -> read pairs (4), on archives with several members (5), on SESSIONS (6): several writes and reads in one process where
frames are fresh or derived from a frame read_csv returned earlier, comment dictionaries are fresh / re-used / modified, names are
new or re-used and refused calls are interleaved, and on directory histories (8) wherever the theorems say the frame just
written must come back.
Cases: keys = lower-case letters/digits/underscore/dash (runs of dashes included), 1..25 characters (the 12 keys the header
uses itself are reserved; keys with blanks are rewritten with underscores by the reader by design: both only in the wild
correspondence stream); values = single-line printable text with colons, hashes, commas, quotes, runs of dashes, trimmed (blank
and untrimmed values only in the wild stream); storage modes plain .csv, compress=True under x.csv / x.zip / x / x.y.csv,
archive member in a sub-folder; float formats %0.5f %0.2f %0.8e %0.10f %0.7f; float64 / float32, integer columns of every width
and signedness with values up to the ends of the 64-bit ranges, text columns, in any mixture (purely numeric, purely integer and
purely text frames have their own share); column names of letters, digits, blanks (also at the ends of a name), dash and
underscore. corpus/C09/*.json (big integers next to floats, int64 with uint64, runs of dashes, outer blanks in names, a frame
derived from a frame read back, rounding ties, exponent format ...) is replayed first in three storage modes whatever the seed.
Non-trivial = round trip performed and compared.
"""
import csv as pycsv
import json
import math
import os
import re
import shutil
import string
import warnings
import zipfile
from fractions import Fraction
from pathlib import Path

import numpy as np

from . import common as C

PID = "C09"
# Translator: harness/gen_c09.py regenerates lean/HydroVerif/Generated/C09Consts.lean (KEY_LENGTH_MAX and the extension list
# of _check_name) from csv.py before the proofs are rebuilt: the theorems are re-checked against the constants the code holds now.
RESERVED = {"nrow", "ncol", "time_generated", "author", "source_file", "work_dir", "python_environment",
            "python_version", "pandas_version", "numpy_version", "python_inc", "python_lib"}


def enc(s):
    # leading marker "x" keeps an empty string distinguishable from an empty list
    return ",".join(["x"] + [str(ord(c)) for c in s])


def encs(lst):
    return "[" + ";".join(enc(s) for s in lst) + "]"


def dec(tok):
    body = tok[1:-1] if tok.startswith("[") else tok
    return "".join(chr(int(t)) for t in body.split(",") if t not in ("x", ""))


def decs(tok):
    body = tok[1:-1]
    return [] if body == "" else [dec(r) for r in body.split(";")]


def gen_key(rng, wild=False):
    alpha = string.ascii_lowercase + string.digits + "_-"
    if wild:
        alpha += "AB :"
    while True:
        n = rng.choice([1, 2, 5, 10, 24, 25]) if rng.random() < 0.5 else rng.randint(1, 25)
        k = "".join(rng.choice(alpha) for _ in range(n)).strip()
        if rng.random() < 0.04:
            k = (k[:3] + "-" * rng.choice([10, 12]) + k[3:6])[:25]      # a run of dashes is part of the alphabet
        if k and k.replace(":", "").lower() not in RESERVED and not re.match(r"comment_\d\d$", k):
            return k


def gen_val(rng, wild=False):
    pool = string.ascii_letters + string.digits + " :#,\"'.;=()/-_%"
    while True:
        n = rng.choice([1, 3, 12, 40])
        v = "".join(rng.choice(pool) for _ in range(n)).strip()
        if rng.random() < 0.08:
            # runs of dashes (separators, ranges, a value that is nothing but a dashed line) are single-line text like any other
            v = rng.choice([v + "-" * 10 + "x", "-" * rng.choice([10, 30, 50]), v[:3] + " " + "-" * 12, "-" * 10 + " " + v]).strip()
        if v:
            return v


def comment_signature(prefix, k, v):
    """a comment lost because its line holds a run of ten dashes is the defect repaired by the fix: commit 0d5e115"""
    return prefix + ("/dash_run_comment_dropped" if "-" * 10 in f"{k} : {v}" else "/comment_not_returned")


def body(ctx):
    work = C.BUILD / f"c09-work-{ctx.seed}-{ctx.tier}-{os.getpid()}"   # per process: two runs of this check may overlap
    shutil.rmtree(work, ignore_errors=True)
    work.mkdir(parents=True)
    try:
        _body(ctx, work)
    finally:
        shutil.rmtree(work, ignore_errors=True)      # also when the code under test raised where no call was expected to fail


def _body(ctx, work):
    warnings.simplefilter("ignore")
    import pandas as pd
    from hydrodiy.io import csv
    rng = ctx.rng
    lean = ctx.lean
    reqs, checks = [], []
    src = work / "script.py"
    src.write_text("")
    strip_re = "^# *|\n$"

    # ---------------- (1) header writer + reader: every kind of `comment` argument, every system line
    import getpass
    import sys as _sys
    try:
        login = getpass.getuser()
    except Exception:  # noqa
        login = None
    sysvals = [os.getcwd(), os.name, _sys.version.replace("\n", " "), pd.__version__, np.__version__]
    if csv.HAS_DISTUTILS:
        sysvals += [csv.get_python_inc(), csv.get_python_lib()]

    def opt(s):
        return "-" if s is None else "[" + enc(s) + "]"

    for it in range(ctx.scale(500, 5000)):
        wild = rng.random() < 0.3
        kind = "dict" if rng.random() < 0.8 else rng.choice(["str", "list", "tuple"])
        nk = rng.randint(0, 5)
        comment = {}
        if kind == "dict":
            for _ in range(nk):
                k, v = gen_key(rng, wild), gen_val(rng, wild)
                if rng.random() < 0.2:
                    # the value quotes its own key followed by the separator (e.g. "id": "grid : 5 km")
                    v = (gen_val(rng) + " " + rng.choice([k, k[-2:], k + " "]) + rng.choice([" : ", ": ", " :"]) + gen_val(rng)).strip()
                if wild and rng.random() < 0.15:
                    # excluded points of the theorems, probed on the real code through the correspondence: keys the header
                    # uses itself (the caller's value then competes with the recorded one) ...
                    k = rng.choice(sorted(RESERVED))
                if wild and rng.random() < 0.2:
                    # ... and values that are blank or carry outer blanks (returned trimmed / not at all)
                    v = rng.choice(["", " ", "   ", " " + v, v + "  ", "\t" + v, " " + v + " "])
                comment[k] = v
            arg, keys, vals = comment, list(comment.keys()), list(comment.values())
        elif kind == "str":
            arg = gen_val(rng, wild)
            keys, vals = [], [arg]
        else:
            items = [gen_val(rng, wild) for _ in range(rng.choice([0, 1, 2, 3, 11, 12, 101]) if rng.random() < 0.3 else rng.randint(0, 4))]
            arg, keys, vals = (items if kind == "list" else tuple(items)), [], items
        nrow, ncol = rng.randint(0, 10 ** rng.randint(0, 6)), rng.randint(0, 50)
        sysinfo = rng.random() < 0.5
        author = rng.choice([None, "me", "a b"])
        head = csv._csvhead(nrow, ncol, arg, source_file=src, write_sys_info=sysinfo, author=author)
        time_line = [l for l in head if l.startswith("# time_generated : ")][-1]      # the system line comes after the comments
        stamp = time_line[len("# time_generated : "):]
        header = [re.sub(strip_re, "", l + "\n") for l in head]
        cdict = csv._header2comment(header)
        reqs.append(f"hdrf {nrow} {ncol} {'list' if kind == 'tuple' else kind} {encs(keys)} {encs(vals)} [{enc(stamp)}] {opt(author)} "
                    f"{1 if sysinfo else 0} {opt(login)} [{enc(str(src))}] [{enc(src.name)}] {encs(sysvals) if sysinfo else '[]'}")
        checks.append(("hdr", (head, list(cdict.keys()), list(cdict.values())), {"comment": arg, "nrow": nrow, "ncol": ncol, "sysinfo": sysinfo, "author": author}))
        if kind == "dict":
            # the older entry of the model (system lines handed over as opaque lines)
            ncom = len({re.sub(":", "", k).lower() for k in comment})
            reqs.append(f"hdr {nrow} {ncol} {encs(keys)} {encs(vals)} {encs(head[3 + ncom:-1])}")
            checks.append(("hdr", (head, list(cdict.keys()), list(cdict.values())), {"comment": comment, "nrow": nrow, "ncol": ncol, "sysinfo": sysinfo}))
        ctx.count(("hdr", kind, tuple(keys), tuple(vals), nrow, ncol, sysinfo), len(vals) > 0, "hdr/" + kind + "/" + ("wild" if wild else "admissible"),
                  sample={"comment": arg, "nrow": nrow, "ncol": ncol} if kind == "dict" else None)
        if not wild and kind == "dict":
            for k, v in comment.items():
                if cdict.get(k) != v:
                    ctx.finding(comment_signature("header", k, v), "a supplied header comment does not come back unchanged",
                                {"comment": comment, "key": k, "got": cdict.get(k), "sysinfo": sysinfo})
            if cdict.get("nrow") != str(nrow) or cdict.get("ncol") != str(ncol):
                ctx.finding("header/nrow_ncol_not_returned", "recorded nrow/ncol do not come back", {"nrow": nrow, "ncol": ncol, "got": [cdict.get("nrow"), cdict.get("ncol")]})
            stray = sorted(k for k in cdict if k not in comment and k not in RESERVED)
            if stray:
                ctx.finding("header/comment_not_supplied", "the comment dictionary holds keys that were not supplied", {"comment": comment, "stray_keys": stray[:5]})

    # ---------------- (2) _header2comment on arbitrary elements
    for it in range(ctx.scale(500, 5000)):
        elems = []
        for _ in range(rng.randint(1, 6)):
            kind = rng.random()
            if kind < 0.5:
                elems.append(f"{gen_key(rng, True)} : {gen_val(rng, True)}")
            elif kind < 0.7:
                elems.append(gen_val(rng, True))
            elif kind < 0.8:
                elems.append("-" * rng.choice([9, 10, 50]))
            elif kind < 0.9:
                elems.append(" " * rng.randint(0, 3) + gen_key(rng) + ":" + " " * rng.randint(0, 3) + gen_val(rng))
            else:
                elems.append("x" * rng.choice([28, 29, 30, 31]) + ":" + gen_val(rng))
        elems = [e for e in elems if e != ""]
        if not elems:
            continue
        cdict = csv._header2comment(elems)
        reqs.append(f"h2c {encs(elems)}")
        checks.append(("h2c", (list(cdict.keys()), list(cdict.values())), {"elements": elems}))
        ctx.count(("h2c", tuple(elems)), True, "h2c")

    # ---------------- (3) _check_name
    names = ["d.csv", "d.zip", "d", "d.gz", "d.csv.gz", "a.b.csv", "d.txt", ".hid", "e."]
    cands = ["d.csv", "d.zip", "d", "d.gz", "d.csv.gz", "d.csv.zip", "a.b.csv", "a.b.zip", "a.b.gz", "d.txt", ".hid", ".hid.zip", "e.", "e..zip"]
    cdir = work / "check"
    for it in range(ctx.scale(200, 1500)):
        shutil.rmtree(cdir, ignore_errors=True)
        cdir.mkdir()
        present = [c for c in cands if rng.random() < 0.25]
        for c in present:
            (cdir / c).write_text("x")
        name = rng.choice(names)
        try:
            got = "some [" + enc(csv._check_name(cdir / name).name) + "]"
        except ValueError:
            got = "none"
        reqs.append(f"check [{enc(name)}] {encs(present)}")
        checks.append(("check", got, {"name": name, "present": present}))
        ctx.count(("check", name, tuple(present)), got != "none", "check_name")

    # ---------------- (4) end to end
    fmts = ["%0.5f", "%0.2f", "%0.8e", "%0.10f", "%0.7f"]
    e2e = work / "e2e"
    INT_EDGES = [-999, -9999, -99, 9999, -1, 0, 2 ** 31, -2 ** 40]
    # integers that no float64 holds (any detour of an integer column through floating point changes them), the ends of the
    # 64-bit ranges, and their neighbours
    INT_BIG = [2 ** 53 + 1, -(2 ** 53 + 1), 2 ** 53 - 1, 2 ** 62 + 1, -(2 ** 62) - 3, 2 ** 63 - 1, -2 ** 63, 10 ** 18 + 7, 123456789012345679]
    INT_DTYPES = {"int64": (-2 ** 63, 2 ** 63 - 1), "uint64": (0, 2 ** 64 - 1), "int32": (-2 ** 31, 2 ** 31 - 1), "int16": (-2 ** 15, 2 ** 15 - 1),
                  "int8": (-128, 127), "uint8": (0, 255), "uint32": (0, 2 ** 32 - 1)}

    def gen_column(kind, nrow):
        """-> (values as python objects, numpy dtype name or None for text)"""
        if kind == "float":
            vals = [rng.choice([1, -1]) * 10 ** rng.uniform(-9, 6) * rng.random() for _ in range(nrow)]
            if rng.random() < 0.3:
                # values that look like conventional "missing data" codes are data like any other
                vals[rng.randrange(nrow)] = rng.choice([-999.0, -9999.0, -99.0, -999.000001, 9999.0, -1.0, 0.0, 1e30, -1e-30])
            dt = "float32" if rng.random() < 0.15 else "float64"
            if dt == "float32":
                vals = [float(np.float32(v)) for v in vals]
            return vals, dt
        if kind == "int":
            dt = rng.choice(["int64"] * 6 + ["uint64", "uint64", "int32", "int16", "int8", "uint8", "uint32"])
            lo, hi = INT_DTYPES[dt]
            vals = [rng.randint(max(lo, -10 ** 6), min(hi, 10 ** 6)) for _ in range(nrow)]
            r = rng.random()
            if r < 0.3:
                vals[rng.randrange(nrow)] = min(hi, max(lo, rng.choice(INT_EDGES)))
            elif r < 0.6:
                # full-width values: 64-bit identifiers / counters, and the ends of the dtype's own range
                for _ in range(rng.randint(1, 2)):
                    vals[rng.randrange(nrow)] = min(hi, max(lo, rng.choice(INT_BIG + [lo, hi, hi - 1])))
            return vals, dt
        return [rng.choice(["t", "t", "#", "#1 ", "x:"]) + "".join(rng.choice(string.ascii_letters + ' ,":#;') for _ in range(rng.randint(1, 6))) + "z"
                for _ in range(nrow)], None

    def gen_frame(nrow=None, ncolumns=None):
        """-> (DataFrame, column names); columns are float / integer (of any width and signedness) / text, in any mixture:
        a share of the frames is purely numeric, a share purely text"""
        nrow = nrow or rng.choice([1, 2, 5, 30])
        ncolumns = ncolumns or rng.randint(1, 5)
        colnames = []
        while len(colnames) < ncolumns:
            if rng.random() < 0.2:
                # names made of digits only (years, station numbers, with leading zeros) must stay text
                cn = rng.choice(["2019", "2020", "7", "007", "10", "1_2", "3-4", "42 a"])
            else:
                cn = "".join(rng.choice(string.ascii_letters + string.digits + " -_") for _ in range(rng.randint(1, 8))).strip()
            if cn and rng.random() < 0.08:
                cn = rng.choice([" " + cn, cn + " ", " " + cn + "  "])       # blanks belong to the alphabet, also at the ends of a name
            if cn and cn not in colnames:
                colnames.append(cn)
        mix = rng.choice(["any", "any", "any", "numeric", "numeric", "ints", "text"])
        kinds = {"any": ["float", "int", "text"], "numeric": ["float", "int"], "ints": ["int"], "text": ["text"]}[mix]
        data = {}
        for cn in colnames:
            vals, dt = gen_column(rng.choice(kinds), nrow)
            data[cn] = np.array(vals, dtype=dt) if dt else np.array(vals, dtype=object)
        return pd.DataFrame(data), colnames

    def expected_of(df):
        """what the frame handed to write_csv holds, as python values per column, and the kind of each column"""
        cols, kinds = {}, {}
        for cn in df.columns:
            k = df[cn].dtype.kind if isinstance(df[cn].dtype, np.dtype) else "O"
            kinds[cn] = "float" if k == "f" else ("int" if k in "iu" else "text")
            cols[cn] = [v.item() if hasattr(v, "item") else v for v in df[cn].values]
        return cols, kinds

    def oracle(case, df, comment, ff, df2, c2):
        """the property on one write -> read pair: `df`, `comment`, `ff` are what the caller handed to write_csv, (df2, c2) is what
        read_csv returned. Returns True when names and row count are right (the body correspondence needs that)."""
        colnames, nrow = [str(c) for c in df.columns], len(df)
        cols, kinds = expected_of(df)
        shape_ok = list(df2.columns) == colnames and len(df2) == nrow
        if not shape_ok:
            got = [str(c) for c in df2.columns]
            # the defect repaired by the second fix: commit of round 7 (blanks at the outer ends of the column line were removed)
            ends_trimmed = [colnames[0].strip()] if len(colnames) == 1 else [colnames[0].lstrip()] + colnames[1:-1] + [colnames[-1].rstrip()]
            trimmed = len(df2) == nrow and list(df2.columns) == ends_trimmed and ends_trimmed != colnames
            ctx.finding("e2e/column_name_outer_blank_lost" if trimmed else "e2e/shape_or_names", "column names or row count changed in the round trip",
                        {**case, "columns": colnames, "got_columns": got, "got_rows": len(df2)})
        else:
            digits = int(re.search(r"\.(\d+)", ff).group(1))
            for cn in colnames:
                a, b = df[cn].values, df2[cn].values
                if kinds[cn] == "text":
                    # a text column whose every value reads as a number is not text to any csv reader (type inference is pandas'):
                    # only columns holding at least one value that is not a number are compared
                    if list(a) != list(b) and not all(isinstance(x, str) and re.fullmatch(r"\s*[-+]?(\d+\.?\d*|\.\d+)([eE][-+]?\d+)?\s*", x) for x in a):
                        ctx.finding("e2e/text_changed", "text values changed in the round trip", {**case, "column": cn, "wrote": list(a)[:3], "read": list(b)[:3]})
                elif kinds[cn] == "int":
                    # exact, as python integers (no numpy promotion of int64 / uint64 pairs in the comparison itself)
                    got = [v.item() if hasattr(v, "item") else v for v in b]
                    if got != cols[cn] or any(isinstance(v, float) for v in got):
                        bad = [i for i, (x, y) in enumerate(zip(cols[cn], got)) if x != y or isinstance(y, float)][:3]
                        ctx.finding("e2e/int_changed", "integer values changed in the round trip",
                                    {**case, "column": cn, "dtype": str(a.dtype), "wrote": [str(cols[cn][i]) for i in bad], "read": [str(got[i]) for i in bad],
                                     "dtypes": {c: str(df[c].dtype) for c in colnames}})
                else:
                    a = np.asarray(a, dtype=float)
                    b = np.asarray(b, dtype=float)
                    tol = 0.5000001 * 10.0 ** (-digits) * (np.maximum(1.0, 10.0 ** np.floor(np.log10(np.abs(a) + 1e-300))) if ff.endswith("e") else 1.0)
                    tol = tol + 4 * np.spacing(np.abs(a))   # the decimal text is read back to the nearest double
                    if not np.all(np.abs(a - b) <= tol):
                        ctx.finding("e2e/float_precision", "numeric values differ by more than the float format precision", {**case, "column": cn, "wrote": a[:3].tolist(), "read": b[:3].tolist()})
        for k, v in comment.items():
            if c2.get(k) != v:
                ctx.finding(comment_signature("e2e", k, v), "a supplied header comment does not come back unchanged", {**case, "key": k, "got": c2.get(k)})
        # nothing but the caller's comments, the counts and the system information comes back: a key supplied to an
        # EARLIER call in this process (or any other stray key) is a header comment the caller did not supply for this file
        stray = sorted(k for k in c2 if k not in comment and k not in RESERVED and not re.fullmatch(r"comment_\d+", k))
        if stray:
            ctx.finding("e2e/comment_not_supplied", "the comment dictionary holds keys that were not supplied for this file",
                        {**case, "stray_keys": stray[:5], "values": [c2[k] for k in stray[:5]]})
        if c2.get("nrow") != str(nrow) or c2.get("ncol") != str(len(colnames)):
            ctx.finding("e2e/nrow_ncol", "recorded nrow/ncol are not returned", {**case, "shape_written": [nrow, len(colnames)], "got": [c2.get("nrow"), c2.get("ncol")]})
        return shape_ok

    def body_correspondence(case, df, df2, raw, c2):
        """the table body through the model: the column-name line as the reader splits it, records tokenised by the model
        against what the real reader returned, and the model's writer against the written text"""
        nrow, colnames = len(df), [str(c) for c in df.columns]
        _, kinds = expected_of(df)
        lines = raw.split("\n")
        nh = 0
        while nh < len(lines) and lines[nh].startswith("#"):
            nh += 1
        colline, blines = lines[nh], lines[nh + 1: nh + 1 + nrow]
        reqs.append(f"cols [{enc(colline + chr(10))}]")
        checks.append(("cols", list(df2.columns), {**case, "line": colline}))
        for r in sorted(rng.sample(range(nrow), min(nrow, 3))):
            got = []
            for cn in colnames:
                v = df2[cn].values[r]
                got.append(("t", str(v)) if kinds[cn] == "text" else (("i", int(v)) if kinds[cn] == "int" else ("n", float(v))))
            reqs.append(f"parse [{enc(blines[r])}]")
            checks.append(("parse", got, {**case, "line": blines[r], "row": r}))
            ctx.count(("body", blines[r]), any(ch in blines[r] for ch in '"'), "body/" + ("quoted" if '"' in blines[r] else "plain"))
            # numeric cells: the text written against the model's formatting of the exact value of the number handed to
            # write_csv, and the number read back against the exact value of that text
            fields = next(pycsv.reader([blines[r]]))
            if len(fields) == len(colnames):
                for cn, ftxt in zip(colnames, fields):
                    if kinds[cn] == "text":
                        continue
                    x = df[cn].values[r].item()
                    back = df2[cn].values[r].item()
                    if kinds[cn] == "int":
                        reqs.append(f"fmti {x}")
                        checks.append(("fmt", ftxt, {**case, "column": cn, "value": str(x)}))
                        reqs.append(f"pint [{enc(ftxt)}]")
                        checks.append(("pint", back, {**case, "column": cn, "text": ftxt}))
                    else:
                        num, den = abs(x).as_integer_ratio()
                        neg = 1 if math.copysign(1.0, x) < 0 else 0
                        digits = int(re.search(r"\.(\d+)", case["float_format"]).group(1))
                        reqs.append(f"{'fmte' if case['float_format'].endswith('e') else 'fmtf'} {digits} {neg} {num} {den}")
                        checks.append(("fmt", ftxt, {**case, "column": cn, "value": x.hex()}))
                        reqs.append(f"pnum [{enc(ftxt)}]")
                        checks.append(("pnum", back, {**case, "column": cn, "text": ftxt}))
                    ctx.count(("cell", cn, ftxt), True, "body/cell/" + kinds[cn])
        # the file as a whole through the model's reader: comment dictionary (all of it, in order), names, every record
        if nrow <= 30 and "\r" not in raw:
            allrows = []
            for r in range(nrow):
                allrows.append([("t", str(df2[cn].values[r])) if kinds[cn] == "text" else (("i", int(df2[cn].values[r])) if kinds[cn] == "int" else ("n", float(df2[cn].values[r])))
                                for cn in colnames])
            reqs.append(f"rfile [{enc(raw)}]")
            checks.append(("rfile", (list(c2.keys()), list(c2.values()), [str(c) for c in df2.columns], allrows), {**case, "text": raw}))
            ctx.count(("file", raw), True, "file/read+write")

    def derive(df):
        """a frame with a history: the index is no longer the default row counter (selection, sorting, reversal, a date or
        text index); it is not written (write_index=False) and must not leak into the columns"""
        nrow, colnames = len(df), list(df.columns)
        hist = rng.choice(["fresh", "fresh", "selected", "sorted", "reversed", "dates", "labels"])
        if hist == "selected":
            big = pd.concat([df, df], ignore_index=True)
            keep = set(rng.sample(range(2 * nrow), nrow))
            df = big.iloc[[i in keep for i in range(2 * nrow)]]
        elif hist == "sorted":
            df = df.sort_values(colnames[0], kind="stable", ascending=False)
        elif hist == "reversed":
            df = df.iloc[::-1]
        elif hist == "dates":
            df = df.set_axis(pd.date_range("2001-01-01", periods=nrow, freq="D"), axis=0)
        elif hist == "labels":
            df = df.set_axis([f"r{i}" for i in range(nrow)], axis=0)
        return df, hist

    def run_e2e(it, df, comment, mode, ff, fname, hist, sysinfo):
        """one write -> read pair in a fresh directory: name / member correspondence, oracle, body correspondence. Returns the
        frame read back (None when it could not be read)"""
        shutil.rmtree(e2e, ignore_errors=True)
        e2e.mkdir()
        colnames, nrow = [str(c) for c in df.columns], len(df)
        case = {"mode": mode, "name": fname, "float_format": ff, "comment": comment, "columns": colnames, "nrow": nrow, "frame_history": hist,
                "dtypes": [str(df[c].dtype) for c in df.columns]}
        try:
            if mode == "archive":
                with zipfile.ZipFile(e2e / "arc.zip", "w") as arc:
                    csv.write_csv(df, fname, comment, src, archive=arc, float_format=ff, write_sys_info=sysinfo)
                with zipfile.ZipFile(e2e / "arc.zip", "r") as arc:
                    members = arc.namelist()
                    df2, c2 = csv.read_csv(fname, archive=arc)
                    raw = arc.read(fname).decode("utf-8") if fname in members else None
                if members != [fname]:
                    ctx.finding("e2e/archive_member", "archive member is not stored under the given name", {**case, "members": members})
            else:
                compress = mode != "plain"
                csv.write_csv(df, e2e / fname, comment, src, compress=compress, float_format=ff, write_sys_info=sysinfo)
                created = sorted(p.name for p in e2e.iterdir())
                member = "-"
                if compress and len(created) == 1 and zipfile.is_zipfile(e2e / created[0]):
                    with zipfile.ZipFile(e2e / created[0]) as z:
                        member = "[" + enc(z.namelist()[0]) + "]"
                impl = f"[{enc(created[0])}] {member}"
                reqs.append(f"name [{enc(fname)}] {1 if compress else 0}")
                checks.append(("name", impl, case))
                df2, c2 = csv.read_csv(e2e / fname)
                raw = None
                if len(created) == 1:
                    if compress and zipfile.is_zipfile(e2e / created[0]):
                        with zipfile.ZipFile(e2e / created[0]) as z:
                            raw = z.read(z.namelist()[0]).decode("utf-8")
                    elif not compress:
                        raw = (e2e / created[0]).read_text(encoding="utf-8")
        except Exception as e:  # noqa
            ctx.finding(f"e2e/{mode}/cannot_read_back", "a file written by write_csv cannot be read back by read_csv",
                        {**case, "error": f"{type(e).__name__}: {e}"[:300]})
            ctx.count(("e2e", it), False, "e2e/" + mode)
            return None
        _, kinds = expected_of(df)
        ctx.count(("e2e", mode, fname, ff, tuple(colnames), nrow), True, "e2e/" + mode,
                  sample={"mode": mode, "name": fname, "columns": colnames, "comment": comment})
        ctx.count(("e2e-mix", it), True, "e2e/columns/" + "+".join(sorted(set(kinds.values()))))
        if oracle(case, df, comment, ff, df2, c2) and raw is not None:
            body_correspondence(case, df, df2, raw, c2)
        return df2

    # ---------------- (4a) corpus: minimal cases of every class of input that once escaped or uncovered a defect, replayed first
    # whatever the seed (harness/../corpus/C09/*.json: columns with dtypes, comment, mode, float format, optionally a second write
    # of a frame derived from the frame read back)
    for k, cfile in enumerate(sorted((C.ROOT / "corpus" / PID).glob("*.json"))):
        spec = json.loads(cfile.read_text())
        for mode in spec.get("modes", ["plain", "zip.csv", "archive"]):
            df = pd.DataFrame({cn: (np.array(c["values"], dtype=c["dtype"]) if c.get("dtype") else np.array(c["values"], dtype=object))
                               for cn, c in spec["columns"].items()})
            fname = {"plain": "c.csv", "zip.csv": "c.csv", "zip.zip": "c.zip", "zip.noext": "c", "zip.dots": "c.v2.csv", "archive": "sub/c.csv"}[mode]
            back = run_e2e(("corpus", k, mode), df, spec.get("comment", {}), mode, spec.get("float_format", "%0.5f"), fname, "corpus:" + cfile.stem, False)
            then = spec.get("then")
            if back is not None and then:
                d2 = back.iloc[then["keep_rows"]] if "keep_rows" in then else back
                if then.get("reset_index"):
                    d2 = d2.reset_index(drop=True)
                for cn, c in then.get("add_columns", {}).items():
                    d2 = d2.copy()
                    d2[cn] = c["values"]
                if then.get("drop_columns"):
                    d2 = d2.drop(columns=then["drop_columns"])
                run_e2e(("corpus2", k, mode), d2, then.get("comment", {}), mode, spec.get("float_format", "%0.5f"), fname, "corpus:" + cfile.stem + ":derived", False)

    for it in range(ctx.scale(150, 1500)):
        df, colnames = gen_frame()
        df, hist = derive(df)
        comment = {gen_key(rng): gen_val(rng) for _ in range(rng.randint(0, 3))}
        mode = rng.choice(["plain", "zip.csv", "zip.zip", "zip.noext", "zip.dots", "archive"])
        ff = rng.choice(fmts)
        base = rng.choice(["data", "d_1", "Run-A"])
        fname = {"plain": base + ".csv", "zip.csv": base + ".csv", "zip.zip": base + ".zip", "zip.noext": base,
                 "zip.dots": base + ".v2.csv", "archive": "sub/folder/" + base + ".csv"}[mode]
        run_e2e(it, df, comment, mode, ff, fname, hist, rng.random() < 0.5)

    # ---------------- (5) archives holding several members, some names being suffixes of others
    for it in range(ctx.scale(40, 400)):
        shutil.rmtree(e2e, ignore_errors=True)
        e2e.mkdir()
        base = rng.choice(["sim.csv", "obs.csv", "m.csv"])
        pool = [base, "run1/" + base, "calib/run1/" + base, "1/" + base, "11/" + base, "all/sub/" + base, "sub/" + base, "x" + base]
        members = rng.sample(pool, rng.randint(2, 4))
        frames = {}
        try:
            with zipfile.ZipFile(e2e / "arc.zip", "w") as arc:
                for k, mname in enumerate(members):
                    dfk = pd.DataFrame({"a" + str(k): [float(k + 1) * (i + 1) for i in range(k + 2)], "t": ["v%d_%d" % (k, i) for i in range(k + 2)]})
                    frames[mname] = dfk
                    csv.write_csv(dfk, mname, {"member": "m%d" % k}, src, archive=arc, write_sys_info=False)
            with zipfile.ZipFile(e2e / "arc.zip", "r") as arc:
                for k, mname in enumerate(members):
                    d2, c2 = csv.read_csv(mname, archive=arc)
                    ctx.count(("arc", tuple(members), mname), True, "e2e/archive_multi")
                    if list(d2.columns) != list(frames[mname].columns) or len(d2) != len(frames[mname]) or c2.get("member") != "m%d" % k:
                        ctx.finding("e2e/archive/wrong_member_read", "reading one member of an archive returns another member's table",
                                    {"members": members, "read": mname, "got_columns": [str(c) for c in d2.columns], "got_comment": c2.get("member")})
        except Exception as e:  # noqa
            ctx.finding("e2e/archive_multi/cannot_read_back", "a member written into an archive cannot be read back",
                        {"members": members, "error": f"{type(e).__name__}: {e}"[:300]})

    # ---------------- (6) sessions: several writes and reads in one process and one directory / one archive. Frames are fresh or
    # DERIVED FROM A FRAME THAT read_csv RETURNED EARLIER (rows selected, a column added or dropped, rows doubled, columns
    # reordered, a plain copy): whatever an object carries along from its past (attributes, caches keyed by name, earlier
    # comments) must not show in the file written now. Comment dictionaries are fresh, re-used objects, or earlier ones with
    # one value changed. Names are new or re-used (the later write replaces the file); rejected calls (missing file, member
    # already in the archive) must leave the files written before readable as they were.
    sess = work / "sess"

    def derive_from_read(d):
        d = d.copy() if rng.random() < 0.3 else d
        how = rng.choice(["rows", "head", "addcol", "dropcol", "double", "reorder", "asis", "rows+addcol"])
        if "rows" in how and len(d) > 1:
            mask = [rng.random() < 0.5 for _ in range(len(d))]
            if not any(mask):
                mask[0] = True
            d = d.loc[mask]
            if rng.random() < 0.5:
                d = d.reset_index(drop=True)
        if how == "head" and len(d) > 1:
            d = d.head(rng.randint(1, len(d) - 1))
        if "addcol" in how:
            cn = rng.choice(["extra", "flag", "q-mm", "n 2"])
            if cn not in d.columns:
                d = d.copy()
                d[cn] = gen_column(rng.choice(["float", "int", "text"]), len(d))[0]
        if how == "dropcol" and d.shape[1] > 1:
            d = d.drop(columns=[rng.choice(list(d.columns))])
        if how == "double":
            d = pd.concat([d, d], ignore_index=True)
        if how == "reorder" and d.shape[1] > 1:
            d = d[list(d.columns)[::-1]]
        return d, how

    for it in range(ctx.scale(60, 600)):
        shutil.rmtree(sess, ignore_errors=True)
        sess.mkdir()
        use_archive = rng.random() < 0.3
        read_frames, comments_used, written = [], [], {}     # written: name -> (frame, comment, ff, compress)
        steps = []
        arcfile = sess / "arc.zip"
        for step in range(rng.randint(2, 4)):
            if read_frames and rng.random() < 0.75:
                df, how = derive_from_read(rng.choice(read_frames))
                how = "derived:" + how
            else:
                df, _ = gen_frame()
                how = "fresh"
            r = rng.random()
            if comments_used and r < 0.25:
                comment = rng.choice(comments_used)                     # the same object again
            elif comments_used and r < 0.5:
                comment = dict(rng.choice(comments_used))
                if comment:
                    comment[rng.choice(sorted(comment))] = gen_val(rng)   # one value changed
                else:
                    comment[gen_key(rng)] = gen_val(rng)
            else:
                comment = {gen_key(rng): gen_val(rng) for _ in range(rng.randint(0, 3))}
            comments_used.append(comment)
            supplied = dict(comment)
            ff = rng.choice(fmts)
            base = rng.choice(["a", "b", "a"]) if not use_archive else rng.choice(["x/a.csv", "x/b.csv", "a.csv", "y/x/a.csv"])
            compress = (not use_archive) and rng.random() < 0.5
            fname = base if use_archive else base + rng.choice([".csv", ".csv", ".zip" if compress else ".txt", ""])
            steps.append({"step": step, "frame": how, "name": fname, "compress": compress, "shape": list(df.shape), "comment": supplied})
            case = {"session": steps[:], "archive": use_archive, "float_format": ff, "columns": [str(c) for c in df.columns]}
            rejected = False
            try:
                if use_archive:
                    with zipfile.ZipFile(arcfile, "a") as arc:
                        if fname in arc.namelist():
                            # a member of that name is there: the call is refused, and must leave the archive as it was
                            try:
                                csv.write_csv(df, fname, comment, src, archive=arc, float_format=ff, write_sys_info=False)
                            except ValueError:
                                pass
                            rejected = True
                        else:
                            csv.write_csv(df, fname, comment, src, archive=arc, float_format=ff, write_sys_info=False)
                    if not rejected:
                        written[fname] = (df, supplied, ff)
                    with zipfile.ZipFile(arcfile, "r") as arc:
                        df2, c2 = csv.read_csv(fname, archive=arc)
                else:
                    # a stale candidate that read_csv would prefer (the name itself, <stem>.gz) would make the read ambiguous:
                    # one storage mode per name within a session, so that the file read is the file written
                    stem = Path(fname).stem
                    clash = [n for n in written if Path(n).stem == stem]
                    if clash:
                        fname = clash[0]
                        compress = written[fname][3]
                        steps[-1].update(name=fname, compress=compress)
                    csv.write_csv(df, sess / fname, comment, src, compress=compress, float_format=ff, write_sys_info=rng.random() < 0.3)
                    written[fname] = (df, supplied, ff, compress)
                    if rng.random() < 0.2:
                        # a refused read in between (no such file) changes nothing
                        try:
                            csv.read_csv(sess / "nosuchfile.csv")
                        except ValueError:
                            pass
                    df2, c2 = csv.read_csv(sess / fname)
            except Exception as e:  # noqa
                ctx.finding("session/cannot_read_back", "a file written by write_csv in a sequence of calls cannot be read back",
                            {**case, "error": f"{type(e).__name__}: {e}"[:300]})
                break
            if comment != supplied:
                ctx.finding("session/caller_comment_modified", "write_csv changed the caller's comment dictionary", {**case, "now": comment})
            wdf, wcomment, wff = written[fname][:3]
            ctx.count(("sess", it, step), True, "session/" + ("archive" if use_archive else "files") + "/" + ("rejected" if rejected else how.split(":")[0]),
                      sample=case if step == 1 else None)
            oracle({**case, "mode": "session"}, wdf, wcomment, wff, df2, c2)
            read_frames.append(df2)
        else:
            # at the end every file of the session still holds what was last written under its name
            for fname, w in written.items():
                try:
                    if use_archive:
                        with zipfile.ZipFile(arcfile, "r") as arc:
                            df2, c2 = csv.read_csv(fname, archive=arc)
                    else:
                        df2, c2 = csv.read_csv(sess / fname)
                except Exception as e:  # noqa
                    ctx.finding("session/cannot_read_back", "a file written earlier in the session cannot be read at its end",
                                {"session": steps, "name": fname, "error": f"{type(e).__name__}: {e}"[:300]})
                    continue
                oracle({"session": steps, "mode": "session-end", "name": fname, "archive": use_archive, "float_format": w[2]}, w[0], w[1], w[2], df2, c2)

    # ---------------- (7) number formatting on its own: what `float_format % x` (the operator to_csv applies to every float cell)
    # gives, against the model, at the branch values first: exact ties at the last printed decimal, values that round up into a new
    # digit, zeros of both signs, subnormal and huge magnitudes, integers around 2**53 and 2**63
    def num_case(ff, x):
        digits = int(re.search(r"\.(\d+)", ff).group(1))
        num, den = abs(x).as_integer_ratio()
        neg = 1 if math.copysign(1.0, x) < 0 else 0
        reqs.append(f"{'fmte' if ff.endswith('e') else 'fmtf'} {digits} {neg} {num} {den}")
        checks.append(("fmt", ff % x, {"float_format": ff, "value": x.hex()}))
        ctx.count(("num", ff, x), True, "number/" + ("exp" if ff.endswith("e") else "fixed"))

    specials = [0.0, -0.0, 0.5, 1.5, 2.5, -0.5, 0.125, 0.375, 0.0625, 9.5, 99.5, 0.995, 9.995, 999999.5, 0.000005, 0.0000049999, 5e-324, 2.2250738585072014e-308,
                1e22, 1e23, 1.7976931348623157e308, 123456789.125, 0.1, 0.2, 0.3, 1e-5, 1e-10, 9.999999995, 99999.999995, 0.9999999949999999]
    all_fmts = fmts + ["%0.0f", "%0.1f", "%0.3f", "%0.0e", "%0.1e", "%0.3e", "%0.12e"]
    for x in specials:
        for ff in all_fmts:
            if abs(x) < 1e300 or ff.endswith("e"):
                num_case(ff, x)
                num_case(ff, -x)
    for it in range(ctx.scale(300, 3000)):
        ff = rng.choice(all_fmts)
        digits = int(re.search(r"\.(\d+)", ff).group(1))
        r = rng.random()
        if r < 0.3:
            # an exact tie, or one ulp off a tie, at the last printed decimal
            x = (rng.randint(-2000, 2000) + 0.5) / 2.0 ** rng.choice([0, 1, 2, 3]) if digits <= 3 else (rng.randint(-2000, 2000) * 2 + 1) / 2.0 ** (digits + 1)
            x = rng.choice([x, math.nextafter(x, math.inf), math.nextafter(x, -math.inf)])
        elif r < 0.6:
            x = rng.choice([1, -1]) * 10 ** rng.uniform(-12, 12) * rng.random()
        elif r < 0.8:
            x = rng.choice([1, -1]) * float(10 ** rng.randint(1, 15) - rng.choice([1, 5, 50])) / 10 ** rng.randint(0, 12)   # 9.99…5: carries
        else:
            x = rng.choice([1, -1]) * 10 ** rng.uniform(-320, 300 if ff.endswith("e") else 40)
        num_case(ff, x)
    for z in [0, 1, -1, 9, 10, 99, 100, 2 ** 53 - 1, 2 ** 53, 2 ** 53 + 1, -(2 ** 53) - 1, 2 ** 63 - 1, -2 ** 63, 2 ** 64 - 1, 10 ** 18 + 7] + \
            [rng.randint(-10 ** rng.randint(1, 19), 10 ** rng.randint(1, 19)) for _ in range(ctx.scale(50, 500))]:
        reqs.append(f"fmti {z}")
        checks.append(("fmt", str(z), {"integer": str(z)}))
        reqs.append(f"pint [{enc(str(z))}]")
        checks.append(("pint", z, {"text": str(z)}))
        ctx.count(("int", z), True, "number/integer")

    # ---------------- (8) directory histories: any sequence of writes (plain / compressed, under names that share a stem, with the
    # source file missing now and then) and reads in ONE directory, real code against the model's state machine; where the model's
    # theorems say the read must return the frame just written (no older file that read_csv prefers) the real code is held to it
    fsdir = work / "fs"
    name_pool = ["d.csv", "d.zip", "d", "d.txt", "a.b.csv", "a.b", "d.csv.gz", "d.gz", "e.dat"]
    nosrc = work / "missing_script.py"
    small = pd.DataFrame({"v": [1.5, 2.5]})
    for it in range(ctx.scale(120, 1200)):
        shutil.rmtree(fsdir, ignore_errors=True)
        fsdir.mkdir()
        ops, outs, hist = [], [], []
        last_write = None
        for k in range(rng.randint(2, 7)):
            name = rng.choice(name_pool)
            if rng.random() < 0.55:
                compress, has_src, ident = rng.random() < 0.5, rng.random() < 0.9, f"w{k}"
                before = {p.name for p in fsdir.iterdir()}
                try:
                    csv.write_csv(small, fsdir / name, {"id": ident}, src if has_src else nosrc, compress=compress, write_sys_info=False)
                    accepted = True
                except ValueError:
                    accepted = False
                ops.append(f"[{enc('w')};{enc(name)};{enc('1' if compress else '0')};{enc('1' if has_src else '0')};{enc(ident)}]")
                hist.append({"op": "write", "name": name, "compress": compress, "source_exists": has_src, "id": ident})
                if accepted != has_src:
                    ctx.disagree("C09/directory: write_csv accepted / refused a call otherwise than the model", {"history": hist[:]})
                stem = Path(name).stem
                stale = (compress and Path(name).suffix != ".zip" and name in before) or (compress and stem + ".gz" in before and name != stem + ".gz")
                readable = Path(name).suffix != ".gz" and (compress or Path(name).suffix != ".zip")
                last_write = (name, ident) if accepted and readable and not stale else None
            else:
                try:
                    _, c2 = csv.read_csv(fsdir / name)
                    out = "t[" + enc(c2.get("id", "?")) + "]"
                except ValueError as e:
                    out = "notFound" if "Cannot find valid file" in str(e) else "wrongKind"
                except KeyError:
                    out = "noMember"
                except Exception:  # noqa
                    out = "wrongKind"
                ops.append(f"[{enc('r')};{enc(name)}]")
                outs.append(out)
                hist.append({"op": "read", "name": name, "outcome": out if not out.startswith("t[") else "id=" + dec(out[1:])})
                if last_write and last_write[0] == name and out != "t[" + enc(last_write[1]) + "]":
                    ctx.finding("directory/written_frame_not_read_back", "read_csv does not return the frame write_csv just stored under that name "
                                "(no older file of the same stem that read_csv prefers is present)", {"history": hist[:]})
                if out == "noMember":
                    ctx.finding("directory/zip_member_missing", "read_csv opens a zip file written by write_csv and does not find its member", {"history": hist[:]})
        listing = []
        for p_ in sorted(fsdir.iterdir()):
            if zipfile.is_zipfile(p_):
                with zipfile.ZipFile(p_) as z:
                    listing.append("z[" + enc(p_.name) + "]" + encs(z.namelist()))
            else:
                listing.append("p[" + enc(p_.name) + "]")
        reqs.append("fs " + " ".join(ops))
        checks.append(("fs", (sorted(listing), outs), {"history": hist}))
        ctx.count(("fs", tuple(ops)), True, "directory/history", sample={"history": hist} if it < 2 else None)

    # ---------------- (9) archive histories: member writes (a name already present is refused and must change nothing) and reads
    # (a name never written fails) in one caller-supplied archive
    arcdir = work / "arch"
    member_pool = ["a.csv", "x/a.csv", "y/x/a.csv", "b.csv", "x/b.csv", "xa.csv"]
    for it in range(ctx.scale(80, 800)):
        shutil.rmtree(arcdir, ignore_errors=True)
        arcdir.mkdir()
        ops, outs, hist = [], [], []
        for k in range(rng.randint(2, 7)):
            m = rng.choice(member_pool)
            if rng.random() < 0.55:
                ident = f"w{k}"
                with zipfile.ZipFile(arcdir / "arc.zip", "a") as arc:
                    try:
                        csv.write_csv(small, m, {"id": ident}, src, archive=arc, write_sys_info=False)
                        out = "[" + enc(ident) + "]"
                    except ValueError:
                        out = "none"
                ops.append(f"[{enc('w')};{enc(m)};{enc(ident)}]")
            else:
                out = "none"
                if (arcdir / "arc.zip").exists():
                    with zipfile.ZipFile(arcdir / "arc.zip", "r") as arc:
                        try:
                            _, c2 = csv.read_csv(m, archive=arc)
                            out = "[" + enc(c2.get("id", "?")) + "]"
                        except KeyError:
                            out = "none"
                ops.append(f"[{enc('r')};{enc(m)}]")
            outs.append(out)
            hist.append({"op": "write" if dec(ops[-1].split(";")[0][1:]) == "w" else "read", "member": m, "outcome": out if out == "none" else dec(out)})
        members, holds = [], []
        if (arcdir / "arc.zip").exists():
            with zipfile.ZipFile(arcdir / "arc.zip", "r") as arc:
                members = arc.namelist()
                holds = [csv.read_csv(m, archive=arc)[1].get("id", "?") for m in members]
        reqs.append("arc " + " ".join(ops))
        checks.append(("arc", (members, holds, outs), {"history": hist}))
        ctx.count(("arc", tuple(ops)), True, "archive/history")

    # ---------------- correspondence
    replies = lean.ask(reqs)
    extra_reqs, extra_checks = [], []
    for req, rep, chk in zip(reqs, replies, checks):
        kind, impl, case = chk
        if kind == "hdr":
            a, b, c = rep.split(" ")
            model = (decs(a), decs(b), decs(c))
            ok = model[0] == impl[0] and model[1] == impl[1] and model[2] == impl[2]
            if not ok:
                ctx.disagree("C09/header: implementation and model differ", {**case, "impl": impl, "model": model})
        elif kind == "h2c":
            a, b = rep.split(" ")
            model = (decs(a), decs(b))
            if model[0] != impl[0] or model[1] != impl[1]:
                ctx.disagree("C09/_header2comment: implementation and model differ", {**case, "impl": impl, "model": model})
        elif kind == "cols":
            model = decs(rep)
            if model != impl:
                ctx.disagree("C09/column names: the model's split of the written line differs from the names read_csv returned",
                             {**case, "impl": impl, "model": model})
        elif kind == "parse":
            model = decs(rep)
            ok = len(model) == len(impl)
            if ok:
                for f, (t, v) in zip(model, impl):
                    if t == "t":
                        ok = ok and f == v
                    elif t == "i":
                        ok = ok and re.fullmatch(r"-?\d+", f) is not None and int(f) == v
                    else:
                        try:
                            fv = float(f)
                            ok = ok and (fv == v or abs(fv - v) <= 2 * np.spacing(abs(v)))
                        except ValueError:
                            ok = False
            if not ok:
                ctx.disagree("C09/record: the model's tokeniser and read_csv differ on a written record", {**case, "impl": impl, "model": model})
            else:
                # second leg: the model's writer reproduces the written text from the fields
                extra_reqs.append(f"row {encs(model)}")
                extra_checks.append((case["line"], case, "record"))
        elif kind == "fmt":
            if dec(rep) != impl:
                ctx.disagree("C09/number format: the text written differs from the model's formatting of the exact value", {**case, "impl": impl, "model": dec(rep)})
        elif kind == "pint":
            if rep != str(impl):
                ctx.disagree("C09/integer cell: the integer read back differs from the model's reading of the written text", {**case, "impl": str(impl), "model": rep})
        elif kind == "pnum":
            ok = rep != "none"
            if ok:
                y, b = Fraction(rep), Fraction(impl)
                ok = abs(y - b) <= 2 * Fraction(math.ulp(impl))     # the reader rounds the decimal text to a neighbouring double
                ok = ok and (y == 0 or (y > 0) == (math.copysign(1.0, impl) > 0))
            if not ok:
                ctx.disagree("C09/float cell: the number read back is not the double next to the exact value of the written text", {**case, "impl": repr(impl), "model": rep})
        elif kind == "rfile":
            toks = rep.split(" ")
            ok = rep != "none" and len(toks) == 3 + len(impl[3])
            if ok:
                ok = decs(toks[0]) == impl[0] and decs(toks[1]) == impl[1] and decs(toks[2]) == impl[2]
                mrows = [decs(t) for t in toks[3:]]
                for mr, ir in zip(mrows, impl[3]):
                    ok = ok and len(mr) == len(ir)
                    if not ok:
                        break
                    for f, (t, v) in zip(mr, ir):
                        if t == "t":
                            ok = ok and f == v
                        elif t == "i":
                            ok = ok and re.fullmatch(r"-?\d+", f) is not None and int(f) == v
                        else:
                            try:
                                ok = ok and (float(f) == v or abs(float(f) - v) <= 2 * np.spacing(abs(v)))
                            except ValueError:
                                ok = False
            if not ok:
                ctx.disagree("C09/whole file: the model's reader and read_csv differ on a written file (comment dictionary, names or records)",
                             {k: v for k, v in {**case, "impl": impl[:3], "model": toks[:3]}.items() if k != "text"})
            else:
                # second leg: the model's writer reproduces the file text from the header lines, names and fields it read
                hl = []
                for l in case["text"].split("\n"):
                    if not l.startswith("#"):
                        break
                    hl.append(l)
                extra_reqs.append("wfile " + encs(hl) + " " + " ".join(toks[2:]))
                extra_checks.append((case["text"], {k: v for k, v in case.items() if k != "text"}, "file"))
        elif kind == "fs":
            toks = rep.split(" ")
            listing = sorted(re.findall(r"[pz]\[[^\]]*\](?:\[[^\]]*\])?", toks[0][1:-1]))
            if listing != impl[0] or toks[1:] != impl[1]:
                ctx.disagree("C09/directory history: files present or read outcomes differ between the real code and the model",
                             {**case, "impl": [impl[0], impl[1]], "model": [listing, toks[1:]]})
        elif kind == "arc":
            toks = rep.split(" ")
            # members in order, what each holds at the end (the model's specification: the first write of that name), outcomes
            if decs(toks[0]) != impl[0] or decs(toks[1]) != impl[1] or toks[2:] != impl[2]:
                ctx.disagree("C09/archive history: members, their final content or the outcomes differ between the real code and the model",
                             {**case, "impl": list(impl), "model": [decs(toks[0]), decs(toks[1]), toks[2:]]})
        elif kind == "check":
            if rep != impl:
                ctx.disagree("C09/_check_name: implementation and model differ", {**case, "impl": impl, "model": rep})
        elif kind == "name":
            full, member, *opened = rep.split(" ")
            if f"{full} {member}" != impl:
                ctx.disagree("C09/write target: implementation and model differ", {**case, "impl": impl, "model": rep})
            # the model's reader must open what the writer created (the real reader succeeded above)
            if opened[0] == "none":
                ctx.disagree("C09/read target: model cannot open the written file", {**case, "model": rep})
    for rep, (line, case, what) in zip(lean.ask(extra_reqs) if extra_reqs else [], extra_checks):
        if dec(rep) != line:
            ctx.disagree("C09/record writer: the model's quoting differs from the text to_csv wrote" if what == "record" else
                         "C09/whole file: the model's writer does not reproduce the text write_csv produced", {**case, "impl": line[:400], "model": dec(rep)[:400]})
    shutil.rmtree(work, ignore_errors=True)
    ctx.extra["rule"] = __doc__.split("Cases:")[1].strip()
    ctx.assumptions += ["DataFrame.to_csv / pandas.read_csv are external: their record quoting and tokenising (writeRow / parseRow / splitCols) and number formatting / parsing (fmtFixed / fmtExp / fmtInt / parseSci / parseInt over exact rationals) are modelled and compared on the written text and the values read; type inference, zipfile and the file system are exercised end-to-end and through the directory / archive state machines",
                        "regular expressions are modelled for single-line ASCII header elements"]


def main(tier, replay=None):
    from . import gen_c09
    return C.run_check(PID, tier, body, replay=replay, regen=gen_c09.regen,
                       trusted=["pandas to_csv/read_csv, zipfile, pathlib, the file system (external)",
                                "python `re` on single-line ASCII strings (modelled as list functions, compared by result)"])
