"""C10 — rank- and PIT-based forecast diagnostics depend only on ranks and stay in range.

Model: lean/HydroVerif/Model/C10.lean; theorems: lean/HydroVerif/Props/C10.lean (lemmas in Lemmas/C10*.lean).
Correspondence (Float instance of the model vs the real code, rebuilt from the working tree):
  c_hydrodiy_stat.ensrank   upper triangle of fmat and ranks, bit for bit; the two error codes
  metrics.dscore            D (or NaN) within 1e-12, observation ranks computed by the model when the
                            observations are tie free (or numpy's argsort happens to be stable), else taken
                            from numpy (np.argsort is external and not stable on ties)
  metrics.pit               random=True with the jitter re-drawn from the same numpy seed, random=False
                            (scipy percentileofscore kind="rank"), pseudo flag
  metrics.cramer_von_mises_test / anderson_darling_test / alpha   the statistic; AD accept/reject
  entry points as a whole (Model/C10Entry.lean): metrics.pit (layouts of obs / ens, kind = rank, weak, strict, mean, NaN
                            members, filter, error kinds), metrics.alpha (double filter, type CV / AD / KS / other),
                            metrics.dscore (obs [n] / [n,1] / [1,n], sim [n] / [n,1] / [n,p], length mismatch),
                            c_hydrodiy_stat.ensrank on caller-owned buffers as operation lists (replies and final
                            buffers bit for bit; rejected calls leave the buffers), the rounded formulas with rnd = id
Oracle (real code only, independent of the model): F and ranks against the Weigel-Mason pairwise definition by
brute force; D = (Pearson of observation ranks and Weigel-Mason ranks + 1)/2, in [0, 1], 1 / 0 for perfectly /
inversely ordered forecasts; D unchanged by strictly increasing maps (exp, arctan, cubic, affine - checked to be
order preserving and still separated in floating point) of observations / of all forecasts, and by member
permutations; PIT range, strict monotonicity in the count, pseudo flag; CvM and AD statistic against their
textbook formulas in exact rationals / math.log and under shuffling; p-values of CvM, AD, alpha(CV, KS, AD) in
[0, 1]; AD rejects exactly the samples holding a value outside [0, 1] or NaN.
Cases: n = 2..25 forecasts x m = 1..12 members (quick) drawn from value grids whose distinct values are
separated by far more than the tie tolerance: heavy ties (4 levels), integer / decimal grids, negative values,
groups of identical ensembles with permuted members, shifted (perfectly / inversely ordered) ensembles, constant
forecasts, magnitudes up to 1e17 (products) and offsets 1e4 .. 1e12 (sums: spread tiny relative to the values), eps in {1e-6 default, 1e-7, 1e-4}; exhaustive tie patterns over 4 values for
(n, m) = (2, 2), (3, 1) (quick) and (3, 2) (thorough); a large ensemble (m = 7072) pair differing by one
comparison; very large ensembles m = 46340, 46341, 65536 (thorough: 92683, 131072) x n = 2..3, shifted / reversed /
random / interleaved, where any int product of the sizes would overflow; members and samples are re-ordered at
random and in structured ways (sorted, reversed, last two swapped, smallest value last, rotations, one value
out of place); malformed calls (eps < 1e-20, no columns, no rows). PIT: n = 1..30, m = 1..12, observations on
the members' grid (exact ties, resolved by the jitter), at small magnitudes and as large-magnitude affine images
(1e4 .. 1e12, gaps far above the jitter but below 1e-10 x |value|), cst in [0, 0.5] and above (clamped), censoring thresholds
on and off the grid. Uniform samples: 1..300 values in (0, 1) incl. ties and values within 1e-12 of the ends,
shuffled; clusters of DISTINCT values 1 ulp .. 1e-6 apart (no separation condition on uniform samples), reversed / shuffled /
last two swapped; rejection stream with -0.1, 1.5, 1+2^-52, -1e-300, NaN, +-inf at random positions. Entry points: pit on
obs as scalar / [n] / [n,1] / [1,n] / 2-d, ens as [n,m] / [m], the four kinds, NaN members / observations / rows, length
mismatch; alpha with NaN rows and an unknown type; dscore on every documented layout and mismatched lengths; operation
lists of 2..6 steps on the kernel's output buffers (calls, calls rejected for eps or an empty dimension, scribbles,
buffers of another shape). Excluded points: forecasts closer than the tie tolerance (run, ranks sum and range only).
A case is non-trivial when the call is accepted and returns a finite value from a non-degenerate input.
"""
import itertools
import json
import math
import re
import warnings
from fractions import Fraction

import numpy as np

from . import common as C
from . import gen_c10

PID = "C10"
EPS_PIT = 1e-10


# ----------------------------------------------------------------------------------------------
# generators
def gen_grid(rng):
    """(step, levels): distinct values are k*step, separated by >= step >> tie tolerance"""
    kind = rng.choice(["ties4", "ties4", "int", "dec", "neg", "coarse", "fine"])
    if kind == "fine":
        # distinct values only twice the default tolerance apart
        return kind, 2e-6, list(range(0, 25))
    if kind == "ties4":
        return kind, rng.choice([1.0, 0.5, 2.0]), list(range(4))
    if kind == "int":
        return kind, 1.0, list(range(0, 60))
    if kind == "dec":
        return kind, rng.choice([1e-3, 0.01, 0.125]), list(range(0, 400))
    if kind == "neg":
        return kind, rng.choice([1.0, 0.25]), list(range(-30, 30))
    return kind, 7.25, list(range(0, 12))


def gen_ens(rng, nmax, mmax):
    n = rng.choice([2, 2, 3, 3, 4, 5, 6, 8, 12, nmax]) if rng.random() < 0.8 else rng.randint(2, nmax)
    m = rng.choice([1, 1, 2, 2, 3, 4, 5, 8, mmax]) if rng.random() < 0.8 else rng.randint(1, mmax)
    gkind, step, levels = gen_grid(rng)
    shape = rng.choice(["random", "random", "random", "identical", "shifted", "reversed", "constant", "block"])
    # observations: distinct most of the time
    if rng.random() < 0.75:
        obs = [float(v) for v in rng.sample(range(-50, 200), n)]
        if rng.random() < 0.3:
            obs = [v * 0.37 - 3.0 for v in obs]
    else:
        obs = [float(rng.choice([0, 1, 2, 3])) for _ in range(n)]
    # integer levels K; every value is the single product K * gap, so equal levels are bit-equal
    K = np.zeros((n, m), dtype=np.int64)
    if shape == "random":
        for i in range(n):
            for j in range(m):
                K[i, j] = rng.choice(levels)
    elif shape == "identical":
        ngroups = rng.randint(1, max(1, n // 2))
        protos = [[rng.choice(levels) for _ in range(m)] for _ in range(ngroups)]
        for i in range(n):
            row = list(rng.choice(protos))
            rng.shuffle(row)
            K[i, :] = row
    elif shape in ("shifted", "reversed"):
        base = [rng.choice(levels) for _ in range(m)]
        order = sorted(range(n), key=lambda i: (obs[i], i))
        rk = {i: r for r, i in enumerate(order)}
        shift = rng.choice([1, 3, max(levels) - min(levels) + 1])
        for i in range(n):
            r = rk[i] if shape == "shifted" else n - 1 - rk[i]
            row = [b + r * shift for b in base]
            rng.shuffle(row)
            K[i, :] = row
    elif shape == "constant":
        base = [rng.choice(levels) for _ in range(m)]
        for i in range(n):
            row = list(base)
            rng.shuffle(row)
            K[i, :] = row
    else:  # block: ensembles from two well separated clusters
        for i in range(n):
            off = rng.choice([0, 1000])
            for j in range(m):
                K[i, j] = rng.choice(levels) + off
    scale = 1.0
    if rng.random() < 0.12:
        scale = rng.choice([1e17, 1e16, 3e18, 1e-2 if step >= 0.25 else 1.0, 1e6]) if gkind != "fine" else rng.choice([1.0, 1e17])
    gap = step * scale
    sim = K.astype(float) * gap
    # large-magnitude affine images x -> off + x: the spread of an ensemble is then tiny RELATIVE to its values (1e-5 and
    # far less) while the members stay separated by far more than the tie tolerance; equal levels stay bit-equal
    off = 0.0
    if scale == 1.0 and rng.random() < 0.25:
        cands = [o for o in (1e4, 1e6, -1e6, 2.5e7, 1e9, -3e9, 1e12) if float(np.spacing(abs(o))) * 1000 <= gap]
        if cands:
            off = rng.choice(cands)
            sim = off + sim
    eps = 1e-6
    if rng.random() < 0.25:
        eps = rng.choice([1e-7, 1e-4, 1e-6])
    if gap < 20 * eps:
        eps = 1e-6 if gap >= 1.9e-6 else gap / 2
    return {"obs": obs, "sim": sim, "eps": eps,
            "gen": f"{gkind}/{shape}" + ("/scaled" if scale != 1.0 else "") + ("/offset" if off != 0.0 else ""), "gap": gap}


# ----------------------------------------------------------------------------------------------
# independent definitions (oracle)
def wm_pairs(sim):
    """W[i,k] = sum_a sum_b ([b<a] + 1/2 [a=b]), a in ens i, b in ens k (exact: multiples of 1/2)"""
    a = sim[:, None, :, None]
    b = sim[None, :, None, :]
    return ((b < a) * 1.0 + (a == b) * 0.5).sum(axis=(2, 3))


def wm_ranks(W, m):
    half = m * m / 2.0
    u = np.where(W > half, 1.0, np.where(W < half, 0.0, 0.5))
    np.fill_diagonal(u, 0.0)
    return 1.0 + u.sum(axis=1)


def pearson_exact(x, y):
    """Pearson correlation of two rank vectors (multiples of 1/2) from exact sums"""
    fx = [Fraction(v).limit_denominator(4) for v in x]
    fy = [Fraction(v).limit_denominator(4) for v in y]
    n = len(fx)
    mx, my = sum(fx) / n, sum(fy) / n
    sxy = sum((a - mx) * (b - my) for a, b in zip(fx, fy))
    sxx = sum((a - mx) ** 2 for a in fx)
    syy = sum((b - my) ** 2 for b in fy)
    if sxx == 0 or syy == 0:
        return None
    return float(sxy) / math.sqrt(float(sxx) * float(syy))


def order_iso(xs, ys, mingap=0.0):
    """ys is the image of xs under a map that kept every comparison and kept distinct values
    more than `mingap` apart"""
    xs, ys = np.asarray(xs, dtype=float).ravel(), np.asarray(ys, dtype=float).ravel()
    if not (np.all(np.isfinite(ys))):
        return False
    o = np.argsort(xs, kind="stable")
    xs, ys = xs[o], ys[o]
    dx, dy = np.diff(xs), np.diff(ys)
    if np.any((dx == 0) != (dy == 0)):
        return False
    return bool(np.all(dy[dx > 0] > mingap))


MAPS = {
    "exp": lambda x, s: np.exp(x / s),
    "arctan": lambda x, s: np.arctan(x / s),
    "cubic": lambda x, s: (x / s) ** 3,
    "affine": lambda x, s: 2.5 * x + 3.0 * s,
    "affine_big": lambda x, s: 1e17 * x,
    "offset_1e6": lambda x, s: x + 1e6 * s,
    "offset_1e9": lambda x, s: 0.5 * x - 1e9 * s,
}


def stable_ranks(x):
    x = np.asarray(x, dtype=float)
    return np.argsort(np.argsort(x, kind="stable"), kind="stable")


def valid_ranking(obs, rk):
    n = len(obs)
    if sorted(int(r) for r in rk) != list(range(n)):
        return False
    return all(not (obs[i] < obs[k]) or rk[i] < rk[k] for i in range(n) for k in range(n))


def reorder(rng, xs, how=None):
    """a rearrangement of xs: random or structured (sorted, reversed, sorted with the last two swapped, sorted with
    the smallest value moved to the end, a rotation of the sorted values, first n-1 sorted and one value out of place)"""
    xs = list(xs)
    n = len(xs)
    how = how or rng.choice(ORDERS)
    srt = sorted(xs)
    if how == "shuffle":
        rng.shuffle(xs)
        return xs, how
    if how == "sorted":
        return srt, how
    if how == "reversed":
        return srt[::-1], how
    if how == "swap_last":
        if n >= 2:
            srt[-1], srt[-2] = srt[-2], srt[-1]
        return srt, how
    if how == "min_last":
        return srt[1:] + srt[:1], how
    if how == "rotate":
        k = rng.randrange(n) if n else 0
        return srt[k:] + srt[:k], how
    if how == "one_out":
        if n >= 2:
            v = srt.pop(rng.randrange(n))
            srt.insert(rng.choice([0, n - 1, rng.randrange(n)]), v)
        return srt, how
    raise ValueError(how)


ORDERS = ["shuffle", "sorted", "reversed", "swap_last", "min_last", "rotate", "one_out"]

NEAR_GAPS = ["ulp", "ulp", 2.0 ** -52, 1e-15, 1e-13, 1e-12, 1e-10, 2e-9, 9e-9, 1.1e-8, 1e-7, 1e-6]


def near_clusters(rng, n):
    """n values of (0, 1) in clusters of 2..5 DISTINCT values that are 1 ulp .. 1e-6 apart (ascending inside a
    cluster, clusters in random order; the caller re-orders)"""
    x = []
    while len(x) < n:
        c = rng.uniform(0.02, 0.98)
        g = rng.choice(NEAR_GAPS)
        k = min(n - len(x), rng.choice([2, 2, 3, 5]))
        if g == "ulp":
            for _ in range(k):
                x.append(c)
                c = math.nextafter(c, 1.0)
        else:
            x += [c + j * g for j in range(k)]
    return x


def wm_pairs_sorted(sim):
    """same quantity as wm_pairs, from counts in the sorted second ensemble (for large ensembles)"""
    n = sim.shape[0]
    W = np.zeros((n, n))
    srt = [np.sort(sim[k]) for k in range(n)]
    for i in range(n):
        for k in range(n):
            left = np.searchsorted(srt[k], sim[i], side="left")
            right = np.searchsorted(srt[k], sim[i], side="right")
            W[i, k] = float(np.sum(left)) + 0.5 * float(np.sum(right - left))
    return W


def shape_tag(gen):
    """histogram key: the shape of the case (grid kinds are counted under dscore/grid=...)"""
    parts = gen.split("/")
    return parts[0] if parts[0] in ("fixed",) or parts[0].startswith("exhaustive") else "/".join(parts[1:])


def tiebreak_rankings(obs, limit=720):
    """every ordinal ranking of obs consistent with its order (ties broken in every possible way);
    None when there are more than `limit` of them"""
    n = len(obs)
    vals = sorted(set(obs))
    groups = [[i for i in range(n) if obs[i] == v] for v in vals]
    total = 1
    for g in groups:
        total *= math.factorial(len(g))
        if total > limit:
            return None
    out = []
    for perms in itertools.product(*[itertools.permutations(g) for g in groups]):
        rk = [0] * n
        pos = 0
        for g in perms:
            for i in g:
                rk[i] = pos
                pos += 1
        out.append(rk)
    return out


def rowstr(sim):
    return "[" + ";".join(",".join(C.f2h(v) for v in r) for r in sim) + "]"


# ----------------------------------------------------------------------------------------------
def body(ctx):
    warnings.simplefilter("ignore")
    from hydrodiy.stat import metrics
    import c_hydrodiy_stat
    rng = ctx.rng
    lean = ctx.lean
    reqs, checks = [], []   # checks: (kind, impl, case)

    class Raised(Exception):
        pass

    def real(entry, case, f, *a, **k):
        """call the real code on an input inside the property's quantifier: an exception is a finding, not a crash"""
        try:
            return f(*a, **k)
        except Exception as e:  # noqa
            jc = {kk: (vv.tolist() if isinstance(vv, np.ndarray) else vv) for kk, vv in case.items()} if isinstance(case, dict) else case
            ctx.finding(f"{entry}/raises", f"{entry} raises on an input inside the property's quantifier",
                        {**jc, "error": f"{type(e).__name__}: {str(e)[:150]}"})
            raise Raised()

    def add(req, kind, impl, case):
        reqs.append(req)
        checks.append((kind, impl, case))

    # error codes by name, from the header in the working tree
    hdr = (C.REPO / "src" / "hydrodiy" / "stat" / "c_dscore.h").read_text()
    codes = {int(v): k.lower() for k, v in re.findall(r"#define\s+(ESIZE|EVALUE)\s+(\d+)", hdr)}

    def call_ensrank(eps, sim):
        sim = np.ascontiguousarray(sim, dtype=np.float64)
        n = sim.shape[0]
        fmat = np.zeros((n, n))
        ranks = np.zeros(n)
        ierr = c_hydrodiy_stat.ensrank(eps, sim, fmat, ranks)
        return ierr, fmat, ranks

    def ensrank_impl_str(ierr, fmat, ranks):
        if ierr != 0:
            return "err " + codes.get(ierr, f"code{ierr}")
        n = fmat.shape[0]
        up = "[" + ";".join(",".join(C.f2h(fmat[i, k]) for k in range(i + 1, n)) for i in range(n)) + "]"
        return "ok " + up + " " + C.flist(ranks)

    def dscore_case(case, exhaustive=False):
        obs, sim, eps = case["obs"], case["sim"], case["eps"]
        n, m = sim.shape
        jc = {"obs": obs, "sim": sim.tolist(), "eps": eps, "gen": case["gen"]}
        if "history" in case:
            jc["history"] = case["history"]
        # ---- kernel
        if m >= 1:
            ierr, fmat, ranks = call_ensrank(eps, sim)
            add(f"ensrank {C.f2h(eps)} {m} {rowstr(sim)}", "ensrank", ensrank_impl_str(ierr, fmat, ranks), jc)
            W = wm_pairs(sim)
            wr = wm_ranks(W, m)
            if ierr != 0:
                ctx.finding("ensrank/rejects_valid", "c_ensrank rejects a valid call", {**jc, "ierr": int(ierr)})
            else:
                iu = np.triu_indices(n, 1)
                Fdef = W / (m * m)
                if not np.all(np.abs(fmat[iu] - Fdef[iu]) <= 1e-13):
                    k = int(np.argmax(np.abs(fmat[iu] - Fdef[iu])))
                    i1, i2 = int(iu[0][k]), int(iu[1][k])
                    big = "/large_magnitude" if np.max(np.abs(sim)) >= 2.0 ** 53 else ""
                    ctx.finding("ensrank/F_not_weigel_mason" + big,
                                "fmat differs from the pairwise comparison sum_a sum_b ([b<a] + [a=b]/2)/m^2",
                                {**jc, "pair": [i1, i2], "F": float(fmat[i1, i2]), "definition": float(Fdef[i1, i2])})
                if not np.array_equal(ranks, wr):
                    big = "/large_magnitude" if np.max(np.abs(sim)) >= 2.0 ** 53 else ""
                    ctx.finding("ensrank/ranks_not_weigel_mason" + big,
                                "ranks differ from 1 + sum_k u(F(i,k)) of Weigel and Mason (2011)",
                                {**jc, "ranks": ranks.tolist(), "definition": wr.tolist()})
                # member permutation: same fmat, same ranks
                if not exhaustive:
                    sp = sim.copy()
                    how = rng.choice(ORDERS)
                    for i in range(n):
                        sp[i, :] = reorder(rng, sp[i, :], how if rng.random() < 0.7 else None)[0]
                    ctx.hist["ensrank/member_order=" + how] = ctx.hist.get("ensrank/member_order=" + how, 0) + 1
                    _, f2, r2 = call_ensrank(eps, sp)
                    if not (np.array_equal(f2[iu], fmat[iu]) and np.array_equal(r2, ranks)):
                        ctx.finding("ensrank/member_permutation", "fmat or ranks change when ensemble members are permuted",
                                    {**jc, "permuted": sp.tolist()})
        else:
            wr = None
        # ---- dscore
        try:
            D = float(real("dscore", jc, metrics.dscore, case.get("obs_array", np.array(obs)), sim, eps=eps))
        except Raised:
            return
        onp = np.argsort(np.argsort(np.array(obs, dtype=float)))
        ost = stable_ranks(obs)
        if not valid_ranking(obs, onp):
            ctx.finding("dscore/external/argsort_not_a_ranking", "np.argsort(np.argsort(obs)) is not a ranking of obs", {**jc})
        if np.array_equal(onp, ost):
            add(f"dscore {C.f2h(eps)} {m} {C.flist(obs)} {rowstr(sim)}", "dscore", D, jc)
            if len(reqs) % 3 == 0:
                # the same score through the model's clip + (r+1)/2 step written with explicit rounding (rnd = id)
                add(f"dscoref {C.f2h(eps)} {m} {C.flist(obs)} {rowstr(sim)}", "dscore", D, jc)
            ctx.hist["dscore/obs_ranks_by_model"] = ctx.hist.get("dscore/obs_ranks_by_model", 0) + 1
        else:
            # tied observations: how np.argsort breaks the ties is external (unspecified by numpy, not constrained by the
            # property); the model is run with the stable tie-break and with this numpy's, either may be the code's
            gid = len(reqs)
            add(f"dscore {C.f2h(eps)} {m} {C.flist(obs)} {rowstr(sim)}", "dscore_alt", (D, gid), jc)
            add(f"dscorer {C.f2h(eps)} {m} {C.ilist(onp)} {rowstr(sim)}", "dscore_alt", (D, gid), jc)
            ctx.hist["dscore/obs_ranks_tiebreak_external"] = ctx.hist.get("dscore/obs_ranks_tiebreak_external", 0) + 1
        gk = "dscore/grid=" + case["gen"].split("/")[0]
        ctx.hist[gk] = ctx.hist.get(gk, 0) + 1
        ctx.count(("dscore", tuple(obs), sim.tobytes(), eps), math.isfinite(D),
                  f"dscore/{shape_tag(case['gen'])}/m={'1' if m == 1 else '2+'}",
                  sample={"obs": obs[:5], "sim": sim[:3].tolist(), "eps": eps, "D": D})
        if wr is None:
            return
        rdef = pearson_exact(onp, wr)
        if rdef is None:
            if D == D:
                ctx.finding("dscore/constant_ranks_not_nan", "constant forecast ranks but a finite score", {**jc, "D": D})
            else:
                ctx.finding("dscore/constant_forecast_ranks/nan",
                            "D is NaN (0/0 in the rank correlation) when every forecast has the same rank", {**jc, "D": "nan"})
            return
        if not (D == D and 0.0 <= D <= 1.0):
            ctx.finding("dscore/out_of_range", "D is not in [0, 1]", {**jc, "D": repr(D)})
            return
        # value of D: the property does not say how tied observations are ranked, so every ordinal ranking of the
        # observations consistent with their order is admissible (all of them when there are at most 720)
        rankings = tiebreak_rankings(obs)
        if rankings is not None:
            Ddefs = []
            for rk in rankings:
                r = pearson_exact(rk, wr)
                Ddefs.append((max(-1.0, min(1.0, r)) + 1) / 2)
            if not any(abs(D - d) <= 1e-12 for d in Ddefs):
                tag = "/single_member_ties" if m == 1 and len(set(sim[:, 0].tolist())) < n else ""
                ctx.finding("dscore/not_rank_correlation" + tag,
                            "D differs from (Pearson(obs ranks, Weigel-Mason forecast ranks) + 1)/2 for every admissible "
                            "ranking of the observations", {**jc, "D": D, "definition": sorted(set(Ddefs))[:6]})
            ctx.hist["dscore/value_judged"] = ctx.hist.get("dscore/value_judged", 0) + 1
        else:
            ctx.hist["dscore/value_not_judged_many_obs_ties"] = ctx.hist.get("dscore/value_not_judged_many_obs_ties", 0) + 1
        # perfect / inverse ordering
        if len(set(obs)) == n:
            half = m * m / 2.0
            lt = np.array(obs)[:, None] < np.array(obs)[None, :]      # obs_i < obs_k
            if np.all(W.T[lt] > half) and abs(D - 1.0) > 1e-12:       # F(ens_k, ens_i) > 1/2
                ctx.finding("dscore/perfect_not_1", "forecasts ordered as the observations but D != 1", {**jc, "D": D})
            if np.all(W.T[lt] < half) and abs(D) > 1e-12:
                ctx.finding("dscore/inverse_not_0", "forecasts ordered inversely to the observations but D != 0", {**jc, "D": D})
        if exhaustive:
            return
        # strictly increasing maps
        name = rng.choice(list(MAPS))
        s = max(1.0, float(np.max(np.abs(sim)))) / rng.choice([1.0, 3.0])
        sim2 = MAPS[name](sim, s)
        if order_iso(sim, sim2, mingap=50 * eps):
            try:
                D2 = float(real("dscore", {**jc, "map": name}, metrics.dscore, np.array(obs), sim2, eps=eps))
            except Raised:
                return
            if not abs(D2 - D) <= 1e-12:
                big = "/large_magnitude" if np.max(np.abs(sim2)) >= 2.0 ** 53 else ""
                ctx.finding("dscore/forecast_map_changes_D" + big, "D changes under a strictly increasing map of all forecast values",
                            {**jc, "map": name, "scale": s, "D": D, "D_mapped": repr(D2)})
            ctx.count(("map", name), True, f"invariance/forecasts/{name}")
        so = max(1.0, float(np.max(np.abs(obs))))
        oname = rng.choice(["exp", "arctan", "cubic", "affine"])
        obs2 = MAPS[oname](np.array(obs), so)
        if order_iso(obs, obs2):
            try:
                D3 = float(real("dscore", {**jc, "obs_map": oname}, metrics.dscore, obs2, sim, eps=eps))
            except Raised:
                return
            if not abs(D3 - D) <= 1e-12:
                ctx.finding("dscore/obs_map_changes_D", "D changes under a strictly increasing map of the observations",
                            {**jc, "map": oname, "scale": so, "D": D, "D_mapped": repr(D3)})
            ctx.count(("omap", oname), True, f"invariance/observations/{oname}")
        sp = sim.copy()
        how = rng.choice(ORDERS)
        for i in range(n):
            sp[i, :] = reorder(rng, sp[i, :], how if rng.random() < 0.7 else None)[0]
        try:
            D4 = float(real("dscore", {**jc, "permuted": sp.tolist()}, metrics.dscore, np.array(obs), sp, eps=eps))
        except Raised:
            return
        if not abs(D4 - D) <= 1e-12:
            ctx.finding("dscore/member_permutation", "D changes when ensemble members are permuted", {**jc, "D": D, "D_permuted": repr(D4)})

    # ---------------- corpus-like fixed cases first (branch values)
    fixed = [
        {"obs": [1., 2., 3., 4.], "sim": np.array([[1., 2.], [3., 4.], [5., 6.], [7., 8.]]) * 1e16, "eps": 1e-6, "gen": "fixed/large"},
        {"obs": [1., 2., 3., 4.], "sim": np.array([[1.], [1.], [2.], [2.]]), "eps": 1e-6, "gen": "fixed/m1ties"},
        {"obs": [2., 1., 3., 4.], "sim": np.array([[1.], [1.], [2.], [2.]]), "eps": 1e-6, "gen": "fixed/m1ties"},
        {"obs": [1., 2., 3.], "sim": np.array([[1., 1.], [1., 1.], [1., 1.]]), "eps": 1e-6, "gen": "fixed/constant"},
        {"obs": [3., 1.], "sim": np.array([[0., 5.], [5., 0.]]), "eps": 1e-6, "gen": "fixed/identical"},
        {"obs": [1., 2.], "sim": np.array([[-1e300, 1e300], [0., 1.]]), "eps": 1e-6, "gen": "fixed/huge"},
    ]
    for c in fixed:
        dscore_case(c)
    # large ensemble: two ensembles differing by a single pairwise comparison
    mbig = 7072
    e2 = np.arange(mbig) * 2.0
    e1 = e2.copy()
    e1[0] = 1.0
    big = np.vstack([e1, e2])
    ierr, fmat, ranks = call_ensrank(1e-6, big)
    Wb = 0.5 * (mbig - 1) + sum(range(mbig)) + 1.0   # ties on the diagonal except the first member, which wins once
    ub = 1.0 if Wb > mbig * mbig / 2 else 0.0 if Wb < mbig * mbig / 2 else 0.5
    if ierr != 0 or list(ranks) != [1 + ub, 2 - ub]:
        ctx.finding("ensrank/ranks_not_weigel_mason/large_ensemble",
                    "two ensembles of 7072 members differing by one comparison are ranked as tied",
                    {"m": mbig, "e1": "2*arange(m) with e1[0]=1", "e2": "2*arange(m)", "ranks": list(map(float, ranks)),
                     "definition": [1 + ub, 2 - ub], "F_minus_half": float(fmat[0, 1] - 0.5)})
    add(f"fpair {C.f2h(1e-6)} {C.flist(e1)} {C.flist(e2)}", "fpair", float(fmat[0, 1]), {"m": mbig, "gen": "large_ensemble"})
    ctx.count(("bigm",), True, "ensrank/m=7072")

    # ---------------- very large ensembles: every product of the sizes must be formed in double precision
    # (m*m and m*(m+1) exceed 2^31 from m = 46341, 2^32 from m = 65536)
    for mi, mlarge in enumerate([46341, 65536, 46340] + ([92683, 131072] if ctx.thorough else [])):
        for shape in (["shifted", "reversed", "random", "interleaved"] if mi < 2 or ctx.thorough else ["reversed"]):
            n = rng.choice([2, 3])
            obs = [float(v) for v in rng.sample(range(100), n)]
            order = sorted(range(n), key=lambda i: obs[i])
            rk = {i: r for r, i in enumerate(order)}
            nlev = rng.choice([3, 50, 10 ** 6])
            base = np.array([rng.randrange(nlev) for _ in range(mlarge)], dtype=float)
            sim = np.zeros((n, mlarge))
            for i in range(n):
                if shape == "shifted":
                    row = base + rk[i] * rng.choice([1, nlev])
                elif shape == "reversed":
                    row = base + (n - 1 - rk[i]) * rng.choice([1, nlev])
                elif shape == "random":
                    row = np.array([rng.randrange(nlev) for _ in range(mlarge)], dtype=float)
                else:   # members of forecast i are the residues i mod n: interleaved, no ties across forecasts
                    row = np.arange(mlarge, dtype=float) * n + i
                sim[i, :] = reorder(rng, row, rng.choice(["shuffle", "sorted", "reversed"]))[0]
            jc = {"n": n, "m": mlarge, "shape": shape, "obs": obs, "levels": nlev, "gen": "large_ensemble",
                  "sim_head": sim[:, :6].tolist()}
            ierr, fmat, ranks = call_ensrank(1e-6, sim)
            W = wm_pairs_sorted(sim)
            wr = wm_ranks(W, mlarge)
            iu = np.triu_indices(n, 1)
            Fdef = W / (float(mlarge) * float(mlarge))
            if ierr != 0:
                ctx.finding("ensrank/rejects_valid", "c_ensrank rejects a valid call", {**jc, "ierr": int(ierr)})
                continue
            if not np.all(np.abs(fmat[iu] - Fdef[iu]) <= 1e-13):
                ctx.finding("ensrank/F_not_weigel_mason/large_ensemble",
                            "fmat differs from the pairwise comparison sum_a sum_b ([b<a] + [a=b]/2)/m^2",
                            {**jc, "F": fmat[iu].tolist(), "definition": Fdef[iu].tolist()})
            if not np.array_equal(ranks, wr):
                ctx.finding("ensrank/ranks_not_weigel_mason/large_ensemble",
                            "ranks differ from 1 + sum_k u(F(i,k)) of Weigel and Mason (2011)",
                            {**jc, "ranks": ranks.tolist(), "definition": wr.tolist()})
            try:
                D = float(real("dscore", jc, metrics.dscore, np.array(obs), sim))
            except Raised:
                continue
            onp = np.argsort(np.argsort(np.array(obs)))
            rdef = pearson_exact(onp, wr)
            if rdef is not None:
                Ddef = (max(-1.0, min(1.0, rdef)) + 1) / 2
                if not (D == D and 0.0 <= D <= 1.0):
                    ctx.finding("dscore/out_of_range", "D is not in [0, 1]", {**jc, "D": repr(D)})
                elif abs(D - Ddef) > 1e-12:
                    ctx.finding("dscore/not_rank_correlation/large_ensemble",
                                "D differs from (Pearson(obs ranks, Weigel-Mason forecast ranks) + 1)/2", {**jc, "D": D, "definition": Ddef})
                half = float(mlarge) * float(mlarge) / 2.0
                lt = np.array(obs)[:, None] < np.array(obs)[None, :]
                if np.all(W.T[lt] > half) and abs(D - 1.0) > 1e-12:
                    ctx.finding("dscore/perfect_not_1", "forecasts ordered as the observations but D != 1", {**jc, "D": D})
                if np.all(W.T[lt] < half) and abs(D) > 1e-12:
                    ctx.finding("dscore/inverse_not_0", "forecasts ordered inversely to the observations but D != 0", {**jc, "D": D})
            if mi == 0 and shape in ("shifted", "random"):
                add(f"fpair {C.f2h(1e-6)} {C.flist(sim[0])} {C.flist(sim[1])}", "fpair", float(fmat[0, 1]), jc)
            ctx.count(("large", mlarge, shape, sim[:, :50].tobytes()), True, f"ensrank/m={mlarge}/{shape}")

    # ---------------- exhaustive tie patterns over 4 values
    ex = [(2, 2), (3, 1)] + ([(3, 2)] if ctx.thorough else [])
    for (n, m) in ex:
        for vals in itertools.product(range(4), repeat=n * m):
            sim = np.array(vals, dtype=float).reshape(n, m)
            obs = [float(i) for i in range(n)]
            dscore_case({"obs": obs, "sim": sim, "eps": 1e-6, "gen": f"exhaustive{n}x{m}"}, exhaustive=True)

    # ---------------- random stream
    nmax, mmax = (25, 12) if not ctx.thorough else (40, 20)
    for _ in range(ctx.scale(2500, 25000)):
        dscore_case(gen_ens(rng, nmax, mmax))

    # ---------------- malformed stream for the kernel
    for _ in range(ctx.scale(30, 200)):
        kind = rng.choice(["eps_small", "eps_zero", "eps_neg", "nocol", "norow"])
        n, m = rng.randint(1, 5), rng.randint(1, 4)
        eps = 1e-6
        if kind == "eps_small":
            eps = rng.choice([1e-21, 9.9e-21, 1e-300])
        elif kind == "eps_zero":
            eps = 0.0
        elif kind == "eps_neg":
            eps = -1e-6
        elif kind == "nocol":
            m = 0
        else:
            n = 0
        sim = np.array([[float(rng.randint(0, 3)) for _ in range(m)] for _ in range(n)]).reshape(n, m)
        ierr, fmat, ranks = call_ensrank(eps, sim)
        add(f"ensrank {C.f2h(eps)} {m} {rowstr(sim) if n else '[]'}", "ensrank", ensrank_impl_str(ierr, fmat, ranks),
            {"sim": sim.tolist(), "eps": eps, "gen": "malformed/" + kind})
        ctx.count(("malformed", kind, n, m, eps), False, "ensrank/malformed/" + kind)
        if ierr == 0:
            ctx.finding("ensrank/accepts_invalid", "c_ensrank accepts eps < 1e-20 or an empty dimension", {"kind": kind, "n": n, "m": m, "eps": eps})
        if kind.startswith("eps") and n >= 2 and m >= 2:
            # dscore ignores the kernel's return code: the ranks stay 0 and the score is NaN (model: none)
            obs = [float(v) for v in rng.sample(range(20), n)]
            try:
                Dm = float(metrics.dscore(np.array(obs), sim, eps=eps))
            except Exception:  # noqa  (an invalid eps may as well be rejected: outside the property's quantifier)
                Dm = float("nan")
            add(f"dscore {C.f2h(eps)} {m} {C.flist(obs)} {rowstr(sim)}", "dscore", Dm,
                {"obs": obs, "sim": sim.tolist(), "eps": eps, "gen": "malformed/" + kind})

    # ---------------- PIT
    def pit_case(obs, ens, cst, censor, random_, seed, mag, history=None):
        n, m = ens.shape
        case = {"obs": obs.tolist(), "ens": ens.tolist(), "cst": cst, "censor": censor, "random": random_, "npseed": seed}
        if history is not None:
            case["history"] = history
        np.random.seed(seed)
        try:
            pits_returned, sudo = real("pit", case, metrics.pit, obs, ens, random=random_, cst=cst, censor=censor)
        except Raised:
            return None
        pits = np.array(pits_returned, dtype=float)
        np.random.seed(seed)
        dobs = np.random.uniform(-EPS_PIT, EPS_PIT, size=n)
        dens = np.random.uniform(-EPS_PIT, EPS_PIT, size=(n, m))
        cnts = []
        for i in range(n):
            if random_:
                add(f"pitr {C.f2h(cst)} {C.f2h(obs[i])} {C.f2h(dobs[i])} {C.flist(ens[i])} {C.flist(dens[i])}",
                    "pit", float(pits[i]), {**case, "i": i})
                # the formula with explicit rounding (rnd = id in the driver), on the count the jitter gives
                cnt_i = int(np.sum(ens[i] + dens[i] - (obs[i] + dobs[i]) < 0))
                add(f"pitfr {C.f2h(cst)} {cnt_i} {m}", "pit", float(pits[i]), {**case, "i": i, "count": cnt_i})
                # oracle, independent of how the code draws its jitter (the replayed draws above serve the model
                # correspondence only): members further than 2 EPS from the observation are counted for sure, members
                # within 2 EPS may fall on either side. The count implied by the PIT value must be an integer between
                # the two bounds; it is compared across forecasts only where the bounds coincide.
                if 0.0 <= cst <= 0.5:
                    margin = max(2 * EPS_PIT, 4 * float(np.spacing(abs(obs[i]))))   # jitter + rounding of value+jitter
                    lo = int(np.sum(ens[i] < obs[i] - margin))
                    hi = int(np.sum(ens[i] <= obs[i] + margin))
                    kimp = pits[i] * (1.0 - cst + m) - 0.5 + cst
                    kr = int(round(kimp)) if math.isfinite(kimp) else -1
                    if not (abs(kimp - kr) <= 1e-9 * (m + 1) and lo <= kr <= hi):
                        ctx.finding("pit/not_plotting_position_of_count",
                                    "PIT is not (k + 0.5 - cst)/(1 - cst + m) for a count k between the number of members "
                                    "certainly below and possibly below the observation",
                                    {**case, "i": i, "pit": float(pits[i]), "implied_count": float(kimp), "bounds": [lo, hi]})
                    cnts.append((lo, 0) if lo == hi else None)
                else:
                    cnts.append(None)
            else:
                add(f"pitk {C.f2h(obs[i])} {C.flist(ens[i])}", "pit", float(pits[i]), {**case, "i": i})
                left = int(np.sum(ens[i] < obs[i]))
                right = int(np.sum(ens[i] <= obs[i]))
                cnts.append((left, right - left))
            add(f"sudo {C.f2h(EPS_PIT)} {C.f2h(censor)} {C.f2h(obs[i])} {C.flist(ens[i])}", "sudo",
                "true" if bool(sudo[i]) else "false", {**case, "i": i})
            add(f"sudor {C.f2h(EPS_PIT)} {C.f2h(censor)} {C.f2h(obs[i])} {C.flist(ens[i])}", "sudo",
                "true" if bool(sudo[i]) else "false", {**case, "i": i})
            # oracle: pseudo flag; values on the grid are never within 1e-10 of the threshold unless equal to it
            want = (obs[i] <= censor) and bool(np.any(ens[i] <= censor))
            if bool(sudo[i]) != want:
                # censor + EPS == censor in double precision from |censor| ~ 1.7e6: tests written with that sum miss values
                # exactly at the threshold (defect of the pinned tree, fixed by comparing differences)
                absorbed = (censor + EPS_PIT == censor) and want and not bool(sudo[i]) and \
                    (obs[i] == censor or not np.any(ens[i] < censor))
                ctx.finding("pit/pseudo_flag" + ("/eps_absorbed_at_large_threshold" if absorbed else ""),
                            "pseudo-PIT flag differs from (obs <= censor and some member <= censor)",
                            {**case, "i": i, "flag": bool(sudo[i])})
            if not (0.0 <= pits[i] <= 1.0):
                if cst <= 0.5:
                    ctx.finding("pit/out_of_range", "PIT value outside [0, 1]", {**case, "i": i, "pit": float(pits[i])})
        # strict monotonicity in the count (same m, same cst, same number of ties with the observation)
        for i in range(n):
            for k in range(n):
                if cnts[i] is None or cnts[k] is None or cnts[i][1] != cnts[k][1]:
                    continue
                if cnts[i][0] < cnts[k][0] and not pits[i] < pits[k]:
                    ctx.finding("pit/not_increasing", "PIT does not increase strictly with the number of members below the observation",
                                {**case, "i": i, "k": k, "counts": [cnts[i][0], cnts[k][0]], "pits": [float(pits[i]), float(pits[k])]})
                if cnts[i][0] == cnts[k][0] and pits[i] != pits[k]:
                    ctx.finding("pit/not_function_of_count", "PIT differs for equal counts", {**case, "i": i, "k": k})
        ctx.count(("pit", obs.tobytes(), ens.tobytes(), cst, censor, random_, seed), True,
                  f"pit/{mag}/random={random_}/sudo={'some' if sudo.any() else 'none'}",
                  sample={"obs": obs[:3].tolist(), "ens": ens[:2].tolist(), "cst": cst, "censor": censor,
                          "random": random_, "pits": pits[:3].tolist()})
        return pits_returned, sudo


    # corpus: minimised past failures, replayed first
    for f in sorted((C.ROOT / "corpus" / PID).glob("*.json")):
        cj = json.loads(f.read_text())["case"]
        if cj.get("fn") == "pit":
            for sd in cj["npseeds"]:
                pit_case(np.array(cj["obs"], dtype=float), np.array(cj["ens"], dtype=float), cj["cst"], cj["censor"],
                         bool(cj["random"]), int(sd), "corpus")
        elif cj.get("fn") == "dscore":
            dscore_case({"obs": [float(v) for v in cj["obs"]], "sim": np.array(cj["sim"], dtype=float),
                         "eps": float(cj.get("eps", 1e-6)), "gen": "fixed/corpus"})

    for it in range(ctx.scale(600, 6000)):
        n = rng.choice([1, 2, 3, 5, 10, 30])
        m = rng.choice([1, 2, 3, 5, 8, 12])
        nlev = rng.choice([3, 6, 40])
        # every value is off + K*step for an integer level K: small magnitudes, or large-magnitude affine images of the
        # same levels whose gaps are far above the 1e-10 jitter in absolute terms but below 1e-10 * |value|
        if rng.random() < 0.65:
            off, step, mag = 0.0, rng.choice([1.0, 0.5, 0.1]), "small"
        else:
            off, step = rng.choice([(1e6, 1e-6), (1e6, 5e-7), (-1e6, 2e-6), (1e9, 0.01), (-3e9, 0.05), (1e4, 2e-8),
                                    (1e12, 10.0), (2.5e7, 1e-4)])
            mag = "large"
        lev = lambda K: off + K * step
        ens = np.array([[lev(rng.randint(0, nlev)) for _ in range(m)] for _ in range(n)])
        obs = np.array([lev(rng.randint(-1, nlev + 1)) for _ in range(n)])
        cst = rng.choice([0.0, 0.3, 0.5, 0.1, 0.25, 0.4999, 0.7, 1.0])
        censor = rng.choice([0.0, lev(0), lev(0), lev(1), lev(2), off - 1.0, lev(0.5), lev(nlev), off - abs(off) - 1.0])
        random_ = rng.random() < 0.6
        seed = rng.randrange(2 ** 31)
        pit_case(obs, ens, cst, censor, random_, seed, mag)

    # ---------------- uniformity statistics
    # which guard of ADtest fired, resolved against the current source (histogram only)
    adsrc = (C.REPO / "src" / "hydrodiy" / "stat" / "AnDarl.c").read_text().splitlines()
    adh = (C.REPO / "src" / "hydrodiy" / "stat" / "AnDarl.h").read_text()
    mbase = re.search(r"#define\s+ANDARL_ERROR\s+(\d+)", adh)
    adbase = int(mbase.group(1)) if mbase else 0

    def ad_kind(msg):
        mm = re.search(r"returns (\d+)", msg)
        if not mm:
            return "other"
        line = int(mm.group(1)) - adbase
        txt = " ".join(adsrc[max(0, line - 3):line])
        return "nan" if "isnan" in txt else "unsorted" if "prev" in txt else "range" if "<0" in txt.replace(" ", "") else "other"

    # the table as the code loads it (pandas) against the table the translator gave to Lean (decimal strings of the
    # archive): same shape, same numbers to the last bit or so; and the two facts proved about it by kernel evaluation
    tab, qq = np.asarray(metrics.CVM_TABLE, dtype=float), np.asarray(metrics.CVM_QQ, dtype=float)
    gsizes, gqq, gcols, _ = gen_c10.regen()
    gtab = np.array([[float(v) for v in col] for col in gcols]).T
    same = (list(metrics.CVM_NSAMPLE) == gsizes and tab.shape == gtab.shape and len(qq) == len(gqq)
            and np.allclose(qq, [float(v) for v in gqq], rtol=1e-12, atol=0) and np.allclose(tab, gtab, rtol=1e-12, atol=0))
    # (1e-12: pandas' default float parser is not correctly rounded; it is off by up to 9e-14 relative on this file)
    if not same:
        ctx.disagree("C10/cvm_table: the table loaded by metrics.py differs from the table translated for the model",
                     {"shape_code": list(tab.shape), "shape_generated": list(gtab.shape)})
    if not (np.all(np.diff(qq) > 0) and np.all((tab >= 0) & (tab <= 1)) and tab.shape[0] == len(qq)):
        ctx.finding("cvm/table_outside_unit_interval", "the tabulated CvM p-values are not in [0, 1] over increasing abscissae",
                    {"min": float(tab.min()), "max": float(tab.max()), "shape": list(tab.shape)})
    ctx.count(("cvmtable", tab.shape), True, "cvm/table_checked")
    # sample sizes around every tabulated size and half-way between two of them (column choice), statistics on and
    # between the abscissae and beyond both ends (clamping)
    for it in range(ctx.scale(150, 1500)):
        k = rng.randrange(len(gsizes))
        nn = max(1, rng.choice([gsizes[k], gsizes[k] + 1, gsizes[k] - 1, (gsizes[k] + gsizes[min(k + 1, len(gsizes) - 1)]) // 2,
                                (gsizes[k] + gsizes[min(k + 1, len(gsizes) - 1)] + 1) // 2, rng.randint(1, 1300)]))
        r = rng.randrange(len(qq))
        st = rng.choice([float(qq[r]), float(qq[r]) * (1 + 1e-9), 0.5 * (qq[r] + qq[min(r + 1, len(qq) - 1)]),
                         rng.uniform(0, 1.2), 1e-7, 0.0, 1.0, 3.0, 1.0 / (12 * nn)])
        col = int(np.argmin(np.abs(nn - metrics.CVM_NSAMPLE)))
        pv = float(np.interp(st, metrics.CVM_QQ, metrics.CVM_TABLE[:, col]))
        add(f"cvmpg {nn} {C.f2h(st)}", "cvmp", pv, {"nsample": nn, "stat": st, "gen": "table_lookup"})
        ctx.count(("cvmp", nn, st), True, "cvm/pvalue_lookup")

    def unif_case(x, kind, it, bad=None, xa=None, history=None):
        """AD and CvM on the sample x (xa: the array object handed to the code, when it must be a particular one)"""
        n = len(x)
        xa = np.array(x, dtype=float) if xa is None else xa
        valid = bool(np.all((xa >= 0) & (xa <= 1)))   # False for NaN
        case = {"data": [repr(v) for v in x] if (n <= 40 or kind.startswith("near")) else {"n": n, "head": [repr(v) for v in x[:10]]},
                "gen": kind, "bad": repr(bad)}
        if history is not None:
            case["history"] = history
        # AD
        try:
            adstat, adp = metrics.anderson_darling_test(xa)
            impl = "ok"
        except ValueError as e:
            impl = "err"
            adk = ad_kind(str(e))
        except Exception as e:  # noqa
            ctx.finding("ad/raises", "anderson_darling_test raises something else than ValueError",
                        {**case, "error": f"{type(e).__name__}: {str(e)[:150]}"})
            return
        add(f"ad {C.flist(x)}", "ad", (impl, float(adstat) if impl == "ok" else None,
                                        float(adp) if impl == "ok" and valid else None), case)
        ctx.count(("ad", xa.tobytes()), impl == "ok", f"ad/{kind}/" + ("accepted" if impl == "ok" else "rejected_" + adk))
        if impl == "ok" and not valid:
            ctx.finding("ad/accepts_outside_unit_interval", "Anderson-Darling test accepts data outside [0, 1] or NaN", {**case})
        if impl == "err" and valid:
            ctx.finding("ad/rejects_valid", "Anderson-Darling test rejects data inside [0, 1]", {**case})
            return
        if not valid:
            return
        # textbook AD: -n - (1/n) sum (2i-1) [ln x_(i) + ln(1 - x_(n+1-i))]
        xs = sorted(x)
        adef = -n - sum((2 * i + 1) * (math.log(xs[i]) + math.log1p(-xs[n - 1 - i])) for i in range(n)) / n
        if not C.close(float(adstat), adef, rel=1e-9, abs_=1e-9):
            ctx.finding("ad/statistic_not_textbook", "AD statistic differs from its textbook formula", {**case, "stat": float(adstat), "definition": adef})
        if not (0.0 <= adp <= 1.0):
            ctx.finding("ad/pvalue_out_of_range", "AD p-value outside [0, 1]", {**case, "stat": float(adstat), "pvalue": float(adp)})
        # CvM
        try:
            cv, cvp = real("cvm", case, metrics.cramer_von_mises_test, xa)
        except Raised:
            return
        add(f"cvm {C.flist(x)}", "cvm", float(cv), case)
        # p-value: the model interpolates in the table regenerated from the archive (Generated/CvmTable.lean)
        add(f"cvmpg {n} {C.f2h(cv)}", "cvmp", float(cvp), case)
        if n <= 12:
            add(f"cvmq [{','.join(C.rat(v) for v in x)}]", "cvmq", float(cv), case)
        q = [Fraction(v) for v in xs]
        cdef = Fraction(1, 12 * n) + sum((Fraction(2 * i + 1, 2 * n) - q[i]) ** 2 for i in range(n))
        if not C.close(float(cv), float(cdef), rel=1e-11, abs_=1e-15):
            ctx.finding("cvm/statistic_not_textbook", "CvM statistic differs from 1/(12n) + sum((2i-1)/(2n) - x_(i))^2",
                        {**case, "stat": float(cv), "definition": float(cdef)})
        if not (0.0 <= cvp <= 1.0):
            ctx.finding("cvm/pvalue_out_of_range", "CvM p-value outside [0, 1]", {**case, "stat": float(cv), "pvalue": float(cvp)})
        # order of the data is irrelevant
        hows = ORDERS if (n <= 12 or it % 5 == 0) else rng.sample(ORDERS, 2)
        for how in hows:
            xsh, _ = reorder(rng, x, how)
            ocase = {**case, "order": how, "reordered": [repr(v) for v in xsh] if (n <= 40 or kind.startswith("near")) else "see data"}
            ctx.hist["uniform/order=" + how] = ctx.hist.get("uniform/order=" + how, 0) + 1
            try:
                cv2, cvp2 = real("cvm", ocase, metrics.cramer_von_mises_test, np.array(xsh))
            except Raised:
                continue
            try:
                ad2, adp2 = metrics.anderson_darling_test(np.array(xsh))
            except Exception as e:  # noqa
                ctx.finding("ad/rejects_valid", "Anderson-Darling test rejects data inside [0, 1]", {**ocase, "error": str(e)[:100]})
                continue
            if not (C.close(float(cv2), float(cv), rel=1e-12, abs_=1e-15) and C.close(float(ad2), float(adstat), rel=1e-12, abs_=1e-12)
                    and C.close(float(adp2), float(adp), rel=1e-9, abs_=1e-10) and C.close(float(cvp2), float(cvp), rel=1e-9, abs_=1e-12)):
                ctx.finding("uniform/order_dependent", "CvM or AD statistic (or p-value) changes when the sample is re-ordered",
                            {**ocase, "cvm": [float(cv), float(cv2)], "ad": [float(adstat), float(ad2)]})
            if how != "shuffle" and it % 3 == 0:
                add(f"ad {C.flist(xsh)}", "ad", ("ok", float(ad2), float(adp2)), ocase)


    for it in range(ctx.scale(700, 7000)):
        n = rng.choice([1, 2, 3, 5, 10, 30, 100, 300]) if rng.random() < 0.7 else rng.randint(1, 300 if not ctx.thorough else 900)
        kind = rng.choice(["uniform", "uniform", "ties", "edges", "beta", "sorted", "regular", "regular", "near", "near"])
        if kind == "uniform":
            x = [rng.uniform(1e-9, 1 - 1e-9) for _ in range(n)]
        elif kind == "near":
            # DISTINCT values closer than any plausible tolerance (1 ulp .. 1e-6): the uniformity clause puts no
            # separation condition on the sample, so a sort or a sortedness check that is not exact shows here
            x = near_clusters(rng, n)
        elif kind == "ties":
            x = [rng.randint(1, 19) / 20.0 for _ in range(n)]
        elif kind == "edges":
            x = [rng.choice([1e-12, 1 - 1e-12, 0.5, rng.uniform(0.01, 0.99)]) for _ in range(n)]
        elif kind == "beta":
            x = [min(max(rng.betavariate(0.5, 2.0), 1e-9), 1 - 1e-9) for _ in range(n)]
        elif kind == "regular":
            # evenly spaced plotting positions (smallest possible statistics), exact or slightly perturbed
            w = rng.choice([0.0, 0.0, 0.1, 0.5])
            x = [(2 * i + 1 + w * rng.uniform(-1, 1)) / (2 * n) for i in range(n)]
            rng.shuffle(x)
        else:
            x = sorted(rng.uniform(1e-6, 1 - 1e-6) for _ in range(n))
        if rng.random() < (0.8 if kind == "near" else 0.35):
            x, okind = reorder(rng, x, rng.choice(["reversed", "shuffle", "swap_last", None]) if kind == "near" else None)
            kind = kind + "+" + okind
        bad = None
        if rng.random() < 0.3:
            bad = rng.choice([-0.1, 1.5, 1.0 + 2.0 ** -52, -1e-300, float("nan"), float("inf"), float("-inf"), -5e-324, 2.0])
            x[rng.randrange(n)] = bad
            if rng.random() < 0.3:
                x[rng.randrange(n)] = rng.choice([float("nan"), 1.5, -0.1])
        unif_case(x, kind, it, bad)

    # ---------------- alpha: statistic from the model's PIT, p-values in range
    for it in range(ctx.scale(200, 2000)):
        n = rng.choice([2, 5, 10, 40])
        m = rng.choice([1, 3, 10])
        step = rng.choice([1.0, 0.1])
        ens = np.array([[rng.randint(0, 30) * step for _ in range(m)] for _ in range(n)])
        obs = np.array([rng.randint(-1, 31) * step for _ in range(n)])
        typ = rng.choice(["CV", "AD", "KS"])
        seed = rng.randrange(2 ** 31)
        case = {"obs": obs.tolist(), "ens": ens.tolist(), "type": typ, "npseed": seed}
        np.random.seed(seed)
        try:
            stat, pv, sudo = metrics.alpha(obs, ens, type=typ)
        except Exception as e:  # noqa
            ctx.finding(f"alpha/{typ}/raises", "alpha raises on finite forecasts (its own PIT values are rejected by the test)",
                        {**case, "error": str(e)[:200]})
            continue
        np.random.seed(seed)
        try:
            pits, _ = real("pit", case, metrics.pit, obs, ens, random=True)
        except Raised:
            continue
        if not (0.0 <= pv <= 1.0):
            ctx.finding(f"alpha/{typ}/pvalue_out_of_range", "alpha p-value outside [0, 1]", {**case, "stat": float(stat), "pvalue": float(pv)})
        if typ == "CV":
            add(f"cvm {C.flist(pits)}", "cvm", float(stat), case)
        elif typ == "AD":
            add(f"ad {C.flist(pits)}", "ad", ("ok", float(stat), float(pv)), case)
        if typ in ("CV", "AD"):
            # the model's own alpha: jitter re-drawn from the seed, pit(random=True) with pit's default cst, then the test
            np.random.seed(seed)
            dobs = np.random.uniform(-EPS_PIT, EPS_PIT, size=n)
            dens = np.random.uniform(-EPS_PIT, EPS_PIT, size=(n, m))
            add(f"alpha {typ} {C.flist(obs)} {C.flist(dobs)} {rowstr(ens)} {rowstr(dens)}", "alpha", (float(stat), float(pv)), case)
        ctx.count(("alpha", obs.tobytes(), ens.tobytes(), typ, seed), True, f"alpha/{typ}")

    # ---------------- glue: __check_ensemble_data in front of pit / alpha (NaN rows, first-dimension check)
    for it in range(ctx.scale(120, 1200)):
        n = rng.choice([1, 2, 3, 6])
        m = rng.choice([1, 2, 4])
        ens = np.array([[float(rng.randint(0, 5)) for _ in range(m)] for _ in range(n)])
        obs = np.array([float(rng.randint(-1, 6)) for _ in range(n)])
        kind = rng.choice(["complete", "nan_obs", "nan_rows", "nan_both", "all_invalid", "length"])
        if kind in ("nan_obs", "nan_both"):
            for i in rng.sample(range(n), rng.randint(1, n)):
                obs[i] = np.nan
        if kind in ("nan_rows", "nan_both"):
            for i in rng.sample(range(n), rng.randint(1, n)):
                ens[i, :] = np.nan
        if kind == "all_invalid":
            for i in range(n):
                if rng.random() < 0.5:
                    obs[i] = np.nan
                else:
                    ens[i, :] = np.nan
        if kind == "length":
            obs = np.append(obs, [1.0] * rng.randint(1, 2)) if rng.random() < 0.5 or n == 1 else obs[:-1]
        case = {"obs": [repr(v) for v in obs], "ens": [[repr(v) for v in r] for r in ens], "gen": "glue/" + kind}
        try:
            pits, sudo = metrics.pit(obs, ens)
            kept = [i for i in range(n) if obs[i] == obs[i] and not np.all(np.isnan(ens[i]))]
            impl = "ok " + C.flist(obs[kept]) + f" {len(pits)}"
            if len(pits) != len(sudo):
                ctx.finding("pit/shapes", "pit returns PIT values and flags of different lengths", case)
            # in the property's quantifier (no NaN) nothing may be dropped
            if kind == "complete" and len(pits) != n:
                ctx.finding("pit/drops_complete_forecasts", "pit drops forecasts that hold no NaN", {**case, "returned": len(pits)})
            for pos, i in enumerate(kept[:len(pits)]):
                add(f"pitk {C.f2h(obs[i])} {C.flist(ens[i])}", "pit", float(pits[pos]), {**case, "i": i})
        except ValueError as e:
            msg = str(e)
            impl = "err " + ("lengthMismatch" if "first dim" in msg else "noValidData" if "No valid data" in msg else "other")
            if kind == "complete":
                ctx.finding("pit/rejects_complete_forecasts", "pit rejects complete finite forecasts", {**case, "error": msg[:100]})
        add(f"checkens {C.flist(obs)} {rowstr(ens)}", "checkens", impl, case)
        ctx.count(("glue", obs.tobytes(), ens.tobytes()), impl.startswith("ok"), "glue/" + kind + "/" + impl.split(" ")[0 if impl.startswith("ok") else 1])

    # ---------------- histories: the same arrays / buffers used over several calls, edited in place in between;
    # every answer is judged on the state at the time of the call
    import copy
    import pickle

    def new_levels(shape, levels):
        return np.array([rng.choice(levels) for _ in range(int(np.prod(shape)))], dtype=float).reshape(shape)

    for it in range(ctx.scale(120, 1200)):
        # --- dscore / ensrank
        n, m = rng.choice([2, 3, 5, 8]), rng.choice([1, 2, 3, 6])
        levels = [float(v) for v in range(rng.choice([3, 6, 30]))]
        sim = new_levels((n, m), levels)
        obs_arr = np.array(rng.sample(range(50), n), dtype=float)
        fbuf, rbuf = np.zeros((n, n)), np.zeros(n)
        eps = 1e-6
        trail = []
        for step in range(rng.randint(2, 4)):
            act = rng.choice(["same", "edit_sim", "edit_obs", "rewrite_sim", "other_eps", "copy", "scribble_outputs"]) if step else "first"
            if act == "edit_sim":
                for _ in range(rng.randint(1, 3)):
                    sim[rng.randrange(n), rng.randrange(m)] = rng.choice(levels)
            elif act == "edit_obs":
                i, k = rng.randrange(n), rng.randrange(n)
                obs_arr[i], obs_arr[k] = obs_arr[k], obs_arr[i]
                obs_arr[rng.randrange(n)] += 100.0
            elif act == "rewrite_sim":
                sim[:, :] = new_levels((n, m), levels)          # same shape, every value replaced
            elif act == "other_eps":
                eps = rng.choice([1e-7, 1e-4, 1e-6])
            elif act == "copy":
                sim = rng.choice([copy.deepcopy, lambda a: pickle.loads(pickle.dumps(a)), np.copy])(sim)
            elif act == "scribble_outputs":
                fbuf[:, :] = 7.0
                rbuf[:] = -3.0
            trail.append(act)
            if len(set(obs_arr.tolist())) < n:
                obs_arr += np.arange(n) * 1e-3
            dscore_case({"obs": obs_arr.tolist(), "obs_array": obs_arr, "sim": sim, "eps": eps, "gen": "fixed/history",
                         "history": list(trail)}, exhaustive=True)
            # the kernel on output buffers that still hold the previous answer
            ierr = c_hydrodiy_stat.ensrank(eps, sim, fbuf, rbuf)
            W = wm_pairs(sim)
            iu = np.triu_indices(n, 1)
            if ierr != 0 or not np.all(np.abs(fbuf[iu] - (W / (m * m))[iu]) <= 1e-13) or not np.array_equal(rbuf, wm_ranks(W, m)):
                ctx.finding("ensrank/history/reused_buffers", "c_ensrank on output buffers holding an earlier answer differs from Weigel-Mason",
                            {"sim": sim.tolist(), "eps": eps, "history": list(trail), "ranks": rbuf.tolist()})
            ctx.hist["history/dscore/" + act] = ctx.hist.get("history/dscore/" + act, 0) + 1

        # --- pit
        n, m = rng.choice([1, 3, 6]), rng.choice([1, 3, 5])
        off, step_ = rng.choice([(0.0, 1.0), (0.0, 0.1), (1e6, 1e-6)])
        lev = lambda K: off + K * step_
        ens = np.array([[lev(rng.randint(0, 6)) for _ in range(m)] for _ in range(n)])
        obs = np.array([lev(rng.randint(-1, 7)) for _ in range(n)])
        cst, censor, random_ = 0.3, lev(1), True
        trail, last = [], None
        for step in range(rng.randint(2, 4)):
            act = rng.choice(["same", "edit_ens", "edit_obs", "rewrite_ens", "other_options", "copy", "scribble_outputs"]) if step else "first"
            if act == "edit_ens":
                ens[rng.randrange(n), rng.randrange(m)] = lev(rng.randint(0, 6))
            elif act == "edit_obs":
                obs[rng.randrange(n)] = lev(rng.randint(-1, 7))
            elif act == "rewrite_ens":
                ens[:, :] = np.array([[lev(rng.randint(0, 6)) for _ in range(m)] for _ in range(n)])
            elif act == "other_options":
                cst, censor, random_ = rng.choice([0.0, 0.3, 0.5, 0.1]), lev(rng.randint(-1, 4)), rng.random() < 0.5
            elif act == "copy":
                ens, obs = copy.deepcopy(ens), pickle.loads(pickle.dumps(obs))
            elif act == "scribble_outputs" and last is not None and last[0] is not None:
                try:
                    last[0][...] = -1.0
                    last[1][...] = True
                except (TypeError, ValueError):
                    pass
            trail.append(act)
            last = pit_case(obs, ens, cst, censor, random_, rng.randrange(2 ** 31), "history", history=list(trail))
            ctx.hist["history/pit/" + act] = ctx.hist.get("history/pit/" + act, 0) + 1

        # --- uniformity statistics and alpha on one array
        n = rng.choice([2, 3, 7, 40])
        xa = np.array([rng.uniform(1e-6, 1 - 1e-6) for _ in range(n)])
        trail = []
        for step in range(rng.randint(2, 4)):
            act = rng.choice(["same", "edit_value", "near_value", "reverse_in_place", "sort_in_place", "rewrite", "copy"]) if step else "first"
            if act == "edit_value":
                xa[rng.randrange(n)] = rng.uniform(1e-6, 1 - 1e-6)
            elif act == "near_value":
                # one value becomes a near-duplicate (distinct, 1 ulp .. 1e-7 away) of another one
                i, k = rng.randrange(n), rng.randrange(n)
                g = rng.choice([1e-7, 2e-9, 1e-12, "ulp"])
                v = math.nextafter(float(xa[k]), rng.choice([0.0, 1.0])) if g == "ulp" else float(xa[k]) + rng.choice([-1, 1]) * g
                xa[i] = min(max(v, 1e-9), 1 - 1e-9)
            elif act == "reverse_in_place":
                xa[:] = xa[::-1].copy()
            elif act == "sort_in_place":
                xa.sort()
            elif act == "rewrite":
                xa[:] = [rng.uniform(1e-6, 1 - 1e-6) for _ in range(n)]
            elif act == "copy":
                xa = pickle.loads(pickle.dumps(xa))
            trail.append(act)
            before = xa.copy()
            unif_case(xa.tolist(), "history", 1, xa=xa, history=list(trail))
            if not np.array_equal(before, xa):
                # the statistics are order free, so this is not a violation of the property; later steps use the array as it is
                ctx.hist["history/uniform/input_changed_by_call"] = ctx.hist.get("history/uniform/input_changed_by_call", 0) + 1
            ctx.hist["history/uniform/" + act] = ctx.hist.get("history/uniform/" + act, 0) + 1

    # ---------------- entry point pit: layouts of obs / ens, optional argument kind, NaN members, filter, both branches
    KINDS = ["rank", "weak", "strict", "mean"]

    def arr_tok(a):
        """layout token + data token of an array handed to the code"""
        a = np.asarray(a, dtype=float)
        if a.ndim == 0:
            return "scalar", C.flist([float(a)])
        if a.ndim == 1:
            return "vec", C.flist(a)
        return f"mat:{a.shape[1]}", (rowstr(a) if a.shape[0] else "[]")

    def ens_err(msg):
        return ("obsNotOneD" if "not 1D" in msg else "lengthMismatch" if "first dim" in msg
                else "noValidData" if "No valid data" in msg else "other:" + msg[:60])

    for it in range(ctx.scale(400, 4000)):
        n = rng.choice([1, 2, 3, 4, 6])
        m = rng.choice([1, 2, 3, 4, 5])
        step = rng.choice([1.0, 0.5])
        ens = np.array([[rng.randint(0, 5) * step for _ in range(m)] for _ in range(n)])
        obs = np.array([rng.randint(-1, 6) * step for _ in range(n)])
        kind = rng.choice(KINDS)
        random_ = rng.random() < 0.5
        cst = rng.choice([0.0, 0.3, 0.5, 0.25, 0.7])
        censor = rng.choice([0.0, step, 2 * step, -1.0])
        shape = rng.choice(["vec", "vec", "col", "row", "obs2d", "scalar", "complete", "complete", "nan_members",
                            "nan_members", "nan_obs", "nan_rows", "all_invalid", "length", "ens_vec"])
        complete = shape in ("vec", "col", "row", "complete", "scalar", "ens_vec")
        if shape == "nan_members":
            for _ in range(rng.randint(1, max(1, n * m // 2))):
                ens[rng.randrange(n), rng.randrange(m)] = np.nan
        if shape == "nan_obs":
            for i in rng.sample(range(n), rng.randint(1, n)):
                obs[i] = np.nan
        if shape == "nan_rows":
            for i in rng.sample(range(n), rng.randint(1, n)):
                ens[i, :] = np.nan
        if shape == "all_invalid":
            for i in range(n):
                if rng.random() < 0.5:
                    obs[i] = np.nan
                else:
                    ens[i, :] = np.nan
        obs_in, ens_in = obs, ens
        if shape == "col":
            obs_in = obs[:, None]
        elif shape == "row":
            obs_in = obs[None, :]
        elif shape == "obs2d":
            r2, c2 = rng.choice([2, n + 1]), rng.choice([2, 3])
            obs_in = np.array([[rng.randint(0, 5) * step for _ in range(c2)] for _ in range(r2)])
        elif shape == "scalar":
            obs_in, ens_in, obs, ens, n = float(obs[0]), ens[:1], obs[:1], ens[:1], 1
        elif shape == "ens_vec":
            # a vector is ONE forecast of len members for np.atleast_2d
            obs_in, ens_in, obs, ens, n = obs[:1], ens[0], obs[:1], ens[:1], 1
        elif shape == "length":
            obs_in = np.append(obs, [1.0] * rng.randint(1, 2)) if rng.random() < 0.5 or n == 1 else obs[:-1]
        seed = rng.randrange(2 ** 31)
        case = {"obs": np.asarray(obs_in, dtype=float).tolist(), "ens": np.asarray(ens_in, dtype=float).tolist(), "random": random_,
                "kind": kind, "cst": cst, "censor": censor, "npseed": seed, "gen": "entry/" + shape}
        case = json.loads(json.dumps(case).replace("NaN", '"nan"'))
        kept = [i for i in range(n) if obs[i] == obs[i] and not np.all(np.isnan(ens[i]))] if shape not in ("obs2d", "length") else []
        np.random.seed(seed)
        try:
            pits, sudo = metrics.pit(obs_in, ens_in, random=random_, cst=cst, kind=kind, censor=censor)
            pits = np.asarray(pits, dtype=float)
            impl = "ok " + C.flist(pits) + " [" + ",".join("true" if b else "false" for b in sudo) + "]"
        except ValueError as e:
            pits = None
            impl = "err " + ens_err(str(e))
            if complete:
                ctx.finding("pit/rejects_complete_forecasts", "pit rejects complete finite forecasts in a documented layout",
                            {**case, "error": str(e)[:100]})
        except Exception as e:  # noqa
            pits = None
            impl = "raised " + type(e).__name__
            if complete:
                ctx.finding("pit/raises", "pit raises on complete finite forecasts in a documented layout", {**case, "error": f"{type(e).__name__}: {str(e)[:100]}"})
        # the jitter is drawn after the filter: one draw per kept forecast
        np.random.seed(seed)
        nk = len(kept)
        dobs = np.random.uniform(-EPS_PIT, EPS_PIT, size=nk) if random_ else np.zeros(nk)
        dens = np.random.uniform(-EPS_PIT, EPS_PIT, size=(nk, m)) if random_ else np.zeros((nk, m))
        lo, od = arr_tok(obs_in)
        le, ed = arr_tok(ens_in)
        add(f"pitentry {1 if random_ else 0} {kind} {C.f2h(cst)} {C.f2h(censor)} {lo} {od} {le} {ed} {C.flist(dobs)} "
            f"{rowstr(dens) if nk else '[]'}", "pitentry", impl, case)
        ctx.count(("entry", seed, shape), pits is not None, f"entry/pit/{shape}/" + impl.split(" ")[0] + ("/random" if random_ else "/" + kind))
        if pits is None or not complete:
            continue
        # oracle (complete data only: inside the quantifier): nothing dropped, range, monotone in the count for every kind,
        # the layout of obs is irrelevant
        if len(pits) != n:
            ctx.finding("pit/drops_complete_forecasts", "pit drops forecasts that hold no NaN", {**case, "returned": len(pits)})
            continue
        if not np.all((pits >= 0) & (pits <= 1)) and cst <= 0.5:
            ctx.finding("pit/out_of_range", "PIT value outside [0, 1]", {**case, "pits": pits.tolist()})
        if not random_:
            lefts = [int(np.sum(ens[i] < obs[i])) for i in range(n)]
            ties = [int(np.sum(ens[i] == obs[i])) for i in range(n)]
            for i in range(n):
                add(f"pitkind {kind} {C.f2h(obs[i])} {C.flist(ens[i])}", "pit", float(pits[i]), {**case, "i": i})
                for k2 in range(n):
                    if ties[i] == ties[k2] and lefts[i] < lefts[k2] and not pits[i] < pits[k2]:
                        ctx.finding("pit/not_increasing", "PIT does not increase strictly with the number of members below the observation",
                                    {**case, "i": i, "k": k2, "counts": [lefts[i], lefts[k2]], "pits": [float(pits[i]), float(pits[k2])]})
            want = [(obs[i] <= censor) and bool(np.any(ens[i] <= censor)) for i in range(n)]
            if [bool(b) for b in sudo] != want:
                ctx.finding("pit/pseudo_flag", "pseudo-PIT flag differs from (obs <= censor and some member <= censor)",
                            {**case, "flags": [bool(b) for b in sudo]})
            if shape in ("col", "row"):
                np.random.seed(seed)
                p2, s2 = metrics.pit(obs, ens, random=random_, cst=cst, kind=kind, censor=censor)
                if not (np.array_equal(np.asarray(p2), pits) and np.array_equal(np.asarray(s2), np.asarray(sudo))):
                    ctx.finding("pit/layout_dependent", "pit gives another answer for obs as [n,1] / [1,n] than for obs as [n]",
                                {**case, "vector_layout": np.asarray(p2).tolist(), "this_layout": pits.tolist()})

    # ---------------- entry point alpha: filter twice, pit's own default constant, test chosen by type, bad type
    for it in range(ctx.scale(150, 1500)):
        n = rng.choice([2, 3, 5, 10])
        m = rng.choice([1, 2, 4])
        ens = np.array([[float(rng.randint(0, 8)) for _ in range(m)] for _ in range(n)])
        obs = np.array([float(rng.randint(-1, 9)) for _ in range(n)])
        typ = rng.choice(["CV", "AD", "KS", "CV", "AD", "XX"])
        shape = rng.choice(["complete", "complete", "nan_members", "nan_obs", "nan_rows", "col"])
        if shape == "nan_members":
            for _ in range(rng.randint(1, max(1, n * m // 3))):
                ens[rng.randrange(n), rng.randrange(m)] = np.nan
        if shape == "nan_obs":
            for i in rng.sample(range(n), rng.randint(1, n - 1)):
                obs[i] = np.nan
        if shape == "nan_rows":
            for i in rng.sample(range(n), rng.randint(1, n - 1)):
                ens[i, :] = np.nan
        obs_in = obs[:, None] if shape == "col" else obs
        cst_arg = rng.choice([0.3, 0.0, 0.5])    # alpha does not hand its cst on to pit
        seed = rng.randrange(2 ** 31)
        case = json.loads(json.dumps({"obs": obs_in.tolist(), "ens": ens.tolist(), "type": typ, "cst": cst_arg, "npseed": seed,
                                      "gen": "entry/alpha/" + shape}).replace("NaN", '"nan"'))
        kept = [i for i in range(n) if obs[i] == obs[i] and not np.all(np.isnan(ens[i]))]
        np.random.seed(seed)
        try:
            stat, pv, sudo = metrics.alpha(obs_in, ens, cst=cst_arg, type=typ)
            impl = ("ok", float(stat), float(pv), [bool(b) for b in sudo], typ)
            if not (0.0 <= pv <= 1.0):
                ctx.finding(f"alpha/{typ}/pvalue_out_of_range", "alpha p-value outside [0, 1]", {**case, "stat": float(stat), "pvalue": float(pv)})
        except ValueError as e:
            msg = str(e)
            impl = ("err", "badType" if "Expected test type" in msg else "adTest" if "ad_test returns" in msg else ens_err(msg))
            if typ != "XX" and kept:
                ctx.finding(f"alpha/{typ}/raises", "alpha raises on forecasts it should accept", {**case, "error": msg[:150]})
        np.random.seed(seed)
        nk = len(kept)
        dobs = np.random.uniform(-EPS_PIT, EPS_PIT, size=nk)
        dens = np.random.uniform(-EPS_PIT, EPS_PIT, size=(nk, m))
        lo, od = arr_tok(obs_in)
        le, ed = arr_tok(ens)
        add(f"alphaentry {typ} {lo} {od} {le} {ed} {C.flist(dobs)} {rowstr(dens) if nk else '[]'}", "alphaentry", impl, case)
        ctx.count(("entry/alpha", seed), impl[0] == "ok", f"entry/alpha/{typ}/{shape}/{impl[0]}")

    # ---------------- entry point dscore: documented layouts of obs ([n], [n,1]) and sim ([n], [n,1], [n,p])
    for it in range(ctx.scale(200, 2000)):
        n = rng.choice([2, 3, 4, 6, 9])
        m = rng.choice([1, 1, 2, 3])
        lay_s = rng.choice(["vec", "col"]) if m == 1 else "mat"
        lay_o = rng.choice(["vec", "col", "row"])
        mismatch = rng.random() < 0.15
        sim = np.array([[float(rng.randint(0, 6)) for _ in range(m)] for _ in range(n)])
        no = n if not mismatch else rng.choice([n - 1, n + 1, n + 2])
        obs = np.array(rng.sample(range(40), no), dtype=float)
        obs_in = obs if lay_o == "vec" else obs[:, None] if lay_o == "col" else obs[None, :]
        sim_in = sim[:, 0] if lay_s == "vec" else sim
        case = {"obs": obs_in.tolist(), "sim": sim_in.tolist(), "eps": 1e-6, "gen": f"entry/dscore/{lay_o}/{lay_s}" + ("/mismatch" if mismatch else "")}
        try:
            D = float(metrics.dscore(obs_in, sim_in))
            impl = ("ok", D)
        except ValueError as e:
            impl = ("err", "lengthMismatch")
            if not mismatch:
                ctx.finding("dscore/documented_layout_raises", "dscore raises on observations given as [n] / [n,1] / [1,n] and forecasts given "
                            "as [n], [n,1] or [n,p] (documented layouts)", {**case, "error": str(e)[:120]})
        except Exception as e:  # noqa
            impl = ("raised", type(e).__name__)
            if not mismatch:
                ctx.finding("dscore/raises", "dscore raises on an input inside the property's quantifier", {**case, "error": f"{type(e).__name__}: {str(e)[:120]}"})
        slay, sdat = ("vec", C.flist(sim_in)) if lay_s == "vec" else (f"mat:{m}", rowstr(sim))
        add(f"dscoreentry {C.f2h(1e-6)} {C.flist(obs)} {slay} {sdat}", "dscoreentry", impl, case)
        ctx.count(("entry/dscore", obs.tobytes(), sim.tobytes(), lay_o, lay_s), impl[0] == "ok", case["gen"].replace("entry/dscore", "entry/dscore/" + impl[0]))
        if impl[0] == "ok" and not mismatch and (lay_o != "vec" or lay_s == "vec"):
            try:
                Dc = float(metrics.dscore(obs, sim))
                if not (Dc == impl[1] or (Dc != Dc and impl[1] != impl[1])):
                    ctx.finding("dscore/layout_dependent", "dscore gives another score for a documented layout than for obs [n], sim [n,p]",
                                {**case, "D": impl[1], "D_canonical": Dc})
            except Exception:  # noqa
                pass

    # ---------------- buffer histories of the kernel as operation lists: accepted calls, calls the kernel rejects (they must
    # leave the buffers as they are), the caller scribbling into / replacing its buffers (other shapes trip the wrapper's
    # assertions); every reply and the final content of both buffers are compared with the model's step function
    for it in range(ctx.scale(150, 1500)):
        n, m = rng.choice([2, 3, 4]), rng.choice([1, 2, 3])
        fbuf, rbuf = np.zeros((n, n)), np.zeros(n)
        toks, impl_rep, allshape = [], [], True
        trail = []
        for step in range(rng.randint(2, 6)):
            act = rng.choice(["call", "call", "call_bad_eps", "call_nocol", "scribble", "reshape"]) if step else "call"
            trail.append(act)
            if act == "scribble":
                fv, rv = float(rng.choice([7, -3, 0.5])), float(rng.choice([-3, 9, 0.25]))
                fbuf, rbuf = np.full((n, n), fv), np.full(n, rv)
                toks += ["scr", str(n), C.f2h(fv), C.f2h(rv)]
                impl_rep.append("done")
                continue
            if act == "reshape":
                k = n + rng.choice([1, 2])        # larger buffers only: nothing can be written out of bounds
                fv, rv = float(rng.choice([7, -3])), float(rng.choice([-3, 9]))
                fbuf, rbuf = np.full((k, k), fv), np.full(k, rv)
                toks += ["scr", str(k), C.f2h(fv), C.f2h(rv)]
                impl_rep.append("done")
                allshape = False
                continue
            eps = 1e-6 if act != "call_bad_eps" else rng.choice([0.0, 1e-21, -1e-6])
            mm = 0 if act == "call_nocol" else m
            sim = np.array([[float(rng.randint(0, 4)) for _ in range(mm)] for _ in range(n)]).reshape(n, mm)
            toks += ["call", C.f2h(eps), str(mm), rowstr(sim)]
            before = (fbuf.copy(), rbuf.copy())
            try:
                ierr = c_hydrodiy_stat.ensrank(eps, sim, fbuf, rbuf)
            except AssertionError:
                ierr = None
            if ierr is None:
                impl_rep.append("assert")
            elif ierr != 0:
                impl_rep.append("code:" + codes.get(ierr, f"code{ierr}"))
            else:
                nn = fbuf.shape[0]
                impl_rep.append("ok:[" + ";".join(",".join(C.f2h(fbuf[i, k]) for k in range(i + 1, nn)) for i in range(nn)) + "]:" + C.flist(rbuf))
            if ierr != 0 and not (np.array_equal(before[0], fbuf) and np.array_equal(before[1], rbuf)):
                # not a clause of the property: reported as a disagreement with the model (rejected calls leave the state)
                ctx.disagree("C10/bufrun: a rejected call changed the caller's buffers", {"history": list(trail), "ierr": ierr})
        impl = "|".join(impl_rep) + " final " + rowstr(fbuf) + " " + C.flist(rbuf) + (" hf=1" if allshape else "")
        add("bufrun " + str(n) + " " + " ".join(toks), "bufrun", impl, {"n": n, "m": m, "history": trail, "gen": "history/ops"})
        for a in trail:
            ctx.hist["history/ops/" + a] = ctx.hist.get("history/ops/" + a, 0) + 1
        ctx.count(("bufrun", tuple(toks)), True, "history/ops/" + ("same_shape" if allshape else "reshaped"))

    # ---------------- excluded points: DISTINCT forecast values closer than the tie tolerance (outside the property's
    # quantifier; `separation_needed` shows the hypothesis cannot be dropped). The real code is run there and only what the
    # theorems state WITHOUT that hypothesis is looked at: the call is accepted, the ranks sum to n(n+1)/2
    # (ensrank_ranks_sum), D is NaN or in [0, 1] (dscore_range). A deviation is reported as model/code disagreement.
    for it in range(ctx.scale(150, 1500)):
        n, m = rng.choice([2, 3, 5, 8]), rng.choice([1, 2, 3, 6])
        eps = rng.choice([1e-6, 1e-6, 1e-4])
        g = rng.choice([1e-9, 5e-9, 2e-8, 1e-7, 5e-7]) if eps == 1e-6 else rng.choice([1e-9, 1e-7, 1e-5, 5e-5])
        K = np.array([[rng.randint(0, 6) for _ in range(m)] for _ in range(n)])
        sim = rng.choice([0.0, 1.0, 100.0]) + K * g
        obs = np.array(rng.sample(range(50), n), dtype=float)
        ierr, fmat, ranks = call_ensrank(eps, sim)
        try:
            D = float(metrics.dscore(obs, sim, eps=eps))
        except Exception as e:  # noqa
            ctx.disagree("C10/excluded: dscore raises on forecasts closer than the tie tolerance", {"sim": sim.tolist(), "eps": eps, "error": str(e)[:100]})
            continue
        ok = ierr == 0 and float(np.sum(ranks)) == n * (n + 1) / 2 and (D != D or 0.0 <= D <= 1.0)
        if not ok:
            ctx.disagree("C10/excluded: on forecasts closer than the tie tolerance the kernel rejects the call, or its ranks do not "
                         "sum to n(n+1)/2, or D is outside [0, 1] (hypothesis-free theorems of the model)",
                         {"sim": sim.tolist(), "eps": eps, "ierr": int(ierr), "ranks": ranks.tolist(), "D": repr(D)})
        ctx.count(("excluded", sim.tobytes(), eps), True, "excluded/near_ties/" + ("F_outside_unit" if np.any((fmat < 0) | (fmat > 1)) else "F_in_unit"))

    # ---------------- correspondence
    replies = lean.ask(reqs)
    alt_hits = {}
    for req, rep, (kind, impl, case) in zip(reqs, replies, checks):
        ok = True
        if kind == "ensrank":
            ok = rep == impl
        elif kind == "fpair":
            ok = C.h2f(rep) == impl
        elif kind == "dscore":
            if rep == "none":
                ok = impl != impl
            else:
                mv = C.h2f(rep.split(" ")[1])
                ok = impl == impl and abs(mv - impl) <= 1e-12
        elif kind == "dscore_alt":
            Dv, gid = impl
            if rep == "none":
                hit = Dv != Dv
            else:
                hit = Dv == Dv and abs(C.h2f(rep.split(" ")[1]) - Dv) <= 1e-12
            alt_hits.setdefault(gid, [False, req, rep, case])
            alt_hits[gid][0] = alt_hits[gid][0] or hit
            continue
        elif kind == "pit":
            ok = C.close(C.h2f(rep), impl, rel=1e-15, ulps=2)
        elif kind == "sudo":
            ok = rep == impl
        elif kind == "cvm":
            ok = C.close(C.h2f(rep), impl, rel=1e-12, abs_=1e-16)
        elif kind == "alpha":
            toks = rep.replace("ok ", "").replace("some ", "").split(" ")
            ok = len(toks) == 2 and toks[0] != "err" and C.close(C.h2f(toks[0]), impl[0], rel=1e-12, abs_=1e-12) \
                and C.close(C.h2f(toks[1]), impl[1], rel=1e-9, abs_=1e-10)
        elif kind == "checkens":
            ok = rep == impl
        elif kind == "pitentry":
            if impl.startswith("ok ") and rep.startswith("ok "):
                _, ip, iflags = impl.split(" ")
                _, mp, mflags = rep.split(" ")
                iv, mv = C.parse_list(ip), C.parse_list(mp)
                ok = iflags == mflags and len(iv) == len(mv) and all(
                    (a == "nan" and b == "nan") or (a != "nan" and b != "nan" and C.close(C.h2f(a), C.h2f(b), rel=1e-15, ulps=2))
                    for a, b in zip(iv, mv))
            else:
                ok = rep == impl
        elif kind == "alphaentry":
            if impl[0] == "ok":
                toks = rep.split(" ")
                ok = len(toks) == 4 and toks[0] == "ok" and toks[3] == "[" + ",".join("true" if b else "false" for b in impl[3]) + "]"
                if ok and impl[4] != "KS":
                    ok = toks[2] != "nan" and C.close(C.h2f(toks[1]), impl[1], rel=1e-12, abs_=1e-12) \
                        and C.close(C.h2f(toks[2]), impl[2], rel=1e-9, abs_=1e-10)
            else:
                ok = rep == "err " + impl[1]
        elif kind == "dscoreentry":
            if impl[0] == "ok":
                if rep == "ok none":
                    ok = impl[1] != impl[1]
                else:
                    ok = rep.startswith("ok some ") and impl[1] == impl[1] and abs(C.h2f(rep.split(" ")[2]) - impl[1]) <= 1e-12
            else:
                ok = rep == "err " + impl[1]
        elif kind == "bufrun":
            ok = rep == impl if impl.endswith("hf=1") else rep.rsplit(" ", 1)[0] == impl
        elif kind == "cvmp":
            ok = rep.startswith("some ") and C.close(C.h2f(rep.split(" ")[1]), impl, rel=1e-12, abs_=1e-15)
        elif kind == "cvmq":
            ok = C.close(float(Fraction(rep)), impl, rel=1e-12, abs_=1e-16)
        elif kind == "ad":
            st, val, pval = impl
            if rep.startswith("err"):
                ok = st == "err"
            else:
                toks = rep.split(" ")
                ok = st == "ok" and C.close(C.h2f(toks[1]), val, rel=1e-12, abs_=1e-12)
                if ok and pval is not None and math.isfinite(val):
                    ok = C.close(C.h2f(toks[2]), pval, rel=1e-9, abs_=1e-10)
        if not ok:
            jc = {k: (v.tolist() if isinstance(v, np.ndarray) else v) for k, v in case.items()} if isinstance(case, dict) else case
            ctx.disagree(f"C10/{kind}: implementation and model differ",
                         {"request": req[:1500], "impl": repr(impl)[:1500], "model": rep[:1500], **jc})
    for gid, (hit, req, rep, case) in alt_hits.items():
        if not hit:
            jc = {k: (v.tolist() if isinstance(v, np.ndarray) else v) for k, v in case.items()}
            ctx.disagree("C10/dscore: implementation differs from the model under the stable and under numpy's tie-break of tied observations",
                         {"request": req[:1500], "model": rep[:200], **jc})
    ctx.extra["rule"] = __doc__.split("Cases:")[1].strip()
    ctx.assumptions += [
        "glibc qsort is a stable merge sort (2.36); the model's sort parameter is instantiated by a stable merge sort",
        "np.argsort is external and not stable: for tied observations its tie-break is an input of the model",
        "np.random.uniform draws of pit(random=True) are re-drawn from the same seed and given to the model as inputs",
        "the KS p-value (scipy kstest) is only range-checked on the real code; the AD p-value and the CvM p-value (generated table) are modelled",
        "floating point: ensrank is compared bit for bit; D, PIT, CvM, AD statistics within 1e-12",
    ]


def main(tier, replay=None):
    return C.run_check(PID, tier, body, needs_native=True, replay=replay,
                       level_partial=["pvalue_range_statement (p-values in [0, 1]): proved for everything hydrodiy computes itself - the "
                                      "Anderson-Darling p-value (ad_pvalue_range) and the Cramer-von Mises p-value for the table shipped in "
                                      "the working tree (cvm_pvalue_range, table regenerated by harness/gen_c10.py and checked by kernel "
                                      "evaluation) = pvalue_range_partial; scipy's kstest p-value (alpha type KS) is observed on the real "
                                      "code only"],
                       regen=gen_c10.regen,
                       trusted=["glibc qsort stability, np.sort, np.argsort, np.corrcoef, scipy percentileofscore / rankdata / kstest (external)",
                                "libm log (AD statistic)",
                                "libm exp/sqrt/log (Marsaglia AD p-value); scipy kstest (alpha type KS) is not modelled",
                                "translator harness/gen_c10.py (archive -> Generated/CvmTable.lean; cross-checked against the table "
                                "metrics.py loads at every run)"])
