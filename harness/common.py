"""Shared machinery of the hydrodiy verification checks.

Every check (`./check Cnn --tier quick|thorough`) goes through `run_check`:
  1. build the Lean property module and its driver, audit axioms, grep forbidden tokens
  2. (optional) regenerate Lean fragments from /repo
  3. rebuild native code from /repo's working tree when the property needs it
  4. corpus replay, correspondence (model driver vs real code), property oracle on the code
  5. evidence file, KNOWN-FINDING lines, exit code

Exit codes: 0 held, 1 violation (a VIOLATION line is printed), 2 infrastructure failure.
"""
import hashlib
import json
import os
import random
import re
import struct
import subprocess
import sys
import time
import traceback
from fractions import Fraction
from pathlib import Path

ROOT = Path(__file__).resolve().parent.parent
REPO = Path(os.environ.get("HYDROVERIF_REPO", "/repo")).resolve()
LEAN = ROOT / "lean"
BUILD = ROOT / "build"
EVIDENCE = ROOT / "evidence"
REPLAYS = ROOT / "replays"
ALLOWED_AXIOMS = {"propext", "Classical.choice", "Quot.sound"}
FORBIDDEN = re.compile(r"\b(sorry|admit|native_decide|bv_decide|implemented_by|unsafe)\b|^\s*axiom\s|maxHeartbeats\s+0\b",
                       re.M)
PYINC = "/root/.pyenv/versions/3.12.1/include/python3.12"


# --------------------------------------------------------------------------------------
# float <-> hex tokens
def f2h(x):
    x = float(x)
    if x != x:
        return "nan"
    return struct.pack(">d", x).hex()


def h2f(s):
    if s == "nan":
        return float("nan")
    return struct.unpack(">d", bytes.fromhex(s))[0]


def flist(xs):
    return "[" + ",".join(f2h(x) for x in xs) + "]"


def ilist(xs):
    return "[" + ",".join(str(int(x)) for x in xs) + "]"


def slist(xs):
    return "[" + ",".join(str(x) for x in xs) + "]"


def fmat(rows):
    return "[" + ";".join(",".join(f2h(x) for x in r) for r in rows) + "]"


def parse_list(tok):
    body = tok.strip()
    if body.startswith("["):
        body = body[1:]
    if body.endswith("]"):
        body = body[:-1]
    return [] if body == "" else body.split(",")


def parse_flist(tok):
    return [h2f(t) for t in parse_list(tok)]


def rat(x):
    fr = Fraction(x)
    return f"{fr.numerator}/{fr.denominator}" if fr.denominator != 1 else str(fr.numerator)


def ulp_diff(a, b):
    """distance in units in the last place between two doubles (inf if signs/NaN differ)"""
    if a != a and b != b:
        return 0
    if a != a or b != b:
        return float("inf")
    if a == b:
        return 0

    def key(x):
        i = struct.unpack(">q", struct.pack(">d", x))[0]
        return i if i >= 0 else -(i & 0x7FFFFFFFFFFFFFFF)
    return abs(key(a) - key(b))


def close(a, b, rel=1e-12, abs_=0.0, ulps=4):
    if a != a and b != b:
        return True
    if a != a or b != b:
        return False
    if a == b:
        return True
    if a in (float("inf"), float("-inf")) or b in (float("inf"), float("-inf")):
        return False
    if ulp_diff(a, b) <= ulps:
        return True
    return abs(a - b) <= max(abs_, rel * max(abs(a), abs(b)))


# --------------------------------------------------------------------------------------
def sh(cmd, cwd=None, timeout=3600, env=None, input_=None):
    p = subprocess.run(cmd, cwd=cwd, timeout=timeout, env=env, input=input_,
                       stdout=subprocess.PIPE, stderr=subprocess.STDOUT, text=True)
    return p.returncode, p.stdout


def strip_lean_comments(text):
    # remove /- ... -/ (nested) and -- ... comments
    out, depth, i, n = [], 0, 0, len(text)
    while i < n:
        if text.startswith("/-", i):
            depth += 1
            i += 2
        elif depth and text.startswith("-/", i):
            depth -= 1
            i += 2
        elif depth:
            i += 1
        elif text.startswith("--", i):
            j = text.find("\n", i)
            i = n if j < 0 else j
        else:
            out.append(text[i])
            i += 1
    return "".join(out)


class LeanSide:
    """proof obligation: build, audit, forbidden tokens; and the model driver"""

    def __init__(self, pid, extra_modules=()):
        self.pid = pid
        self.props_module = f"HydroVerif.Props.{pid}"
        self.props_file = LEAN / "HydroVerif" / "Props" / f"{pid}.lean"
        self.extra = list(extra_modules)
        self.exe = LEAN / ".lake" / "build" / "bin" / f"driver_{pid}"
        self.log = ""
        self.theorems = []
        self.axioms = {}
        self.broken = []      # list of strings naming what no longer checks
        self.build_ok = False
        self.driver_ok = False

    def theorem_names(self):
        """property theorems = every `theorem` declared in Props/<pid>.lean"""
        text = strip_lean_comments(self.props_file.read_text())
        ns = re.search(r"^namespace\s+(\S+)", text, re.M)
        prefix = (ns.group(1) + ".") if ns else ""
        return [prefix + m for m in re.findall(r"^\s*(?:protected\s+|private\s+)?theorem\s+([^\s:({\[]+)", text, re.M)]

    def own_files(self):
        """Props/<pid>.lean, Drivers/<pid>.lean and every HydroVerif file they import, transitively"""
        todo = [self.props_file, LEAN / "Drivers" / f"{self.pid}.lean"]
        seen = []
        while todo:
            f = todo.pop()
            if f in seen or not f.exists():
                continue
            seen.append(f)
            for m in re.findall(r"^import\s+(HydroVerif[\w.]*)", f.read_text(), re.M):
                todo.append(LEAN / (m.replace(".", "/") + ".lean"))
        return seen

    def forbidden_hits(self):
        hits = []
        for f in self.own_files():
            text = strip_lean_comments(f.read_text())
            for m in FORBIDDEN.finditer(text):
                hits.append(f"{f.relative_to(LEAN)}: {m.group(0).strip()}")
        return hits

    def build(self):
        t0 = time.time()
        targets = [self.props_module] + self.extra + [f"driver_{self.pid}"]
        rc, out = sh(["lake", "build"] + targets, cwd=LEAN, timeout=3000)
        self.log += out
        self.build_ok = rc == 0
        self.driver_ok = self.exe.exists()
        if rc != 0:
            # try the driver alone, so that the correspondence can still run when only a proof broke
            rc2, out2 = sh(["lake", "build", f"driver_{self.pid}"], cwd=LEAN, timeout=3000)
            self.driver_ok = rc2 == 0 and self.exe.exists()
            errs = re.findall(r"error: (\S+?\.lean):(\d+):\d+:", out)
            if errs:
                for f, line in errs[:10]:
                    self.broken.append(f"lean build error at {f}:{line} ({self._decl_at(f, int(line))})")
            else:
                self.broken.append("lake build failed: " + out[-400:])
        self.build_s = time.time() - t0
        return self.build_ok

    def _decl_at(self, f, line):
        try:
            lines = (LEAN / f).read_text().splitlines()
            for i in range(min(line, len(lines)) - 1, -1, -1):
                m = re.match(r"\s*(?:theorem|lemma|def|example|instance)\s*([^\s:({\[]*)", lines[i])
                if m:
                    return m.group(0).strip()
        except Exception:
            pass
        return "?"

    def audit(self):
        self.theorems = self.theorem_names()
        if not self.build_ok:
            return False
        adir = BUILD / "audit"
        adir.mkdir(parents=True, exist_ok=True)
        af = adir / f"Audit_{self.pid}.lean"
        af.write_text(f"import {self.props_module}\n" + "".join(f"#print axioms {t}\n" for t in self.theorems))
        rc, out = sh(["lake", "env", "lean", str(af)], cwd=LEAN, timeout=1800)
        self.log += out
        for m in re.finditer(r"^'(\S+)' depends on axioms: \[([^\]]*)\]", out, re.S | re.M):
            self.axioms[m.group(1)] = [a.strip() for a in m.group(2).replace("\n", " ").split(",") if a.strip()]
        for m in re.finditer(r"^'(\S+)' does not depend on any axioms", out, re.M):
            self.axioms[m.group(1)] = []
        ok = rc == 0
        for t in self.theorems:
            if t not in self.axioms:
                self.broken.append(f"theorem {t}: not found by the axiom audit")
                ok = False
            elif not set(self.axioms[t]) <= ALLOWED_AXIOMS:
                self.broken.append(f"theorem {t}: depends on {sorted(set(self.axioms[t]) - ALLOWED_AXIOMS)}")
                ok = False
        hits = self.forbidden_hits()
        if hits:
            self.broken.append("forbidden tokens: " + "; ".join(hits[:5]))
            ok = False
        if not self.theorems:
            self.broken.append("no property theorem found")
            ok = False
        return ok

    @property
    def discharged(self):
        return sum(1 for t in self.theorems if t in self.axioms and set(self.axioms[t]) <= ALLOWED_AXIOMS)

    def leanchecker(self):
        rc, out = sh(["lake", "env", "leanchecker", self.props_module], cwd=LEAN, timeout=3000)
        self.log += out
        if rc != 0:
            self.broken.append("leanchecker rejected " + self.props_module + ": " + out[-300:])
        return rc == 0

    def ask(self, lines, timeout=1800):
        """run the model driver on a batch of request lines -> list of reply lines"""
        if not lines:
            return []
        if not self.driver_ok:
            raise RuntimeError("model driver not built")
        p = subprocess.run([str(self.exe)], input="\n".join(lines) + "\n", stdout=subprocess.PIPE,
                           stderr=subprocess.PIPE, text=True, timeout=timeout)
        out = p.stdout.split("\n")
        if out and out[-1] == "":
            out.pop()
        if p.returncode != 0 or len(out) != len(lines):
            raise RuntimeError(f"driver failure rc={p.returncode} replies={len(out)}/{len(lines)} {p.stderr[-300:]}")
        return out


# --------------------------------------------------------------------------------------
# native rebuild from the working tree
EXT_SOURCES = {
    "c_hydrodiy_data": ["data/c_hydrodiy_data.c", "data/c_dateutils.c", "data/c_qualitycontrol.c",
                        "data/c_dutils.c", "data/c_var2h.c", "data/c_baseflow.c"],
    "c_hydrodiy_stat": ["stat/c_hydrodiy_stat.c", "stat/c_crps.c", "stat/c_dscore.c", "stat/c_olsleverage.c",
                        "stat/c_armodels.c", "stat/ADinf.c", "stat/AnDarl.c", "stat/c_andersondarling.c",
                        "stat/c_paretofront.c"],
    "c_hydrodiy_gis": ["gis/c_hydrodiy_gis.c", "gis/c_grid.c", "gis/c_catchment.c",
                       "gis/c_points_inside_polygon.c"],
}
SOSUFFIX = ".cpython-312-x86_64-linux-gnu.so"


def _numpy_include():
    rc, out = sh(["/venv/bin/python", "-c", "import numpy; print(numpy.get_include())"])
    return out.strip().splitlines()[-1]


def pyx_hashes():
    f = ROOT / "vendor" / "cython_c" / "HASHES.json"
    return json.loads(f.read_text()) if f.exists() else {}


def native_sources(repo=REPO):
    """(module -> list of source paths). The Cython-generated C is taken from the tree when present
    and matching its .pyx, else from the vendored copy (valid only for the recorded .pyx hash)."""
    src = repo / "src" / "hydrodiy"
    res, stale = {}, []
    hashes = pyx_hashes()
    for mod, files in EXT_SOURCES.items():
        paths = []
        for f in files:
            p = src / f
            if f.endswith(f"{mod}.c"):
                pyx = p.with_suffix(".pyx")
                h = hashlib.sha256(pyx.read_bytes()).hexdigest() if pyx.exists() else None
                if hashes.get(mod) != h:
                    stale.append(mod)
                if not p.exists():
                    p = ROOT / "vendor" / "cython_c" / f"{mod}.c"
            paths.append(p)
        res[mod] = paths
    return res, stale


def native_build(repo=REPO, asan=False):
    """compile the three extension modules (+ libhykern.so with all hand-written kernels) from the
    working tree into build/native-<hash>/ ; returns (dir, info)"""
    srcs, stale = native_sources(repo)
    h = hashlib.sha256()
    allfiles = sorted({p for ps in srcs.values() for p in ps} | set((repo / "src" / "hydrodiy").rglob("*.h")))
    for p in allfiles:
        h.update(str(p.name).encode())
        h.update(p.read_bytes())
    tag = ("asan-" if asan else "native-") + h.hexdigest()[:16]
    out = BUILD / tag
    info = {"dir": str(out), "stale_pyx": stale, "cached": True}
    if (out / "OK").exists():
        return out, info
    info["cached"] = False
    out.mkdir(parents=True, exist_ok=True)
    npinc = _numpy_include()
    cc = ["clang", "-fsanitize=address,undefined", "-fno-sanitize-recover=undefined", "-shared-libasan",
          "-fno-omit-frame-pointer", "-g", "-O1"] if asan else ["gcc", "-O1", "-g0"]
    cc += ["-ffp-contract=off", "-fPIC", "-shared", "-fwrapv" if not asan else "-fno-strict-aliasing",
           "-w", f"-I{PYINC}", f"-I{npinc}"]
    procs = []
    for mod, paths in srcs.items():
        incs = sorted({f"-I{p.parent}" for p in paths} | {f"-I{repo / 'src' / 'hydrodiy' / mod.split('_')[-1]}"})
        cmd = cc + incs + [str(p) for p in paths] + ["-o", str(out / (mod + SOSUFFIX)), "-lm"]
        procs.append((mod, subprocess.Popen(cmd, stdout=subprocess.PIPE, stderr=subprocess.STDOUT, text=True)))
    kern = [p for ps in srcs.values() for p in ps if not p.name.startswith("c_hydrodiy_")]
    incs = sorted({f"-I{p.parent}" for p in kern})
    kcc = [c for c in cc if not c.startswith("-I/root") and c != f"-I{npinc}"]
    cmd = kcc + incs + [str(p) for p in kern] + ["-o", str(out / "libhykern.so"), "-lm"]
    procs.append(("libhykern", subprocess.Popen(cmd, stdout=subprocess.PIPE, stderr=subprocess.STDOUT, text=True)))
    errs = []
    for mod, p in procs:
        o, _ = p.communicate(timeout=1200)
        if p.returncode != 0:
            errs.append(f"{mod}: {o[-1500:]}")
    if errs:
        raise RuntimeError("native build failed:\n" + "\n".join(errs))
    (out / "OK").write_text("ok")
    return out, info


def activate_repo(native_dir=None, repo=REPO):
    """make `import hydrodiy` / `import c_hydrodiy_*` resolve to the working tree and the fresh build"""
    for m in list(sys.modules):
        if m.startswith("hydrodiy") or m.startswith("c_hydrodiy"):
            del sys.modules[m]
    paths = [str(repo / "src")]
    if native_dir is not None:
        paths.insert(0, str(native_dir))
    sys.path[:] = paths + [p for p in sys.path if p not in paths]


# --------------------------------------------------------------------------------------
class TranslatorError(Exception):
    """a translator could not read the fragment of the source it regenerates the model from: the tie between
    model and source is lost (reported like a broken proof obligation; the failing-input search still runs)"""


def load_known():
    """known_findings.json (+ known_findings.d/*.json while properties are being built); never written at run time"""
    out = []
    files = [ROOT / "known_findings.json"] + sorted((ROOT / "known_findings.d").glob("*.json"))
    for f in files:
        if f.exists():
            out += json.loads(f.read_text()).get("findings", [])
    return out


class Ctx:
    def __init__(self, pid, tier, seed, lean):
        self.pid, self.tier, self.seed, self.lean = pid, tier, seed, lean
        self.rng = random.Random(seed)
        self.thorough = tier == "thorough"
        self.evaluations = 0
        self.distinct = set()
        self.samples = []
        self.hist = {}
        self.finding_counts = {}
        self.findings = []        # property violated by the real code: dict(signature, what, case)
        self.disagreements = []   # model != code: dict(what, case)
        self.assumptions = []
        self.extra = {}
        self.native = None
        self.t0 = time.time()

    def scale(self, quick, thorough):
        return thorough if self.thorough else quick

    def count(self, key, nontrivial=True, branch=None, sample=None):
        self.evaluations += 1
        if nontrivial:
            self.distinct.add(hashlib.md5(repr(key).encode()).hexdigest())
        if branch is not None:
            self.hist[branch] = self.hist.get(branch, 0) + 1
        if sample is not None and len(self.samples) < 12:
            self.samples.append(sample)

    def finding(self, signature, what, case):
        """the REAL code violates the property on `case`; `signature` = entry/branch/predicate (stable, no data)"""
        n = sum(1 for f in self.findings if f["signature"] == signature)
        self.finding_counts[signature] = self.finding_counts.get(signature, 0) + 1
        if n < 3:
            self.findings.append({"signature": signature, "what": what, "case": jsonable(case)})

    def disagree(self, what, case):
        if len(self.disagreements) < 200:
            self.disagreements.append({"what": what, "case": case})

    def compare(self, tag, case, impl, model):
        """record a correspondence case; impl/model are canonical strings"""
        if impl != model:
            self.disagree(f"{tag}: implementation and model differ", {"request": case, "impl": impl, "model": model})
            return False
        return True


def jsonable(x):
    try:
        json.dumps(x)
        return x
    except Exception:
        return repr(x)


def write_replay(pid, kind, payload):
    REPLAYS.mkdir(exist_ok=True)
    body = json.dumps({"property": pid, "kind": kind, **payload}, indent=1, default=repr, sort_keys=True)
    name = f"{pid}-{kind}-{hashlib.md5(body.encode()).hexdigest()[:10]}.json"
    (REPLAYS / name).write_text(body)
    return REPLAYS / name


def run_check(pid, tier, body, needs_native=False, regen=None, level_partial=None, replay=None,
              trusted=(), extra_modules=()):
    """body(ctx) performs corpus + correspondence + oracle and fills ctx."""
    seed = int(os.environ.get("VERIF_SEED", "20260929"))
    replay_data = None
    if replay:
        # a replay re-runs the recorded (seed, tier): every random choice derives from the one PRNG,
        # so the recorded case is regenerated exactly; modules may also read ctx.replay["case"] directly
        replay_data = json.loads(Path(replay).read_text())
        seed = int(replay_data.get("seed", seed))
        tier = replay_data.get("tier", tier)
    t0 = time.time()
    lean = LeanSide(pid, extra_modules)
    ctx = Ctx(pid, tier, seed, lean)
    infra_error = None
    try:
        translator_broken = None
        if regen is not None:
            try:
                regen(ctx)
            except TranslatorError as e:
                translator_broken = f"translator: {e} (the previously generated Lean fragment is kept)"
        proofs_ok = lean.build() and lean.audit()
        if translator_broken:
            lean.broken.append(translator_broken)
            proofs_ok = False
        if proofs_ok and tier == "thorough" and os.environ.get("VERIF_NO_LEANCHECKER") != "1":
            proofs_ok = lean.leanchecker()
        if needs_native:
            ctx.native, ninfo = native_build(REPO)
            ctx.extra["native_build"] = ninfo
        activate_repo(ctx.native)
        ctx.replay = replay_data
        body(ctx)
    except subprocess.TimeoutExpired as e:
        infra_error = f"timeout: {e}"
    except Exception as e:
        # an exception that comes out of the code under test (innermost frames inside the tree being checked) on a call the
        # harness did not guard is not an infrastructure failure: the harness/model no longer describes the code.  It is
        # reported as a broken correspondence (exit 1, `no-failing-input-found` unless an oracle already found an input);
        # anything else (a bug of the harness itself, a missing tool) stays an infrastructure error (exit 2).
        tb = traceback.extract_tb(e.__traceback__)
        inner = [fr.filename for fr in tb[-6:]]
        from_code = any(str(f).startswith(str(REPO) + os.sep) for f in inner)
        infra_kinds = (MemoryError, OSError, ImportError, subprocess.SubprocessError, TranslatorError)
        if from_code and not isinstance(e, MemoryError):
            ctx.disagree("the code under test raised an exception on a call the harness did not expect to fail (run aborted here)",
                         {"exception": f"{type(e).__name__}: {e}"[:500], "traceback": traceback.format_exc()[-1500:]})
        elif not isinstance(e, infra_kinds):
            # the harness itself tripped (ZeroDivisionError, IndexError, ... while interpreting what the code returned): on the
            # unchanged tree this never happens (every check is run on many seeds), so it means the code under test returned
            # something the harness/model does not describe: a broken correspondence, not a missing tool
            ctx.disagree("the harness could not interpret what the code under test returned (run aborted here)",
                         {"exception": f"{type(e).__name__}: {e}"[:500], "traceback": traceback.format_exc()[-1500:]})
        else:
            infra_error = traceback.format_exc()
    if infra_error is not None:
        print(f"INFRASTRUCTURE-ERROR property={pid}\n{infra_error}", file=sys.stderr)
        return 2

    known = [k for k in load_known() if k.get("property") == pid and k.get("status") == "known"]
    known_sigs = {k["signature"] for k in known}
    new_findings = [f for f in ctx.findings if f["signature"] not in known_sigs]
    if replay_data is not None and replay_data.get("signature"):
        hit = [f for f in ctx.findings if f["signature"] == replay_data["signature"]]
        print(f"REPLAY property={pid} signature={replay_data['signature']} reproduced={'yes' if hit else 'no'}")
        for f in hit[:1]:
            print("  case:", json.dumps(f["case"], default=repr)[:600])
    seen_known = {f["signature"] for f in ctx.findings if f["signature"] in known_sigs}
    corr_ok = not ctx.disagreements
    violations = 0
    exit_code = 0
    for k in known:
        rep = "reproduced" if k["signature"] in seen_known else "not exercised in this run"
        print(f"KNOWN-FINDING: property={pid} {k['signature']}: {k['what']} ({rep})")
    if new_findings:
        sigs = {}
        for f in new_findings:
            sigs.setdefault(f["signature"], f)
        for sig, f in sigs.items():
            path = write_replay(pid, "failing-input", {
                "signature": sig, "what": f["what"], "case": f["case"], "seed": seed, "tier": tier,
                "proofs_ok": proofs_ok, "correspondence_ok": corr_ok, "broken": lean.broken,
                "disagreements": ctx.disagreements[:3],
                "replay_cmd": f"./check {pid} --replay <this file>"})
            print(f"VIOLATION property={pid} replay={path}")
            violations += 1
        exit_code = 1
    elif not proofs_ok or not corr_ok:
        path = write_replay(pid, "unproved", {
            "what": "the property is no longer shown to hold: " +
                    ("a proof obligation does not check; " if not proofs_ok else "") +
                    ("the model/implementation correspondence does not check; " if not corr_ok else "") +
                    "the failing-input search over the property's generators found no input on which the real code violates the property",
            "broken_proof_obligations": lean.broken, "correspondence_disagreements": ctx.disagreements[:10],
            "seed": seed, "tier": tier})
        print(f"VIOLATION property={pid} replay={path} no-failing-input-found")
        violations += 1
        exit_code = 1

    wall = time.time() - t0
    cov = {
        "obligations": max(len(lean.theorems), 1),
        "discharged": lean.discharged,
        "checker_cmd": f"cd lean && lake build {lean.props_module} && lake env lean <generated #print axioms file>"
                       + (" && lake env leanchecker " + lean.props_module if tier == "thorough" else ""),
        "trusted_base": ["Lean 4.33.0 kernel", "Mathlib v4.33.0",
                         "axioms: " + ", ".join(sorted({a for v in lean.axioms.values() for a in v}) or ["none"]),
                         "correspondence harness harness/" + pid.lower() + ".py + harness/common.py",
                         ] + list(trusted),
        "theorems": {t: lean.axioms.get(t) for t in lean.theorems},
        "evaluations": max(ctx.evaluations, 0),
        "distinct_nontrivial": len(ctx.distinct),
        "rule": ctx.extra.pop("rule", "see harness module docstring"),
        "samples": [jsonable(s) for s in ctx.samples] or ["(none)"],
        "traces_validated_against_impl": ctx.evaluations,
        "correspondence_disagreements": len(ctx.disagreements),
        "branch_histogram": ctx.hist,
        "proofs_ok": bool(proofs_ok),
        "correspondence_ok": bool(corr_ok),
        "broken": lean.broken,
        "oracle_findings": ctx.finding_counts,
        "known_findings_reproduced": sorted(seen_known),
        "lean_build_s": round(getattr(lean, "build_s", 0.0), 1),
    }
    if level_partial:
        cov["partial"] = level_partial
    cov.update({k: jsonable(v) for k, v in ctx.extra.items()})
    ev = {
        "property_id": pid, "tier": tier, "seed": seed, "level": "proof", "coverage": cov,
        "assumptions": list(ctx.assumptions), "wall_s": round(wall, 2), "violations": violations,
    }
    # evidence/ describes /repo itself; a run against another tree (HYDROVERIF_REPO: seeded changes, rewrites, fix branches)
    # must not overwrite it
    evdir = EVIDENCE if REPO == Path("/repo") else BUILD / "evidence-other-tree"
    evdir.mkdir(parents=True, exist_ok=True)
    ev["repo"] = str(REPO)
    (evdir / f"{pid}.json").write_text(json.dumps(ev, indent=1, default=repr))
    print(f"{pid} tier={tier} seed={seed} theorems={lean.discharged}/{len(lean.theorems)} "
          f"cases={ctx.evaluations} distinct={len(ctx.distinct)} disagreements={len(ctx.disagreements)} "
          f"findings={len(ctx.findings)} (new {len(new_findings)}) wall={wall:.1f}s exit={exit_code}")
    return exit_code
