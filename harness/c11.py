"""C11 — flow accumulation equals the sum over everything upstream.

Model: lean/HydroVerif/Model/C11.lean (imports the integer grid core of the C07 model);
lemmas: Lemmas/C11.lean, Lemmas/C11Sum.lean; theorems: lean/HydroVerif/Props/C11.lean.
Correspondence (Float instance of the model vs the real code on the freshly built extension):
`hydrodiy.gis.grid.accumulate(flowdir, to_accumulate, max_accumulated_cells=...)` — result data, error kind —
through the Python wrapper; `c_hydrodiy_gis.accumulate` called directly as the wrapper calls it (accumulation = copy
of the field; both float buffers read back), other direct calls only as "returns"; `Catchment.downstream` (the
one-entry `c_downstream` call the walk makes). The flow-direction code table is read from grid.py's
FLOWDIRCODE at run time and sent with every request. Values are compared within the rounding budget of a sum in a
different order (4*n*2^-52*sum|field|), i.e. exactly for integer-valued fields; the summation order is not
part of the property.
Oracle (failing-input search, real code only, independent of the model, exact rationals): on every acyclic
grid run with the default cell limit — terminal cells (sinks, off-grid exits, codes not in the table) hold
the no-data value; every other cell holds the sum of the field over its upstream closure (found by an
upstream graph search), the cell count for the default unit field, and its own value plus the results of its
direct upstream neighbours; the two input grids hold the same values after the call; no exception. Grids with
cycles or a reduced limit: the call returns without error.
Cases: every grid of 1x1, 1x2, 2x1, 2x2 (thorough: also 1x3, 3x1, 2x3 and every other 3x2 grid) over the 8 codes, 0 (sink) and 7 (not a
code; the quick tier samples 3 000 grids of those extra shapes), 3x3 over 4 codes (sampled in the quick tier); then random grids up to 8x8 (thorough 10x10): descending
random-elevation forests (long chains), a snake through every cell (longest possible chain), uniformly random
codes, planted 2-cycles and longer cycles, off-grid exits, invalid and negative codes. Fields: none (unit
default), uniform, small positive integers, random positive floats, with zeros and negatives, containing the
no-data value; no-data -9999, -1, 0, NaN; field grids in narrow dtypes
(int8/uint8/int16/uint16/int32/float32) with values whose upstream sums leave the dtype's range or 2**24; on 40 % of the
grids (every other exhaustive grid) the field grid — the flow-direction grid for the default unit field — declares finite
mindata/maxdata exactly around its values with the no-data value outside them (sums and no-data must not be clipped);
integer and float grids (uint8/int16/int32/int64/float flow directions). Cell limit:
default, n, n-1, longest chain -1/0/+1, 1, 2, random; malformed stream: limit 0/-2/-7, zero rows, zero columns.
Histories (one pair of grid objects, 2-4 calls): between calls the returned array is edited in place, the flow
directions / the field are edited in place or re-assigned with an equal-size array, the field's no-data value is
re-assigned, the limit changes, the grids are cloned / deep-copied / pickled, the field is dropped or added, the
earlier result is fed back as the field; every answer is compared with the model and the oracle on the state the
objects are in at that call. Also: field grids of another shape than the flow-direction grid (error kind `shape`),
the kernel on explicit memory (both float buffers compared after the call), and the model's own vocabulary
(AllTerminate, endsAt, upstream closure, direct upstream cells) against the harness's graph search on every grid up
to 2x2 and every fifth random grid.
Round 7: every history is ALSO replayed by the model's own `run` (Sess / step over List Op) from the initial state and
the operations alone — answers, operations that must raise and change nothing (an array of another shape assigned to
the flow-direction grid or the field, a cell index outside the grid, a limit 0 / -3), the contents of the field, of the
last result and of the flow directions at the end; nprint takes the wrapper's default (100), 1, 2, 3, 7, n, n+1 and a
value that never prints (0 and negative values in a child process, compared with the answers obtained here), the kernel
stream sends the model's kernel WITH its nprint branch; integer-valued cases are also evaluated by the model in exact
integers (its Float instance must agree, and so must the real code where the property fixes the values); the pinned
kernel of the model against its repaired kernel (equal on uniform fields); grids without rows / without columns through
the wrapper (default limit, 1, 4, 0: run, recorded, not compared — outside the property); and, on a
quarter of the random grids, the same flattened codes and field on a grid of ANOTHER shape with as many cells, right after
(and back).
A case is non-trivial when the grid is acyclic, run with the default limit, and has a cell that drains
into another cell.
"""
import ctypes
import json
import os
import re
from fractions import Fraction as F

from . import common as C

PID = "C11"
EPS = 2.0 ** -52
NPRINT = 10 ** 9          # "never prints"; other values: see the docstring (0 and negatives only in a child process)
ALPHABET = None           # filled from FLOWDIRCODE at run time


# ---------------------------------------------------------------------------------------------
# independent graph helpers (oracle side)
class Flow:
    """downstream table of a grid, derived from the layout of FLOWDIRCODE (position (r, c) of the 3x3 table
    = offset (r-1, c-1)); -2 sink, -1 off-grid or not a code"""

    def __init__(self, nrows, ncols, fd, offsets):
        self.nrows, self.ncols, self.n = nrows, ncols, nrows * ncols
        self.down = []
        for c, v in enumerate(fd):
            v = int(v)
            if v == 0:
                self.down.append(-2)
            elif v in offsets:
                r, k = divmod(c, ncols)
                r2, k2 = r + offsets[v][0], k + offsets[v][1]
                self.down.append(r2 * ncols + k2 if 0 <= r2 < nrows and 0 <= k2 < ncols else -1)
            else:
                self.down.append(-1)
        self.up = [[] for _ in range(self.n)]
        for u, d in enumerate(self.down):
            if d >= 0:
                self.up[d].append(u)
        # steps[c] = number of downstream steps to a terminal cell, None on / into a cycle
        self.steps = [None] * self.n
        state = [0] * self.n
        for s in range(self.n):
            path, c = [], s
            while c >= 0 and state[c] == 0:
                state[c] = 1
                path.append(c)
                c = self.down[c]
            if c < 0:
                base = 0
            elif state[c] == 2 and self.steps[c] is not None:
                base = self.steps[c] + 1
            else:
                base = None                       # ran into a cell of the current path, or a cell known to cycle
            for i, p in enumerate(reversed(path)):
                self.steps[p] = None if base is None else base + i
                state[p] = 2
        self.acyclic = all(s is not None for s in self.steps)
        self.longest = max([s for s in self.steps if s is not None] or [0])

    def closure(self, c):
        seen, todo = {c}, [c]
        while todo:
            x = todo.pop()
            for u in self.up[x]:
                if u not in seen:
                    seen.add(u)
                    todo.append(u)
        return seen


def offsets_of(flowdircode):
    off = {}
    for r in range(3):
        for c in range(3):
            if (r, c) != (1, 1):
                off[int(flowdircode[r][c])] = (r - 1, c - 1)
    return off


# ---------------------------------------------------------------------------------------------
# generators
def gen_forest(rng, nrows, ncols, code_at, steep=False, p_term=0.08):
    """acyclic by construction: every cell drains to a neighbour of strictly lower random elevation"""
    n = nrows * ncols
    elev = list(range(n))
    rng.shuffle(elev)
    fd = []
    for c in range(n):
        r, k = divmod(c, ncols)
        lower, exits = [], []
        for (dr, dc), code in code_at.items():
            r2, k2 = r + dr, k + dc
            if 0 <= r2 < nrows and 0 <= k2 < ncols:
                if elev[r2 * ncols + k2] < elev[c]:
                    lower.append((elev[r2 * ncols + k2], code))
            else:
                exits.append(code)
        if not lower or rng.random() < p_term:
            kind = rng.random()
            if kind < 0.45:
                fd.append(0)
            elif kind < 0.8 and exits:
                fd.append(rng.choice(exits))
            else:
                fd.append(rng.choice([7, 3, 255 if rng.random() < 0.3 else 5, 100, -1, -32]))
        else:
            fd.append(min(lower)[1] if steep else rng.choice(lower)[1])
    return fd


def gen_snake(nrows, ncols, code_at, last):
    """one chain through every cell, row by row, alternating direction"""
    fd = []
    for r in range(nrows):
        for k in range(ncols):
            right = r % 2 == 0
            at_end = (k == ncols - 1) if right else (k == 0)
            if at_end:
                fd.append(code_at[(1, 0)] if r < nrows - 1 else last)
            else:
                fd.append(code_at[(0, 1)] if right else code_at[(0, -1)])
    return fd


def plant_cycle(rng, nrows, ncols, fd, code_at):
    fd = list(fd)
    n = nrows * ncols
    if n < 2:
        return fd
    for _ in range(rng.randint(1, 3)):
        c = rng.randrange(n)
        r, k = divmod(c, ncols)
        opts = [(d, code) for d, code in code_at.items() if 0 <= r + d[0] < nrows and 0 <= k + d[1] < ncols]
        if not opts:
            continue
        (dr, dc), code = rng.choice(opts)
        fd[c] = code
        if rng.random() < 0.6:                      # 2-cycle
            fd[(r + dr) * ncols + (k + dc)] = code_at[(-dr, -dc)]
    return fd


def gen_field(rng, n, kind, nodata):
    if kind == "unit":
        return None
    if kind == "uniform":
        v = rng.choice([1.0, 0.1, 2.0, 0.5, 3.0, 1e-3, 250.0])
        return [v] * n
    if kind == "posint":
        return [float(rng.randint(1, 9)) for _ in range(n)]
    if kind == "distinct":
        return [float(2 ** (i % 40)) for i in range(n)] if n <= 40 else [float(rng.randint(1, 10 ** 6)) for _ in range(n)]
    if kind == "posfloat":
        return [rng.choice([rng.uniform(0.01, 10.0), 10.0 ** rng.uniform(-3, 3)]) for _ in range(n)]
    if kind == "signed":
        return [float(rng.choice([0, 0, -1, 1, -3, 5, 2, -7])) if rng.random() < 0.7 else rng.uniform(-5.0, 5.0)
                for _ in range(n)]
    if kind == "withnodata":
        nd = nodata if nodata == nodata else -9999.0
        return [nd if rng.random() < 0.25 else float(rng.randint(0, 6)) for _ in range(n)]
    raise ValueError(kind)


NARROW = {"int8": (-128, 127), "uint8": (0, 255), "int16": (-32768, 32767), "uint16": (0, 65535),
          "int32": (-2 ** 31, 2 ** 31 - 1), "float32": None}


def gen_narrow(rng, n):
    """field stored in a dtype narrower than float64, with values whose upstream sums leave the range of that
    dtype (integers) or its 24-bit significand (float32) as soon as two or three cells are summed -> (field, dtype, nodata)"""
    dt = rng.choice(list(NARROW))
    if dt == "float32":
        pool = [16777216.0, 1.0, 3.0, 16777215.0, 0.5, 33554432.0, 5.0]
        field = [rng.choice(pool) for _ in range(n)]
        return field, dt, rng.choice([-1.0, -9999.0, float("nan")])
    lo, hi = NARROW[dt]
    if rng.random() < 0.4:
        v = float(rng.choice([hi // 2 + 1, hi // 3, hi, 1000 if hi >= 1000 else 100]))
        field = [v] * n
    else:
        field = [float(rng.randint(max(hi // 4, 1), hi)) for _ in range(n)]
    nd = float(rng.choice([-1, lo] if lo < 0 else [0, hi]))
    return field, dt, nd


FIELD_KINDS = ["unit", "uniform", "posint", "distinct", "posfloat", "signed", "withnodata", "narrow"]


def is_uniform(field):
    return field is None or all(v == field[0] for v in field)


# ---------------------------------------------------------------------------------------------
class Runner:
    def __init__(self, ctx):
        import numpy as np
        from hydrodiy.gis import grid as G
        import c_hydrodiy_gis
        self.ctx, self.np, self.G, self.ext = ctx, np, G, c_hydrodiy_gis
        self.codes = [int(v) for v in G.FLOWDIRCODE.ravel()]
        self.codes_tok = C.ilist(self.codes)
        self.offsets = offsets_of(G.FLOWDIRCODE)
        self.code_at = {v: k for k, v in self.offsets.items()}
        self.reqs, self.info = [], []
        self.ncalls, self.last_info = 0, None
        self.guards = self.read_guards()

    # -- which guard of c_accumulate produced an error code: resolved against the CURRENT source text
    def read_guards(self):
        src = (C.REPO / "src" / "hydrodiy" / "gis" / "c_grid.c").read_text().splitlines()
        hdr = "\n".join(p.read_text() for p in (C.REPO / "src" / "hydrodiy" / "gis").glob("*.h"))
        m = re.search(r"#define\s+GRID_ERROR\s+(\d+)", hdr)
        return {"base": int(m.group(1)) if m else None, "src": src}

    def err_kind(self, ierr):
        try:
            return self._err_kind(ierr)
        except Exception:  # noqa  (source reorganised: the kind is informative only, never compared)
            return f"code{ierr}"

    def _err_kind(self, ierr):
        base, src = self.guards["base"], self.guards["src"]
        if base is None:
            return f"code{ierr}"
        line = ierr - base
        ctxt = " ".join(src[max(0, line - 4):line])
        start = max(i for i, l in enumerate(src[:line]) if re.match(r"^long long c_\w+\(", l))
        fn = re.match(r"^long long (c_\w+)\(", src[start]).group(1)
        if fn != "c_accumulate":
            return f"{fn}:{line}"
        cond = ctxt[ctxt.rfind("if("):] if "if(" in ctxt else ctxt
        if "max_accumulated_cells" in cond:
            return "badMaxCells"
        if "nrows" in cond or "ncols" in cond:
            return "badDims"
        if "ierr" in cond:
            return "downstream"
        return f"c_accumulate:{line}"

    def mult(self, nrows, ncols, fd, cap, fl=None):
        """how many times one source can add to one cell: 1 on an acyclic grid, up to the number of iterations on a cycle"""
        n = nrows * ncols
        if n == 0 or (fl or Flow(nrows, ncols, fd, self.offsets)).acyclic:
            return 1
        return (n if cap is None or cap == -1 else max(int(cap), 1)) + 1

    # -- one call through the public wrapper
    def set_bounds(self, grid, vals, nd):
        """declare finite mindata/maxdata exactly around the values the grid holds (so the data are not changed)
        and move the no-data value outside them when the dtype can represent such a value"""
        fin = [v for v in vals if v == v and abs(v) != float("inf")]
        if not fin:
            return
        lo, hi = min(fin), max(fin)
        grid.mindata = lo
        grid.maxdata = hi
        if nd == nd and lo <= nd <= hi:
            for cand in (lo - 1, hi + 1, lo - 9999, hi + 9999):
                try:
                    v = grid.dtype(cand)
                except (OverflowError, ValueError):
                    continue
                if float(v) == cand:
                    grid.nodata = cand
                    return

    def wrapper_case(self, nrows, ncols, fd, field, nodata, cap, fd_dtype="int64", f_dtype="float64",
                     tag="", origin="gen", bounds=False, nprint=NPRINT):
        np, G, ctx = self.np, self.G, self.ctx
        n = nrows * ncols
        fdg = G.Grid("fd", ncols=ncols, nrows=nrows, dtype=getattr(np, fd_dtype), nodata=nodata if field is None else 0)
        fdg.data = np.array(fd, dtype=np.int64).reshape(nrows, ncols)
        fd_seen = [int(v) for v in fdg.data.ravel()]          # after the grid's own dtype conversion
        fd_before = fdg.data.copy()
        fg = None
        if field is not None:
            fg = G.Grid("f", ncols=ncols, nrows=nrows, dtype=getattr(np, f_dtype), nodata=nodata)
            fg.data = np.array(field, dtype=np.float64).reshape(nrows, ncols)
            fvals = [float(v) for v in fg.data.ravel()]
            if bounds:
                self.set_bounds(fg, fvals, float(fg.nodata))
            f_before = fg.data.copy()
            fvals = [float(v) for v in fg.data.ravel()]
            nd = float(fg.nodata)
        else:
            fvals = [1.0] * n
            if bounds:
                # the default unit field is a clone of the flow-direction grid: it inherits these bounds
                self.set_bounds(fdg, [float(v) for v in fd_seen], float(fdg.nodata))
                fd_seen = [int(v) for v in fdg.data.ravel()]
                fd_before = fdg.data.copy()
            nd = float(fdg.nodata)
        return self.call_grids(fdg, fg, cap, tag, origin, {"fd_dtype": fd_dtype, "f_dtype": f_dtype, "bounds": bool(bounds)},
                               nprint=nprint)

    def call_grids(self, fdg, fg, cap, tag="", origin="gen", meta=None, history=None, nprint=NPRINT):
        """one call of grid.accumulate on grid OBJECTS in whatever state they are now: the request to the model, the
        oracle and the unchanged-input check are all evaluated on the state read here, just before the call"""
        np, G, ctx = self.np, self.G, self.ctx
        nrows, ncols = int(fdg.nrows), int(fdg.ncols)
        n = nrows * ncols
        fd_seen = [int(v) for v in np.asarray(fdg.data).ravel()]
        fd_before = fdg.data.copy()
        if fg is not None:
            f_before = fg.data.copy()
            fvals = [float(v) for v in np.asarray(fg.data, dtype=np.float64).ravel()]
            nd = float(fg.nodata)
            fshape = (int(fg.nrows), int(fg.ncols))
        else:
            fvals = [1.0] * n
            nd = float(fdg.nodata)
            fshape = (nrows, ncols)
        meta = dict(meta or {})
        case = {"nrows": nrows, "ncols": ncols, "flowdir": fd_seen, "field": None if fg is None else fvals,
                "nodata": nd if nd == nd else "nan", "cap": cap, "fd_dtype": meta.get("fd_dtype", str(fdg.data.dtype)),
                "f_dtype": meta.get("f_dtype", "float64" if fg is None else str(fg.data.dtype)), "via": "wrapper",
                "bounds": bool(meta.get("bounds", False))}
        if fshape != (nrows, ncols):
            case["field_shape"] = list(fshape)
        if history is not None:
            case["history"] = history
        res = None
        try:
            kw = {} if cap is None else {"max_accumulated_cells": cap}
            if nprint is not None:
                kw["nprint"] = nprint           # None: the default of the wrapper (100)
            res = G.accumulate(fdg, fg, **kw)
            out = [float(v) for v in res.data.ravel()]
            impl = ("ok", out, float(res.nodata), tuple(int(v) for v in res.data.shape),
                    None if fg is None else [float(v) for v in np.asarray(fg.data, dtype=np.float64).ravel()])
            if fshape == (nrows, ncols) and (res.data.shape != (nrows, ncols) or float(res.nodata) != nd and nd == nd):
                ctx.finding("accumulate/result_shape_or_nodata", "result grid has another shape / no-data value than the field", case)
        except ValueError as e:
            m = re.search(r"c_hydrodiy_gis\.accumulate returns (\d+)", str(e))
            impl = ("err", self.err_kind(int(m.group(1))) if m else "other:" + str(e)[:80])
        except AssertionError:
            impl = ("err", "shape")       # the Cython wrapper's asserts on the three shapes
        except Exception as e:  # noqa
            impl = ("err", f"other:{type(e).__name__}:{str(e)[:80]}")
        capm = -1 if cap is None else cap
        head = f"gacc {nrows} {ncols} {self.codes_tok} {C.ilist(fd_seen)} {capm} {C.f2h(float(fdg.nodata))}"
        if fg is None:
            req = head + " none"
        else:
            req = head + f" {fshape[0]} {fshape[1]} {C.f2h(nd)} {C.flist(fvals)}"
        fl = Flow(nrows, ncols, fd_seen, self.offsets)
        if nprint != NPRINT:
            case["nprint"] = nprint
        self.last_info = (case, impl, fvals, nd, self.mult(nrows, ncols, fd_seen, cap, fl))
        if n > 0:
            self.reqs.append(req)
            self.info.append(self.last_info)
        self.ncalls += 1
        if n > 0 and fshape == (nrows, ncols) and len(fvals) == n:
            self.side_requests(case, impl, nrows, ncols, fd_seen, fvals, nd, cap, fl)
        # inputs unchanged (values; the wrapper may change the dtype of the grids it was given)
        if not np.array_equal(fdg.data.astype(np.float64), fd_before.astype(np.float64)):
            ctx.finding("accumulate/input_altered/flowdir", "cell values of the flow-direction grid changed during the call", case)
        if fg is not None and not np.array_equal(fg.data.astype(np.float64), f_before.astype(np.float64), equal_nan=True):
            ctx.finding("accumulate/input_altered/field", "cell values of the accumulated field changed during the call", case)
        if n == 0:
            # a grid without rows or without columns is outside the property ("grids of r x c cells"): the real code is
            # run there (it must return or raise), what it answers is recorded and NOT compared — the property does not
            # say whether such a grid is rejected (the model's answers: Props accumulate_default_rejects_empty,
            # cAccumulate_rejects_rows, cAccumulate_zero_cols)
            ctx.count(("empty", nrows, ncols, cap), False,
                      f"wrapper/{tag}/no_cells/{'default' if cap is None else 'limit' + str(cap)}/{'ok' if impl[0] == 'ok' else 'rejected'}")
        elif fshape == (nrows, ncols) and len(fvals) == n:
            self.oracle(case, nrows, ncols, fd_seen, fvals, fg is None, nd, cap, impl, tag, origin, fl)
        else:
            ctx.count(("shape", nrows, ncols, fshape), False, f"wrapper/{tag}/shape_mismatch")
            if impl[0] == "ok":
                pass        # a field of another shape accepted: not a clause of the property; the correspondence reports it
        return res

    # -- model-only cross-checks on the case stream: the Int instance against the Float instance (exact integers), the
    #    pinned kernel against the repaired one (equal on uniform fields)
    def side_requests(self, case, impl, nrows, ncols, fd, fvals, nd, cap, fl):
        k = self.ncalls
        default_cap = cap is None or cap == -1
        integral = nd == nd and nd == int(nd) and abs(nd) < 2 ** 40 and all(v == v and abs(v) < 2 ** 40 and v == int(v) for v in fvals)
        ea, ep = (59, 83) if self.ctx.thorough else (7, 11)       # the thorough tier has 30 times as many calls
        if k % ea == 0 and integral and (default_cap or cap >= 1):
            inside = fl.acyclic and (default_cap or cap >= fl.longest)
            self.reqs.append(f"acci {nrows} {ncols} {self.codes_tok} {C.ilist(fd)} {-1 if cap is None else cap} {int(nd)} "
                             f"{C.ilist(int(v) for v in fvals)}")
            self.info.append((case, ("acci", impl, inside), [], 0.0, 1))
        if k % ea == 3 and not integral and (default_cap or cap >= 1):
            # IEEE addition as a rounding of the exact sum: the Float instance against `Rounded Rat (rndBits 53)`
            self.reqs.append(f"accr {nrows} {ncols} {self.codes_tok} {C.ilist(fd)} {-1 if cap is None else cap} {C.f2h(nd)} {C.flist(fvals)}")
            self.info.append((case, ("accr",), [], 0.0, 1))
        if k % ep == 0 and (default_cap or cap >= 1) and all(v == v for v in fvals):
            self.reqs.append(f"pin {nrows} {ncols} {self.codes_tok} {C.ilist(fd)} {-1 if cap is None else cap} {C.f2h(nd)} {C.flist(fvals)}")
            self.info.append((case, ("pin", is_uniform(fvals)), [], 0.0, 1))

    # -- the extension entry point on explicit buffers (accumulation buffer independent of the field, or the SAME array)
    def kernel_case(self, nrows, ncols, fd, fvals, nodata, cap, acc0, tag="", alias=False, nprint=NPRINT):
        np, ctx = self.np, self.ctx
        fda = np.array(fd, dtype=np.int64).reshape(nrows, ncols)
        fa = np.array(fvals, dtype=np.float64).reshape(nrows, ncols)
        acc = fa if alias else np.array(acc0, dtype=np.float64).reshape(nrows, ncols)
        fd_b, f_b = fda.copy(), fa.copy()
        case = {"nrows": nrows, "ncols": ncols, "flowdir": [int(v) for v in fd], "field": [float(v) for v in fvals],
                "nodata": nodata if nodata == nodata else "nan", "cap": cap, "acc0": [float(v) for v in acc0], "via": "kernel",
                "alias": bool(alias)}
        if nprint != NPRINT:
            case["nprint"] = nprint
        ierr = int(self.ext.accumulate(nprint, cap, nodata, self.G.FLOWDIRCODE, fda, fa, acc))
        impl = ("okS", [float(v) for v in fa.ravel()], [float(v) for v in acc.ravel()]) if ierr == 0 else ("err", self.err_kind(ierr))
        if cap < 1 or nrows < 1 or ncols < 1:
            # a direct kernel call with a limit < 1 or a grid without rows / columns (a Grid always has both; a bad limit
            # is compared through the wrapper, as rejected-vs-accepted): it must return (no crash), nothing is compared
            ctx.count(("k0", nrows, ncols, cap), False, f"kernel/{tag}/not_compared")
            return
        self.reqs.append(f"caccs {nrows} {ncols} {self.codes_tok} {C.ilist(fd)} {cap} {C.f2h(nodata)} "
                         f"{C.flist(fvals)} {C.flist([] if alias else acc0)} {1 if alias else 0}")
        self.info.append((case, impl, list(fvals) + list(acc0), nodata, self.mult(nrows, ncols, fd, cap)))
        if nprint != NPRINT and not alias:
            # the model's kernel WITH its nprint branch: same result as without, for this nprint
            self.reqs.append(f"caccp {nrows} {ncols} {self.codes_tok} {C.ilist(fd)} {nprint} {cap} {C.f2h(nodata)} "
                             f"{C.flist(fvals)} {C.flist(acc0)}")
            self.info.append((case, ("caccp", ierr == 0), [], 0.0, 1))
        if not np.array_equal(fda, fd_b):
            ctx.finding("accumulate/input_altered/flowdir", "the kernel wrote into the flow-direction buffer", case)
        if not alias and not np.array_equal(fa, f_b, equal_nan=True):
            ctx.finding("accumulate/input_altered/field", "the kernel wrote into the to_accumulate buffer", case)
        ctx.count(("k", nrows, ncols, tuple(fd), tuple(fvals), tuple(acc0), cap, C.f2h(nodata), alias), ierr == 0 and nrows * ncols > 0,
                  f"kernel/{tag}/{'aliased/' if alias else ''}{'ok' if ierr == 0 else impl[1]}")

    # -- the model's specification vocabulary against the harness's own graph search
    def spec_case(self, nrows, ncols, fd):
        ctx = self.ctx
        n = nrows * ncols
        fl = Flow(nrows, ncols, fd, self.offsets)
        case = {"nrows": nrows, "ncols": ncols, "flowdir": list(fd), "via": "spec"}
        ups = "[" + ";".join(",".join(str(u) for u in sorted(fl.up[c])) for c in range(n)) + "]"
        clo = "[" + ";".join(",".join(str(u) for u in sorted(fl.closure(c))) for c in range(n)) + "]" if fl.acyclic else None
        self.reqs.append(f"clo {nrows} {ncols} {self.codes_tok} {C.ilist(fd)} {n + 1}")
        self.info.append((case, ("clo", clo, ups), [], 0.0, 1))
        ends = []
        for c in range(n):
            t = c
            while fl.steps[t] is not None and fl.down[t] >= 0:
                t = fl.down[t]
            ends.append(t if fl.steps[c] is not None else -9)
        self.reqs.append(f"spec {nrows} {ncols} {self.codes_tok} {C.ilist(fd)} {n + 1}")
        self.info.append((case, ("raw2", f"{1 if fl.acyclic else 0} {C.ilist(ends)}"), [], 0.0, 1))
        ctx.count(("s", nrows, ncols, tuple(fd)), fl.acyclic and any(d >= 0 for d in fl.down), "spec/" + ("acyclic" if fl.acyclic else "cyclic"))

    def oracle(self, case, nrows, ncols, fd, fvals, unit, nd, cap, impl, tag, origin, fl):
        ctx = self.ctx
        n = nrows * ncols
        default_cap = cap is None or cap == -1
        inside = fl.acyclic and default_cap
        nontrivial = inside and any(d >= 0 for d in fl.down)
        uni = is_uniform(None if unit else fvals)
        fk = "unit" if unit else ("uniform_field" if uni else "nonuniform_field")
        capk = "default" if default_cap else ("cap<1" if cap < 1 else "cap>=n" if cap >= n else "cap<n")
        ctx.count(("w", nrows, ncols, tuple(fd), None if unit else tuple(fvals), C.f2h(nd), cap, case["fd_dtype"], case["f_dtype"], case.get("bounds")),
                  nontrivial, f"wrapper/{tag}/{fk}/{capk}/{'acyclic' if fl.acyclic else 'cyclic'}"
                  + ("/bounded" if case.get("bounds") else "") + ("/narrow" if case["f_dtype"] in NARROW else ""),
                  sample={"case": case, "reply": impl[1] if impl[0] == "err" else impl[1][:12]} if origin == "gen" and nontrivial and n >= 4 else None)
        valid_cap = default_cap or cap >= 1
        if impl[0] == "err":
            if valid_cap:
                ctx.finding("accumulate/raises/" + ("acyclic_default" if inside else "cyclic_or_capped"),
                            "accumulate raised on a valid call (it is required to terminate without error)", {**case, "error": impl[1]})
            return
        if not valid_cap:
            return      # a limit < 1 accepted: error handling is not part of the property; the correspondence reports it
        out = impl[1]
        if len(out) != n:
            ctx.finding("accumulate/result_shape_or_nodata", "result has the wrong number of cells", case)
            return
        if not inside:
            return
        finite = [v == v and abs(v) != float("inf") for v in fvals]
        exact = all(finite) and all(v == int(v) and abs(v) < 2 ** 40 for v in fvals)
        # integer-valued fields: python integers (exact, and the sums must be met exactly); else exact rationals
        fx = [int(v) for v in fvals] if exact else [F(v) if ok else None for v, ok in zip(fvals, finite)]

        def num(v):
            return int(v) if exact and abs(v) < 2 ** 62 and v == int(v) else F(v)
        want = {}
        for c in range(n):
            if fl.down[c] < 0:
                if not (out[c] == nd or (out[c] != out[c] and nd != nd)):
                    ctx.finding("accumulate/terminal_not_nodata", "a cell that drains nowhere does not hold the no-data value",
                                {**case, "cell": c, "got": out[c]})
                continue
            clo = fl.closure(c)
            if not all(finite[u] for u in clo):
                continue            # a NaN / infinite contribution: the sum is not a number, only the model speaks
            s = sum(fx[u] for u in clo)
            want[c] = s
            tol = 0 if exact else F(4 * len(clo) * EPS) * sum(abs(fx[u]) for u in clo)
            if out[c] != out[c] or abs(out[c]) == float("inf") or abs(num(out[c]) - s) > tol:
                sig = "accumulate/unit_count" if unit else f"accumulate/upstream_sum/{fk}"
                ctx.finding(sig, "a draining cell does not hold the sum of the field over the cells draining through it"
                            + (" (the number of such cells for the unit field)" if unit else ""),
                            {**case, "cell": c, "got": out[c], "expected": float(s), "upstream_closure": sorted(clo)})
        # local recurrence, on the code's own output
        for c in want:
            ups = fl.up[c]
            if any(out[u] != out[u] or abs(out[u]) == float("inf") for u in ups + [c]):
                continue
            rhs = fx[c] + sum(num(out[u]) for u in ups)
            tol = 0 if exact else F(8 * (len(ups) + 1) * EPS) * (abs(fx[c]) + sum(abs(F(out[u])) for u in ups) + abs(want[c])) \
                + F(8 * n * EPS) * sum(abs(v) for v in fx if v is not None)
            if abs(num(out[c]) - rhs) > tol:
                ctx.finding(f"accumulate/local_recurrence/{fk}",
                            "a draining cell does not hold its own value plus the results of its direct upstream neighbours",
                            {**case, "cell": c, "got": out[c], "expected": float(rhs), "upstream": ups})

    # -- Catchment.downstream vs the model's one-entry c_downstream
    def downstream_case(self, nrows, ncols, fd):
        np, G, ctx = self.np, self.G, self.ctx
        n = nrows * ncols
        fdg = G.Grid("fd", ncols=ncols, nrows=nrows, dtype=np.int64, nodata=-1)
        fdg.data = np.array(fd, dtype=np.int64).reshape(nrows, ncols)
        ca = G.Catchment("c11", fdg)
        got = [int(v) for v in ca.downstream(list(range(n)))]
        case = {"nrows": nrows, "ncols": ncols, "flowdir": list(fd), "via": "downstream"}
        self.reqs.append(f"down {nrows} {ncols} {self.codes_tok} {C.ilist(fd)} {C.ilist(range(n))}")
        # only "which cell, or none" matters to accumulation: -2 (sink) and -1 (exit / unknown code) are one token
        self.info.append((case, ("raw", C.slist("T" if d < 0 else d for d in got)), [], 0.0, 1))
        ctx.count(("d", nrows, ncols, tuple(fd)), any(d >= 0 for d in got), "downstream")

    # -- correspondence
    def flush(self):
        ctx = self.ctx
        for start in range(0, len(self.reqs), 40000):
            chunk = self.reqs[start:start + 40000]
            replies = ctx.lean.ask(chunk)
            for req, (case, impl, mags, nd, mult), rep in zip(chunk, self.info[start:start + 40000], replies):
                if impl[0] == "raw":
                    rep = C.slist("T" if t.startswith("-") else t for t in C.parse_list(rep))
                    if impl[1] != rep:
                        ctx.disagree("C11: downstream differs from the model", {"request": req[:400], **case, "impl": impl[1], "model": rep})
                    continue
                if impl[0] == "raw2":
                    if impl[1] != rep:
                        ctx.disagree("C11: the model's AllTerminate / endsAt differ from the harness's acyclicity / terminal-cell search",
                                     {"request": req[:400], **case, "oracle": impl[1], "model": rep})
                    continue
                if impl[0] == "clo":
                    mclo, mups = rep.split(" ")
                    if (impl[1] is not None and impl[1] != mclo) or impl[2] != mups:
                        ctx.disagree("C11: the model's upstream closure / direct upstream cells differ from the harness's graph search",
                                     {"request": req[:400], **case, "oracle": [impl[1], impl[2]], "model": [mclo, mups]})
                    continue
                if impl[0] == "acci":
                    self.cmp_acci(req, case, impl[1], impl[2], rep)
                    continue
                if impl[0] == "accr":
                    if rep not in ("R1", "skip"):
                        ctx.disagree("C11: the Float instance of the model differs from the same kernel on exact rationals rounded to 53 "
                                     "bits after every addition (IEEE addition is not the rounding the theorems assume?)",
                                     {"request": req[:400], **case, "model": rep[:40]})
                    ctx.count(("accr", req), False, "model/binary64_as_rounding/" + rep[:4])
                    continue
                if impl[0] == "pin":
                    if rep not in ("eq", "ne") or (impl[1] and rep != "eq"):
                        ctx.disagree("C11: the model's pinned kernel differs from its repaired kernel on a uniform field "
                                     "(Props: cAccumulatePinned_eq_of_uniform)", {"request": req[:400], **case, "model": rep[:40]})
                    ctx.count(("pin", req), False, "model/pinned_vs_repaired/" + ("uniform/" if impl[1] else "nonuniform/") + rep[:2])
                    continue
                if impl[0] == "caccp":
                    good = (rep.startswith("ok:") and rep.endswith(" 1")) if impl[1] else rep.startswith("err:")
                    if not good:
                        ctx.disagree("C11: the model's kernel with its nprint branch differs from the one without "
                                     "(Props: cAccumulateP_result), or is rejected where the code answers",
                                     {"request": req[:400], **case, "model": rep[:80]})
                    continue
                if impl[0] == "hist":
                    self.cmp_hist(req, case, impl, rep)
                    continue
                self.cmp_call(req, case, impl, mags, nd, mult, rep)
        self.reqs, self.info = [], []

    def cmp_acci(self, req, case, impl, inside, rep):
        """the model at exact integers: its Float instance must give the same integers (Props: accumulate_rounded_exact,
        with IEEE addition as the rounding), and so must the real code wherever the property fixes the values"""
        ctx = self.ctx
        if rep.startswith("err:") or impl[0] == "err":
            if rep.startswith("err:") != (impl[0] == "err"):
                ctx.disagree("C11: a call is rejected by one of implementation / integer model and accepted by the other",
                             {"request": req[:400], **case, "model": rep[:40]})
            return
        vals, flag = rep[3:].split(" ")
        if flag != "F1":
            ctx.disagree("C11: the Float instance of the model differs from its Int instance on an integer-valued field",
                         {"request": req[:400], **case, "model": rep[:200]})
        ints = [int(t) for t in C.parse_list(vals)]
        ctx.count(("acci", req), inside, "model/int_instance/" + ("inside" if inside else "not_compared"))
        if inside and (len(ints) != len(impl[1]) or any(float(a) != b for a, b in zip(ints, impl[1]))):
            ctx.disagree("C11: accumulate on an integer-valued field differs from the model evaluated in exact integers",
                         {"request": req[:400], **case, "impl": impl[1][:64], "model": ints[:64]})

    def cmp_hist(self, req, case, impl, rep):
        """a whole history replayed by the model's `run` from the initial state and the operations alone: every answer,
        every rejected operation, and the contents of the objects at the end"""
        ctx = self.ctx
        _, expect, final = impl
        parts = rep.split("|")
        if len(parts) != len(expect) + 1 or not parts[-1].startswith("final:"):
            ctx.disagree("C11: history reply of the model is malformed", {"request": req[:600], **case, "model": rep[:200]})
            return
        for i, (e, r) in enumerate(zip(expect, parts)):
            if isinstance(e, str):
                if e != r:
                    ctx.disagree("C11: an operation of a history is rejected by one of implementation / model and accepted by the other",
                                 {"request": req[:600], **case, "step": i, "impl": e, "model": r[:60]})
                    return
                continue
            ccase, cimpl, mags, nd, mult = e
            self.cmp_call(req, {**ccase, "step": i}, cimpl, mags, nd, mult, r)
        mf, mr, mfd = parts[-1][len("final:"):].split(";")

        def same_grid(tok, g):
            if tok == "none" or g is None:
                return (tok == "none") == (g is None)
            nr, nc, ndt, data = tok.split(":")
            mnd, vals = C.h2f(ndt), C.parse_flist(data)
            return (int(nr), int(nc)) == g[0] and ((mnd != mnd and g[1] != g[1]) or mnd == g[1]) and len(vals) == len(g[2]) \
                and all((a != a and b != b) or a == b for a, b in zip(vals, g[2]))
        # the values of the last result are compared (within the budget, where the property fixes them) at the call that
        # returned it: here only its shape and no-data value
        res_ok = final["res"] is None or (mr != "none" and same_grid(":".join(mr.split(":")[:3]) + ":" + C.flist(final["res"][2]), final["res"]))
        ok = same_grid(mf, final["field"]) and res_ok and [int(t) for t in C.parse_list(mfd)] == final["fd"]
        if not ok:
            ctx.disagree("C11: the objects at the end of a history differ from the model's (field / last result / flow directions)",
                         {"request": req[:600], **case, "impl": {k: (v if k == "fd" or v is None else [list(v[0]), v[1], v[2][:32]]) for k, v in final.items()},
                          "model": parts[-1][:400]})

    def cmp_call(self, req, case, impl, mags, nd, mult, rep):
        ctx = self.ctx
        if rep.startswith("err:") or impl[0] == "err":
            # rejected vs accepted only: neither the wording, nor the error class, nor the layer that
            # rejects (wrapper or kernel) is fixed by the property
            a = "rejected" if impl[0] == "err" else "ok"
            b = "rejected" if rep.startswith("err:") else "ok"
            if a != b:
                ctx.disagree("C11: a call is rejected by one of implementation / model and accepted by the other",
                             {"request": req[:400], **case, "impl": a + (":" + str(impl[1]) if a != "ok" else ""), "model": rep[:40]})
            return
        toks = rep[3:].split(" ")
        # T1: every walk ends before the limit (acyclic grid, limit that truncates nothing) — the region where
        # the property fixes the values. Elsewhere (cycles, truncating limit) only "returns without error" is
        # required, and only that is compared.
        region = toks[-1] == "T1"
        toks = toks[:-1]
        if not region:
            n_out = len(impl[2]) if impl[0] == "okS" else len(impl[1])
            if n_out != len(C.parse_list(toks[1] if impl[0] == "okS" else toks[0])):
                ctx.disagree("C11: number of cells of the result differs from the model", {"request": req[:400], **case})
            return
        if impl[0] == "okS":
            # kernel on explicit memory: both float buffers after the call
            mfield, vals, sens = toks
            if not all((a != a and b != b) or a == b for a, b in zip(impl[1], C.parse_flist(mfield))) and not case.get("alias"):
                ctx.disagree("C11: to_accumulate memory after the call differs from the model", {"request": req[:400], **case})
            impl = ("ok", impl[2])
        else:
            vals, sens = toks[0], toks[1]
            if len(toks) >= 6 and len(impl) >= 5:
                # wrapper on grid objects: no-data value and shape of the result, field memory after the call
                mnd, mshape = C.h2f(toks[2]), (int(toks[3]), int(toks[4]))
                if not ((mnd != mnd and impl[2] != impl[2]) or mnd == impl[2]) or mshape != tuple(impl[3]):
                    ctx.disagree("C11: no-data value / shape of the result grid differ from the model",
                                 {"request": req[:400], **case, "impl": [impl[2], list(impl[3])], "model": [mnd, list(mshape)]})
                if impl[4] is not None:
                    mf = C.parse_flist(toks[5])
                    if len(mf) != len(impl[4]) or not all((a != a and b != b) or a == b for a, b in zip(impl[4], mf)):
                        ctx.disagree("C11: field grid values after the call differ from the model (which leaves them untouched)",
                                     {"request": req[:400], **case})
        model = C.parse_flist(vals)
        # cells the model marks as depending on the visiting order of the outer loop (terminal cells
        # incremented by a capped walk) are not constrained by the property: not compared
        sens = {int(t) for t in C.parse_list(sens)}
        out = impl[1]
        scale = sum(abs(v) for v in mags if v == v and abs(v) != float("inf")) + (abs(nd) if nd == nd else 0.0)
        # another order of summation is allowed: rounding budget for float fields (Props: accumulate_rounded_error bounds
        # each order by ((1+u)^k - 1) * sum|f| <= 2 k u sum|f|, u = 2^-53); integer-valued fields (the unit field among
        # them) whose sums stay below 2**52 are exact in any order (Props: accumulate_rounded_exact) -> exact comparison
        integral = all(v == v and abs(v) != float("inf") and v == int(v) for v in mags) and scale < 2.0 ** 52
        tol = 0.0 if integral else 4 * max(len(out), 1) * mult * EPS * scale
        bad = len(model) != len(out)
        if not bad:
            for i, (a, b) in enumerate(zip(out, model)):
                if i in sens:
                    continue
                if not ((a != a and b != b) or a == b or abs(a - b) <= tol):
                    bad = True
                    case = {**case, "cell": i}
                    break
        if bad:
            ctx.disagree("C11: accumulate differs from the model", {"request": req[:400], **case, "impl": out[:64], "model": model[:64]})


def history_case(R, rng, code_at, alphabet, nmax):
    """a short history on ONE pair of grid objects: call, then 1-3 times (change the state, call again). Every answer
    is compared (a) with the model and the oracle evaluated on the state the objects are in at that call, and (b) with
    the model's own `run` of the whole history from the initial state and the operations alone (values written are sent
    as the object holds them afterwards: numpy's cast is external) — answers, rejected operations (they must raise and
    change nothing) and the contents of the objects at the end"""
    import copy
    import pickle
    np, G = R.np, R.G
    nrows, ncols = rng.randint(1, nmax), rng.randint(1, nmax)
    if rng.random() < 0.3:
        nrows, ncols = rng.choice([(1, 3), (2, 2), (2, 3), (1, 4), (3, 3)])
    n = nrows * ncols

    def new_fd():
        r = rng.random()
        if r < 0.5:
            return gen_forest(rng, nrows, ncols, code_at)
        if r < 0.7:
            return gen_snake(nrows, ncols, code_at, rng.choice([0, 7, code_at[(1, 0)]]))
        if r < 0.85:
            return [rng.choice(alphabet) for _ in range(n)]
        return plant_cycle(rng, nrows, ncols, gen_forest(rng, nrows, ncols, code_at), code_at)

    def new_field():
        return gen_field(rng, n, rng.choice(["uniform", "posint", "distinct", "posfloat", "signed"]), -9999.0)

    def fvals_of(g):
        return [float(v) for v in np.asarray(g.data, dtype=np.float64).ravel()]

    def gtok(g):
        return f"{int(g.nrows)}:{int(g.ncols)}:{C.f2h(float(g.nodata))}:{C.flist(fvals_of(g))}"

    def fdvals():
        return [int(v) for v in np.asarray(fdg.data).ravel()]

    fd_dtype = rng.choice(["int64", "int64", "uint8", "int32", "float64"])
    fd0 = new_fd()
    if fd_dtype == "uint8" and not all(0 <= v <= 255 for v in fd0):
        fd_dtype = "int64"
    fdg = G.Grid("fd", ncols=ncols, nrows=nrows, dtype=getattr(np, fd_dtype), nodata=0 if fd_dtype == "uint8" else -1)
    fdg.data = np.array(fd0, dtype=np.int64).reshape(nrows, ncols)
    fg = None
    if rng.random() < 0.75:
        f_dtype = rng.choice(["float64", "float64", "int32", "float32"])
        fg = G.Grid("f", ncols=ncols, nrows=nrows, dtype=getattr(np, f_dtype), nodata=rng.choice([-9999, -1, 0]))
        fg.data = np.array(new_field(), dtype=np.float64).reshape(nrows, ncols)
    head = f"hist {nrows} {ncols} {R.codes_tok} {C.ilist(fdvals())} {C.f2h(float(fdg.nodata))} -1 {'none' if fg is None else gtok(fg)}"
    case0 = {"nrows": nrows, "ncols": ncols, "flowdir": fdvals(), "field": None if fg is None else fvals_of(fg), "via": "history"}
    ops, expect = [], []          # operation tokens for the model, what the real objects answered

    def do_call():
        nonlocal res
        res = R.call_grids(fdg, fg, cap, tag="history", history=list(hist),
                           nprint=rng.choice([NPRINT, NPRINT, None, 1, 3]))
        ops.append("call")
        expect.append(R.last_info)

    def attempt(tok, fn):
        """an operation that must raise and change nothing"""
        try:
            fn()
            expect.append("done")
        except (ValueError, IndexError):
            expect.append("rej")
        ops.append(tok)

    hist = ["call"]
    cap = None
    res = None
    do_call()
    for _ in range(rng.randint(1, 3)):
        acts = ["edit_flowdir", "assign_flowdir", "other_cap", "clone", "pickle", "toggle_field", "same_again", "bad_flowdir"]
        if res is not None:
            acts += ["edit_result", "edit_result", "feed_back"]
        if fg is not None:
            acts += ["edit_field", "edit_field", "assign_field", "field_nodata", "flat_setitem", "bad_field"]
        else:
            acts += ["flowdir_nodata"]
        act = rng.choice(acts)
        if act == "edit_result":
            # the caller scribbles on the returned array: a later answer must not depend on it
            if rng.random() < 0.6:
                res.data[...] = rng.choice([0.0, 123.0, -7.0])
                ops.append(f"rfill:{C.f2h(float(res.data.flat[0]))}"); expect.append("done")
            else:
                k = rng.randrange(n)
                res.data.flat[k] = rng.choice([0.0, 55.0, -2.5])
                ops.append(f"rset:{k}:{C.f2h(float(res.data.flat[k]))}"); expect.append("done")
            if rng.random() < 0.5:
                res.nodata = 77.0
                ops.append(f"rnd:{C.f2h(float(res.nodata))}"); expect.append("done")
        elif act == "edit_flowdir":
            # in place, same size: one or all cells get another direction
            new = new_fd()
            if rng.random() < 0.5:
                k = rng.randrange(n)
                fdg.data.flat[k] = new[k] if fdg.data.dtype != np.uint8 or 0 <= new[k] <= 255 else 0
                ops.append(f"fdset:{k}:{int(fdg.data.flat[k])}"); expect.append("done")
            else:
                fdg.data[...] = np.array([v if fdg.data.dtype != np.uint8 or 0 <= v <= 255 else 0 for v in new]).reshape(nrows, ncols)
                ops.append(f"fdassign:{nrows}:{ncols}:{C.ilist(fdvals())}"); expect.append("done")
        elif act == "assign_flowdir":
            fdg.data = np.array([v if 0 <= v <= 255 else 0 for v in new_fd()], dtype=np.int64).reshape(nrows, ncols)
            ops.append(f"fdassign:{nrows}:{ncols}:{C.ilist(fdvals())}"); expect.append("done")
        elif act == "bad_flowdir":
            # a wrong-shape assignment / a cell index outside the grid must raise and leave the grid as it was
            if rng.random() < 0.5:
                r2, c2 = rng.choice([(ncols, nrows + 1), (nrows + 1, ncols), (1, n + 1), (nrows, ncols + 1)])
                attempt(f"fdassign:{r2}:{c2}:{C.ilist([0] * (r2 * c2))}",
                        lambda: setattr(fdg, "data", np.zeros((r2, c2), dtype=np.int64)))
            else:
                k = n + rng.randint(0, 3)
                attempt(f"fdset:{k}:1", lambda: fdg.data.flat.__setitem__(k, 1))
        elif act == "flowdir_nodata":
            fdg.nodata = rng.choice([0, 255, 7, 100])
            ops.append(f"fdnd:{C.f2h(float(fdg.nodata))}"); expect.append("done")
        elif act == "edit_field":
            if rng.random() < 0.5:
                k = rng.randrange(n)
                fg.data.flat[k] = float(rng.randint(0, 50))
                ops.append(f"fset:{k}:{C.f2h(float(fg.data.flat[k]))}"); expect.append("done")
            else:
                fg.data[...] = fg.data * 2 + 1
                ops.append(f"fassign:{nrows}:{ncols}:{C.flist(fvals_of(fg))}"); expect.append("done")
        elif act == "flat_setitem":
            k = rng.randrange(n)
            fg[k] = float(rng.randint(1, 9))
            ops.append(f"fset:{k}:{C.f2h(float(fg.data.flat[k]))}"); expect.append("done")
        elif act == "assign_field":
            fg.data = np.array(new_field(), dtype=np.float64).reshape(nrows, ncols)
            ops.append(f"fassign:{nrows}:{ncols}:{C.flist(fvals_of(fg))}"); expect.append("done")
        elif act == "bad_field":
            if rng.random() < 0.5:
                r2, c2 = rng.choice([(ncols, nrows + 1), (nrows + 1, ncols), (1, n + 1), (nrows, ncols + 1)])
                attempt(f"fassign:{r2}:{c2}:{C.flist([1.0] * (r2 * c2))}",
                        lambda: setattr(fg, "data", np.ones((r2, c2))))
            else:
                k = n + rng.randint(0, 3)
                attempt(f"fset:{k}:{C.f2h(1.0)}", lambda: fg.__setitem__(k, 1.0))
        elif act == "field_nodata":
            fg.nodata = rng.choice([-5, -9999, 0, 12345])
            ops.append(f"fnd:{C.f2h(float(fg.nodata))}"); expect.append("done")
        elif act == "other_cap":
            cap = rng.choice([None, n, n + 3, max(n - 1, 1), 1, 2, 0, -3])
            ops.append(f"cap:{-1 if cap is None else cap}"); expect.append("done")
        elif act == "clone":
            fdg = fdg.clone() if rng.random() < 0.5 else copy.deepcopy(fdg)
            ops.append("fdclone"); expect.append("done")
            if fg is not None:
                fg = fg.clone()
                ops.append("fclone"); expect.append("done")
        elif act == "pickle":
            fdg = pickle.loads(pickle.dumps(fdg))
            ops.append("fdclone"); expect.append("done")
            if fg is not None:
                fg = pickle.loads(pickle.dumps(fg))
                ops.append("fclone"); expect.append("done")
        elif act == "toggle_field":
            if fg is None:
                fg = G.Grid("f", ncols=ncols, nrows=nrows, dtype=np.float64, nodata=-9999.0)
                fg.data = np.array(new_field(), dtype=np.float64).reshape(nrows, ncols)
                ops.append("fnew:" + gtok(fg)); expect.append("done")
            else:
                fg = None
                ops.append("fdrop"); expect.append("done")
        elif act == "feed_back":
            fg = res          # accumulate the accumulation: the earlier result is now an input grid (the same object)
            ops.append("feedback"); expect.append("done")
            # the values of that object are the REAL result's (another summation order, or values the property does not
            # fix on cyclic / capped calls, may differ from the model's own result): the model's object is given them
            ops.append(f"fassign:{nrows}:{ncols}:{C.flist(fvals_of(fg))}"); expect.append("done")
            ops.append(f"fnd:{C.f2h(float(fg.nodata))}"); expect.append("done")
        hist.append(act)
        hist.append("call")
        do_call()
    final = {"field": None if fg is None else ((int(fg.nrows), int(fg.ncols)), float(fg.nodata), fvals_of(fg)),
             "res": None if res is None else ((int(res.nrows), int(res.ncols)), float(res.nodata), fvals_of(res)),
             "fd": fdvals()}
    R.reqs.append(head + " " + " ".join(ops))
    R.info.append(({**case0, "history": hist}, ("hist", expect, final), [], 0.0, 1))
    R.ctx.count(("h", head, tuple(ops)), len(ops) > 2, "history/run/" + ("with_rejected_op" if "rej" in expect else "accepted_ops"))


def nonpositive_nprint_probe(R, rng, code_at):
    """nprint = 0 and negative values (the kernel guards `i % nprint` with `nprint > 0`): run in a child process so that a
    crash there is not the end of the check (it is recorded, not reported: C05's matter); the answers, when there are
    answers, must be those of the same calls made here with a large nprint (the model answers the same for every
    nprint — Props: cAccumulateP_result)"""
    import subprocess
    import sys
    import tempfile
    np, G = R.np, R.G
    cases = []
    for _ in range(6):
        nrows, ncols = rng.randint(1, 5), rng.randint(1, 5)
        n = nrows * ncols
        cases.append({"nrows": nrows, "ncols": ncols, "flowdir": gen_forest(rng, nrows, ncols, code_at),
                      "field": [float(rng.randint(1, 9)) for _ in range(n)], "nprint": rng.choice([0, 0, -1, -100])})
    want = []
    for c in cases:
        fdg = G.Grid("fd", ncols=c["ncols"], nrows=c["nrows"], dtype=np.int64, nodata=-1)
        fdg.data = np.array(c["flowdir"], dtype=np.int64).reshape(c["nrows"], c["ncols"])
        fg = G.Grid("f", ncols=c["ncols"], nrows=c["nrows"], dtype=np.float64, nodata=-9999.0)
        fg.data = np.array(c["field"]).reshape(c["nrows"], c["ncols"])
        res = R.call_grids(fdg, fg, None, tag="nprint_probe")
        want.append(None if res is None else [float(v) for v in res.data.ravel()])
        R.reqs.append(f"caccp {c['nrows']} {c['ncols']} {R.codes_tok} {C.ilist(c['flowdir'])} {c['nprint']} {c['nrows'] * c['ncols']} "
                      f"{C.f2h(-9999.0)} {C.flist(c['field'])} {C.flist(c['field'])}")
        R.info.append(({**c, "via": "kernel"}, ("caccp", True), [], 0.0, 1))
    code = (
        "import json, sys, os\n"
        "import numpy as np\n"
        "from hydrodiy.gis import grid as G\n"
        "cases = json.load(open(sys.argv[1]))\n"
        "out = []\n"
        "for c in cases:\n"
        "    fdg = G.Grid('fd', ncols=c['ncols'], nrows=c['nrows'], dtype=np.int64, nodata=-1)\n"
        "    fdg.data = np.array(c['flowdir'], dtype=np.int64).reshape(c['nrows'], c['ncols'])\n"
        "    fg = G.Grid('f', ncols=c['ncols'], nrows=c['nrows'], dtype=np.float64, nodata=-9999.0)\n"
        "    fg.data = np.array(c['field']).reshape(c['nrows'], c['ncols'])\n"
        "    try:\n"
        "        r = G.accumulate(fdg, fg, nprint=c['nprint'])\n"
        "        out.append([float(v) for v in r.data.ravel()])\n"
        "    except Exception as e:\n"
        "        out.append('raised ' + type(e).__name__)\n"
        "    json.dump(out, open(sys.argv[2], 'w'))\n")
    with tempfile.TemporaryDirectory() as td:
        fin, fout = os.path.join(td, "in.json"), os.path.join(td, "out.json")
        with open(fin, "w") as f:
            json.dump(cases, f)
        env = dict(os.environ, PYTHONPATH=os.pathsep.join(p for p in sys.path if p))
        try:
            pr = subprocess.run([sys.executable, "-c", code, fin, fout], env=env, stdout=subprocess.DEVNULL,
                                stderr=subprocess.DEVNULL, timeout=120)
            rc = pr.returncode
        except subprocess.TimeoutExpired:
            rc = "timeout"
        got = json.load(open(fout)) if os.path.exists(fout) else []
    for i, c in enumerate(cases):
        g = got[i] if i < len(got) else f"no answer (child exit {rc})"
        kind = "same" if g == want[i] else "no_answer_or_raised" if isinstance(g, str) else "differs"
        R.ctx.count(("np", i, c["nprint"], tuple(c["flowdir"])), True, "nprint_probe/" + kind)
        # a crash or an exception for nprint <= 0 is recorded only (memory safety / argument validation is C05's matter,
        # not a clause of this property); an ANSWER that differs is reported
        if kind == "differs":
            R.ctx.disagree("C11: accumulate with nprint <= 0 does not answer what it answers with a large nprint (the model's "
                           "result does not depend on nprint)", {**c, "via": "wrapper", "impl": g if isinstance(g, str) else g[:32],
                                                                "expected": want[i] and want[i][:32]})
            break


def caps_for(rng, n, longest):
    r = rng.random()
    if r < 0.55:
        return None
    return rng.choice([-1, n, max(n - 1, 1), max(longest - 1, 1), max(longest, 1), longest + 1, 1, 2, rng.randint(1, max(n, 1)),
                       n + rng.randint(1, 5)])


def body(ctx):
    rng = ctx.rng
    saved = os.dup(1)
    devnull = os.open(os.devnull, os.O_WRONLY)
    libc = ctypes.CDLL(None)
    import sys
    sys.stdout.flush()
    os.dup2(devnull, 1)          # the kernel reports progress with fprintf(stdout, ...)
    try:
        _body(ctx, rng)
    finally:
        libc.fflush(None)
        os.dup2(saved, 1)
        os.close(saved)
        os.close(devnull)


def _body(ctx, rng):
    import itertools
    R = Runner(ctx)
    code_at = R.code_at
    codes8 = [c for c in R.codes if c != 0]
    alphabet = codes8 + [0, 7]

    # ---- replay of a recorded case / corpus first
    prior = []
    if getattr(ctx, "replay", None) and isinstance(ctx.replay.get("case"), dict) and "flowdir" in ctx.replay["case"]:
        prior.append(ctx.replay["case"])
    cdir = C.ROOT / "corpus" / PID
    if cdir.is_dir():
        for f in sorted(cdir.glob("*.json")):
            prior.append(json.loads(f.read_text()))
    for case in prior:
        nd = case.get("nodata", -9999.0)
        nd = float("nan") if nd == "nan" else float(nd)
        cap = case.get("cap")
        if case.get("via") == "kernel":
            R.kernel_case(case["nrows"], case["ncols"], case["flowdir"], case["field"], nd, cap, case["acc0"], tag="corpus")
        elif case.get("via", "wrapper") == "wrapper":
            R.wrapper_case(case["nrows"], case["ncols"], case["flowdir"], case.get("field"), nd, cap,
                           case.get("fd_dtype", "int64"), case.get("f_dtype", "float64"), tag="corpus", origin="corpus",
                           bounds=case.get("bounds", False))

    # ---- exhaustive small grids
    shapes = [(1, 1), (1, 2), (2, 1), (2, 2)]
    if ctx.thorough:
        shapes += [(1, 3), (3, 1), (2, 3), (3, 2)]
    kinds3 = ["unit", "distinct", "signed"]
    for (nrows, ncols) in shapes:
        n = nrows * ncols
        big = n >= 6
        for gi, fd in enumerate(itertools.product(alphabet, repeat=n)):
            fd = list(fd)
            if (nrows, ncols) == (3, 2) and gi % 2 == 1:
                continue                         # 3x2: every other grid (2x3 is complete)
            for ki, kind in enumerate(kinds3):
                if big and (gi + ki) % 3 != 0:
                    continue                     # 2x3 / 3x2: one field kind per grid, rotating
                nd = -1.0 if kind == "unit" else -9999.0
                R.wrapper_case(nrows, ncols, fd, gen_field(rng, n, kind, nd), nd, None, tag=f"exh{nrows}x{ncols}",
                               bounds=(gi % 2 == 1))
        R.flush()
    if not ctx.thorough:
        for _ in range(3000):
            nrows, ncols = rng.choice([(2, 3), (3, 2), (1, 3), (3, 1)])
            fd = [rng.choice(alphabet) for _ in range(nrows * ncols)]
            kind = rng.choice(kinds3)
            nd = -1.0 if kind == "unit" else -9999.0
            R.wrapper_case(nrows, ncols, fd, gen_field(rng, nrows * ncols, kind, nd), nd, None, tag=f"smp{nrows}x{ncols}",
                           bounds=rng.random() < 0.4)
    # 3x3 over four codes (east, south, south-east, sink): every grid in the thorough tier
    four = [code_at[(0, 1)], code_at[(1, 0)], code_at[(1, 1)], 0]
    if ctx.thorough:
        it3 = itertools.product(four, repeat=9)
        for gi, fd in enumerate(it3):
            kind = kinds3[gi % 3]
            nd = -1.0 if kind == "unit" else -9999.0
            R.wrapper_case(3, 3, list(fd), gen_field(rng, 9, kind, nd), nd, None, tag="exh3x3", bounds=(gi % 2 == 1))
            if gi % 40000 == 39999:
                R.flush()
    else:
        for _ in range(1500):
            fd = [rng.choice(four + [code_at[(0, -1)], code_at[(-1, 0)]]) for _ in range(9)]
            kind = rng.choice(kinds3)
            nd = -1.0 if kind == "unit" else -9999.0
            R.wrapper_case(3, 3, fd, gen_field(rng, 9, kind, nd), nd, None, tag="exh3x3", bounds=rng.random() < 0.4)
    R.flush()

    # ---- random grids
    nmax = ctx.scale(8, 10)
    ngrids = ctx.scale(3000, 10000)
    for it in range(ngrids):
        if it < 30:
            nrows, ncols = [(1, 5), (5, 1), (2, 4), (4, 2), (3, 3), (1, nmax), (nmax, 1), (nmax, nmax), (2, nmax), (3, 4)][it % 10]
        else:
            nrows, ncols = rng.randint(1, nmax), rng.randint(1, nmax)
        n = nrows * ncols
        r = rng.random()
        if r < 0.35:
            fd, gk = gen_forest(rng, nrows, ncols, code_at, steep=False), "forest"
        elif r < 0.50:
            fd, gk = gen_forest(rng, nrows, ncols, code_at, steep=True, p_term=0.02), "steep"
        elif r < 0.62:
            fd, gk = gen_snake(nrows, ncols, code_at, rng.choice([0, code_at[(1, 0)], 7, code_at[(0, 1)], code_at[(0, -1)]])), "snake"
        elif r < 0.80:
            fd, gk = [rng.choice(alphabet + [-1, 3, 255]) for _ in range(n)], "random"
        else:
            fd, gk = plant_cycle(rng, nrows, ncols, gen_forest(rng, nrows, ncols, code_at), code_at), "planted"
        fl = Flow(nrows, ncols, fd, R.offsets)
        fd_dtype = "int64"
        if all(0 <= v <= 255 for v in fd) and rng.random() < 0.3:
            fd_dtype = rng.choice(["uint8", "int32", "int16", "float64", "float32"])
        for kind in rng.sample(FIELD_KINDS, 3):
            nd = rng.choice([-9999.0, -1.0, 0.0, float("nan"), -0.1]) if kind != "unit" else float(rng.choice([-1, 0, 255, -9999]))
            if kind == "unit" and fd_dtype == "uint8":
                nd = float(rng.choice([0, 255]))
            if kind == "unit" and fd_dtype == "int16" and nd == -9999.0:
                nd = -1.0
            f_dtype = "float64"
            if kind == "narrow":
                field, f_dtype, nd = gen_narrow(rng, n)
            else:
                field = gen_field(rng, n, kind, nd)
            if kind != "narrow" and field is not None and all(v == int(v) and abs(v) < 2 ** 31 for v in field) and nd == nd and nd == int(nd) \
                    and rng.random() < 0.25:
                f_dtype = rng.choice(["int64", "int32"])
            cap = caps_for(rng, n, fl.longest)
            # nprint: the wrapper's default (100), every cell, a few cells, never — it must decide nothing but the log
            R.wrapper_case(nrows, ncols, fd, field, nd, cap, fd_dtype, f_dtype, tag=gk, bounds=rng.random() < 0.4,
                           nprint=rng.choice([NPRINT, NPRINT, None, 1, 2, 7, n, n + 1]))
        if n >= 2 and rng.random() < 0.25:
            # the same flattened codes and field on a grid of ANOTHER shape with as many cells, right after: nothing the
            # previous call computed (downstream cells, chains) is valid for it
            shapes2 = [(r2, n // r2) for r2 in range(1, n + 1) if n % r2 == 0 and (r2, n // r2) != (nrows, ncols)]
            if shapes2:
                r2, c2 = rng.choice(shapes2)
                kind = rng.choice(["unit", "posint", "distinct", "signed"])
                nd = -1.0 if kind == "unit" else -9999.0
                fld = gen_field(rng, n, kind, nd)
                for (ra, ca) in ((nrows, ncols), (r2, c2)) if rng.random() < 0.5 else ((r2, c2), (nrows, ncols), (r2, c2)):
                    R.wrapper_case(ra, ca, fd, fld, nd, None, tag="reshaped")
        if it % 4 == 0:
            R.downstream_case(nrows, ncols, [v for v in fd])
        if it % 5 == 0:
            R.spec_case(nrows, ncols, [v for v in fd])
        if it % 3 == 0:
            # the kernel on explicit memory, called as the wrapper calls it: the accumulation buffer is a copy of the
            # field (what the kernel does with any other initial content is not fixed by the property and not compared);
            # both float buffers are read back after the call
            fvals = gen_field(rng, n, rng.choice(FIELD_KINDS[1:-1]), -9999.0)
            acc0 = list(fvals)
            cap = rng.choice([n, n, max(fl.longest, 1), max(fl.longest - 1, 1), fl.longest + 1, 1, 2, 3, n + 1])
            R.kernel_case(nrows, ncols, fd, fvals, rng.choice([-9999.0, float("nan"), -1.0]), cap, acc0, tag=gk,
                          nprint=rng.choice([NPRINT, 1, 3, 100, n]))
        if it % 500 == 499:
            R.flush()
    R.flush()

    # ---- histories on one pair of grid objects
    for it in range(ctx.scale(1500, 8000)):
        history_case(R, rng, code_at, alphabet, ctx.scale(6, 8))
        if it % 2000 == 1999:
            R.flush()
    R.flush()
    # the model's specification vocabulary on every small grid
    for (nrows, ncols) in [(1, 1), (1, 2), (2, 1), (2, 2)]:
        for fd in itertools.product(alphabet, repeat=nrows * ncols):
            R.spec_case(nrows, ncols, list(fd))
    R.flush()

    # ---- malformed stream: limit < 1, degenerate shapes
    for it in range(ctx.scale(60, 600)):
        nrows, ncols = rng.randint(1, 4), rng.randint(1, 4)
        n = nrows * ncols
        fd = gen_forest(rng, nrows, ncols, code_at)
        R.wrapper_case(nrows, ncols, fd, gen_field(rng, n, rng.choice(FIELD_KINDS[:-1]), -9999.0), -9999.0,
                       rng.choice([0, -2, -7, -100]), tag="malformed")
        fvals = [1.0] * n
        R.kernel_case(nrows, ncols, fd, fvals, -1.0, rng.choice([0, -1, -5]), fvals, tag="malformed")
    # field grid of another shape than the flow-direction grid (the Cython asserts), also together with a bad limit
    np, G = R.np, R.G
    for it in range(ctx.scale(40, 400)):
        nrows, ncols = rng.randint(1, 4), rng.randint(1, 4)
        fr, fc = rng.choice([(ncols, nrows), (nrows + 1, ncols), (nrows, ncols + 1), (1, nrows * ncols), (nrows * ncols, 1)])
        if (fr, fc) == (nrows, ncols):
            continue
        fdg = G.Grid("fd", ncols=ncols, nrows=nrows, dtype=np.int64, nodata=-1)
        fdg.data = np.array(gen_forest(rng, nrows, ncols, code_at), dtype=np.int64).reshape(nrows, ncols)
        fg = G.Grid("f", ncols=fc, nrows=fr, dtype=np.float64, nodata=-9999.0)
        fg.data = np.array([float(rng.randint(1, 9)) for _ in range(fr * fc)]).reshape(fr, fc)
        R.call_grids(fdg, fg, rng.choice([None, None, 0, -3, 5]), tag="malformed")
    for shape in [(0, 3), (0, 1), (0, 0), (2, 0), (1, 0)]:
        R.kernel_case(shape[0], shape[1], [], [], -1.0, 5, [], tag="degenerate")
    # grids without rows / without columns through the wrapper (the points the hypotheses 1 <= nrows, 0 < ncols of the
    # theorems exclude): the default limit is then 0 and is rejected; an explicit limit >= 1 is rejected without rows
    # and answers an empty grid without columns (model and, today, code) — run and recorded, not compared, no oracle
    for (nr0, nc0) in [(0, 3), (3, 0), (0, 0), (1, 0), (0, 1), (2, 0)]:
        for cap0 in [None, 1, 4, 0]:
            for with_field in (False, True):
                fdg = G.Grid("fd", ncols=nc0, nrows=nr0, dtype=np.int64, nodata=-1)
                fg = G.Grid("f", ncols=nc0, nrows=nr0, dtype=np.float64, nodata=-9999.0) if with_field else None
                R.call_grids(fdg, fg, cap0, tag="malformed")
    R.flush()
    nonpositive_nprint_probe(R, rng, code_at)
    R.flush()

    ctx.extra["rule"] = __doc__.split("Cases:")[1].strip()
    ctx.extra["flowdircode"] = R.codes
    ctx.assumptions += [
        "theorems are exact-arithmetic statements (any commutative monoid / the kernel's own left-to-right order for a bare "
        "addition); IEEE rounding is covered by the Float correspondence within the budget of a re-ordered sum",
        "nprint only drives fprintf: the branch is in the model (any integer), the text printed is not observed; nprint <= 0 is "
        "passed to the real code in a child process (on a tree without the guard nprint = 0 divides by zero: C05)",
        "IEEE double addition is a rounding of the exact sum with relative error 2^-53 that keeps the integers up to 2^53 "
        "(hypotheses of the rounded-arithmetic theorems; core Float is opaque): observed on every integer-valued case sent to the "
        "model's Int instance",
        "the three buffers have the shape of the flow-direction grid (asserted by the Cython wrapper)",
        "Grid construction / dtype conversion (numpy astype, clip, deepcopy) is external; flow directions and field "
        "values are taken as the kernel receives them",
    ]


def main(tier, replay=None):
    return C.run_check(PID, tier, body, needs_native=True, replay=replay,
                       trusted=["numpy dtype conversion / copy.deepcopy in the Grid wrappers (external)",
                                "FLOWDIRCODE is read from grid.py at run time and passed to the model as the parameter `codes`"])
