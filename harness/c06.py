"""C06 — catchment delineation is exactly upstream reachability on the flow grid.

Model: lean/HydroVerif/Model/C06.lean (imports the integer grid core of Model/C07.lean and the direction-code
table lean/HydroVerif/Generated/FlowDir.lean, regenerated from grid.py by harness/gen_flowdir.py on every run);
lemmas: Lemmas/C06Bfs.lean, Lemmas/C06.lean; theorems: Props/C06.lean.

Every call into the real code is made by a WORKER SUBPROCESS (this module run with `--worker`), never in the
checking process: a request that does not come back within its time limit, or that kills the worker, is
isolated by re-running its batch one operation at a time and reported as a finding (`hang/<op>`,
`crash/<op>`) — the property demands an error or a bounded result on flow cycles, never a hang — so the check
itself cannot hang.

Correspondence (model driver vs the real code on a fresh native build), per operation:
  down   Catchment.downstream / c_hydrodiy_gis.downstream      cells, -2 / -1 flags, error for a cell off the grid
  up     Catchment.upstream / c_hydrodiy_gis.upstream          each row of 9 as a sorted multiset
  area   Catchment.delineate_area / c_hydrodiy_gis.delineate_area   idxcells_area as a sorted multiset (duplicates
         matter, listing order is not compared), error kind (bad nval / outlet / inlet / buffer exhausted);
         idxcells_area_filled as a set, `binary_fill_holes` being a parameter of the model (the mask the model
         builds is filled by scipy in the harness and handed back to the model)
  fpath  Catchment.compute_flowpathlengths / c_hydrodiy_gis.delineate_flowpathlengths_in_catchment
         end cell exact, length within max(4, #steps) ulp — a rounded sum of #steps terms (in practice bit-equal)
  river  hydrodiy.gis.grid.delineate_river                      cells, dx, dy exact; x, y within 4 ulp, dist (row i: a sum of i
         terms) within max(4, i) ulp
  chain  iterated Catchment.downstream (one scalar call per step) and the river over the same cells, against the
         functions the theorems are STATED with: chainCells / chainCell / chainSteps (length = the river's last
         distance) / goesOnCount (how many flow-path iterations go on)
  reach  idxcells_area against `reachArea`, the property's wording by brute force over the grid (grids <= 30 cells)
  count / esri (once per run)  countBy at Float = the doubles n and 2n; esriDx / esriDy / esriPos and the codes found there
         against the oracle's ESRI table and the FLOWDIRCODE array the real code hands to its kernels
Open outcomes: the property only asks for 'an error or a bounded result' on flow cycles. Where the MODEL's own predicates
say so — `cycleThroughOutlet` (area; proved equivalent to a cycle through the outlet), `chainCyclic` (river), `flowPathCapped`
(a flow-path row whose walk used all its iterations) — the driver flags the reply and only 'error, or a result within the
bound, returned within the time limit' is compared: not which of the two, not the values (and after such a delineation
in a history the flow-path step is open until the next delineation). Everything else is compared exactly. Error codes,
classes and texts are not observables: rejected vs accepted only.
Oracle (failing-input search on the real code only, independent of the model): a graph model in Python with
its own ESRI table (1 = east, doubling clockwise): downstream = ESRI neighbour / -2 sink / -1 exit or invalid
code; upstream row = inverse image of downstream, each cell once; area = outlet + every cell whose downstream
chain reaches the outlet without passing through an inlet (empty when nothing drains), each once, ok whenever
the buffer is large enough and no cycle passes through the outlet, error or bounded result otherwise;
filled ⊇ area inside its padded bounding box; flow path = chain to the outlet, 1 per orthogonal and sqrt(2) per
diagonal step; river = downstream chain with cumulated Euclidean distance. The oracle only speaks inside the property's
quantifier: arguments off the grid (query cells, outlet, inlets, river start, nval < 1) are compared with the model but
never flagged; on a flow cycle (through the outlet for the area, anywhere on the chain for a river / flow path) an error
OR a bounded result (a prefix of the true chain, at most nval cells) is accepted; exception classes, message texts and
the dtypes of the result tables are not observables (any exception is 'an error'; an error whose kernel code cannot be
resolved against the current source is compared as a generic error).

Cases: exhaustive — every grid of 1x1, 1x2, 2x1 (and 2x2; thorough: 1x3, 3x1, 2x3, 3x2 sampled to the budget,
3x3 over a reduced alphabet) over {8 ESRI codes, 0, 7 (invalid)} x every cell (down, up, river) x every outlet
x inlet subsets (all for <= 3 cells, the empty set + random ones beyond) x buffer sizes {just enough, one short,
ample}; structured — uniform-direction grids, serpentine single-chain grids (path length = nval - 1), 1- and
2-column grids (diagonal steps with |Δidx| = 1), spanning trees draining to an outlet with inlets chosen ON the
tree, cycles through and off the outlet; random grids to 8x8 (thorough 12x12) over the same alphabet plus other
invalid codes; sized — areas, rivers and cell lists of a prescribed LENGTH: every size 2..33 (thorough ..129), then exact
multiples of 64 / 100 / 128 / 256 / 512 / 1000 / 1024 with their two neighbours up to 2048 cells (thorough: every multiple
of 64 to 1024 and of 256 to 2048, then 3072 and 4096), on comb grids (4 mirror images), random spanning trees re-rooted in mid-stream and
serpentines, pruned to the exact size by inlets, sinks / invalid codes or both, delineated through the Python wrapper
with nval = size + 1, size + 2, block-aligned (256, 1024), 2 size + 3 and the default 10^6, through the kernel with
size + 1 and size (one short: error); rivers of exactly that many cells with nval = length, length +- 1, block-aligned,
default; flow-path lists of that length — what the wrappers do with a result (masking, counting, slicing, tables of
len(area) rows) depends on its LENGTH, which exhaustive small grids never stretch; flow-path lists of exactly as many
cells as the first cell's chain has steps to the outlet (the boundary of flowpath_length's hypothesis) and one more;
histories — 2-18 calls on ONE Catchment object (D delineate_area, F compute_flowpathlengths, S / G
catchment.flowdir.data edited in place / re-assigned, U / W / R queries, A the accessor idxcells_area and I isin(cell)
— before any delineation, after a good one, after an edit, after a failed one —, E the arrays returned by the previous
call overwritten in place, K clone (source wiped), P pickle round trip, O edit of the grid handed to the constructor):
re-delineation with another outlet or other inlets whose area has the SAME size, a failed delineation between two
good ones, tables asked after an edit — every answer compared with the Lean state machine (`hist` request, run through
the model's interleaved `callRun`) and with
the oracle evaluated on the state the object has at that step (silent after O / K / P, where the property does not say
which grid the object holds); malformed — cells / outlets / inlets / river starts off the grid, nval 0 and 1, the default
nval = 10^6. A case is non-trivial when the reply is not an error and not empty.
"""
import hashlib
import json
import math
import os
import queue
import re
import subprocess
import sys
import threading
from pathlib import Path

from . import common as C
from .gen_flowdir import regen as regen_flowdir

PID = "C06"
ALPHABET = [1, 2, 4, 8, 16, 32, 64, 128, 0, 7]
ESRI = {1: (0, 1), 2: (1, 1), 4: (1, 0), 8: (1, -1), 16: (0, -1), 32: (-1, -1), 64: (-1, 0), 128: (-1, 1)}
DIR2CODE = {v: k for k, v in ESRI.items()}
SQRT2 = math.sqrt(2.0)
BATCH_TIMEOUT = 90
OP_TIMEOUT = 10
MAX_BAD = 2


# =============================================================================================
# worker: the only place where the real code runs
def worker_main(native_dir):
    out = os.fdopen(os.dup(1), "w")
    os.dup2(2, 1)                          # anything the kernels print goes to stderr
    C.activate_repo(Path(native_dir))
    import numpy as np
    import warnings
    warnings.simplefilter("ignore")
    from hydrodiy.gis import grid as hg
    import c_hydrodiy_gis as cg
    i64 = np.int64

    def err_of(e):
        # the exception class and the message text are not observables of the property: any exception is
        # "an error"; the kernel's code is kept when the message carries one
        m = re.search(r"returns (\d+)", str(e))
        return {"err": int(m.group(1)) if m else -1, "exc": type(e).__name__, "msg": str(e)[:120]}

    def scribble(objs):
        """overwrite, in place, everything an earlier call handed back to the caller"""
        for o in objs:
            try:
                if hasattr(o, "iloc"):
                    o.iloc[:, :] = -7
                else:
                    o[...] = -7
            except Exception:
                pass

    def run_history(nrows, ncols, fdarr, steps):
        """2-8 calls on ONE Catchment object (see gen_histories); one reply per step"""
        import pickle
        g0 = hg.Grid("fd", ncols=ncols, nrows=nrows, dtype=i64, nodata=-99)
        g0.data = fdarr.copy()
        c = hg.Catchment("c", g0)
        out, last = [], []
        for st in steps:
            k = st[0]
            try:
                if k == "D":
                    c.delineate_area(st[1], st[2], nval=st[3])
                    a, f = c.idxcells_area, c.idxcells_area_filled
                    out.append({"ok": a.tolist(), "filled": f.tolist()})
                    last = [a, f]
                elif k == "F":
                    c.compute_flowpathlengths()
                    t = c.flowpathlengths
                    out.append({"ok": [[float(v) for v in row] for row in t.values.tolist()]})
                    last = [t]
                elif k == "S":
                    c.flowdir.data.flat[st[1]] = st[2]
                    out.append({})
                elif k == "G":
                    c.flowdir.data = np.array(st[1], dtype=i64).reshape(nrows, ncols)
                    out.append({})
                elif k == "O":
                    g0.data.flat[st[1]] = st[2]          # the grid handed to the constructor: Catchment holds a clone
                    out.append({})
                elif k == "U":
                    r = c.upstream(st[1])
                    out.append({"ok": r.tolist()})
                    last = [r]
                elif k == "W":
                    r = c.downstream(st[1])
                    out.append({"ok": r.tolist()})
                    last = [r]
                elif k == "R":
                    df = hg.delineate_river(c.flowdir, st[1], nval=st[2])
                    out.append({"ok": [[float(v) for v in row]
                                       for row in df[["idxcell", "dist", "dx", "dy", "x", "y"]].values.tolist()]})
                    last = [df]
                elif k == "K":
                    old = c
                    c = c.clone()
                    old.flowdir.data[...] = 0            # the clone must not share the grid
                    if old._idxcells_area is not None:
                        old._idxcells_area[...] = -7
                    out.append({})
                elif k == "P":
                    c = pickle.loads(pickle.dumps(c))
                    out.append({})
                elif k == "E":
                    scribble(last)
                    out.append({})
                elif k == "A":
                    a = c.idxcells_area                      # raises while no delineation is stored
                    out.append({"ok": a.tolist()})
                    last = [a]
                elif k == "I":
                    out.append({"ok": bool(c.isin(st[1]))})  # raises while no delineation is stored
                else:
                    out.append({"err": -2, "msg": "unknown step"})
            except Exception as e:
                out.append(err_of(e))
        return out

    def run_job(job):
        nrows, ncols, fd = job["g"]
        fdarr = np.array(fd, dtype=i64).reshape(nrows, ncols)
        state = {}

        def catchment():
            if "c" not in state:
                g = hg.Grid("fd", ncols=ncols, nrows=nrows, dtype=i64, nodata=-99)
                g.data = fdarr
                state["g"] = g
                state["c"] = hg.Catchment("c", g)
            return state["c"]
        res = []
        for op in job["ops"]:
            kind, api = op[0], op[1]
            try:
                if kind == "down":
                    cells = np.array(op[2], dtype=i64)
                    if api == "py":
                        res.append({"ok": catchment().downstream(op[2] if len(op[2]) != 1 else op[2][0]).tolist()})
                    else:
                        o = np.zeros(len(cells), dtype=i64)
                        ierr = cg.downstream(hg.FLOWDIRCODE, fdarr, cells, o)
                        res.append({"err": int(ierr)} if ierr > 0 else {"ok": o.tolist()})
                elif kind == "up":
                    cells = np.array(op[2], dtype=i64)
                    if api == "py":
                        res.append({"ok": catchment().upstream(op[2] if len(op[2]) != 1 else op[2][0]).tolist()})
                    else:
                        o = np.zeros((len(cells), 9), dtype=i64)
                        ierr = cg.upstream(hg.FLOWDIRCODE, fdarr, cells, o)
                        res.append({"err": int(ierr)} if ierr > 0 else {"ok": o.tolist()})
                elif kind == "area":
                    outlet, inlets, nval = op[2], op[3], op[4]
                    if api == "py":
                        c = catchment()
                        kw = {} if nval is None else {"nval": nval}
                        c.delineate_area(outlet, None if inlets is None else inlets, **kw)
                        r = {"ok": c.idxcells_area.tolist(), "filled": c.idxcells_area_filled.tolist()}
                        if len(op) > 5 and op[5]:
                            try:
                                c.compute_flowpathlengths()
                                r["fpath"] = [[float(v) for v in row] for row in c.flowpathlengths.values.tolist()]
                            except Exception as e:
                                r["fpath_err"] = err_of(e)
                        res.append(r)
                    else:
                        cells = np.full(nval, -1, dtype=i64)
                        b1, b2 = cells.copy(), cells.copy()
                        ierr = cg.delineate_area(hg.FLOWDIRCODE, fdarr, outlet, np.array(inlets or [], dtype=i64), cells, b1, b2)
                        res.append({"err": int(ierr)} if ierr > 0 else {"ok": cells[cells >= 0].tolist()})
                elif kind == "fpath":
                    outlet, cells = op[2], np.array(op[3], dtype=i64)
                    o = np.zeros((len(cells), 3), dtype=np.float64)
                    ierr = cg.delineate_flowpathlengths_in_catchment(outlet, hg.FLOWDIRCODE, fdarr, cells, o)
                    res.append({"err": int(ierr)} if ierr > 0 else {"ok": o.tolist()})
                elif kind == "hist":
                    res.append({"steps": run_history(nrows, ncols, fdarr, op[2])})
                elif kind == "chain":
                    # the downstream chain, one Catchment.downstream call per step (scalar argument), at most n cells;
                    # and the distance the river kernel reports for its last cell
                    outlet, start, n = op[2], op[3], op[4]
                    c = catchment()
                    cells, cur = [], start
                    while len(cells) < n + 1:
                        cells.append(int(cur))
                        cur = int(c.downstream(int(cur))[0])
                        if cur < 0:
                            break
                    r = {"ok": cells, "end": cur if cur < 0 else None}
                    try:
                        df = hg.delineate_river(c.flowdir, start, nval=n)
                        r["river"] = [int(v) for v in df["idxcell"].values]
                        r["dist"] = float(df["dist"].values[-1]) if len(df) else 0.0
                    except Exception as e:
                        r["river_err"] = err_of(e)
                    res.append(r)
                elif kind == "river" and api == "x":
                    start, nval, xll, yll, csz = op[2:7]
                    npoints = np.zeros(1, dtype=i64)
                    idxc = np.full(nval, -1, dtype=i64)
                    data = np.zeros((nval, 5), dtype=np.float64)
                    ierr = cg.delineate_river(xll, yll, csz, hg.FLOWDIRCODE, fdarr, start, npoints, idxc, data)
                    if ierr > 0:
                        res.append({"err": int(ierr)})
                    else:
                        k = int(npoints[0])
                        res.append({"ok": [[int(idxc[i])] + data[i].tolist() for i in range(k)]})
                elif kind == "river":
                    start, nval, xll, yll, csz = op[2:7]
                    g = hg.Grid("fd", ncols=ncols, nrows=nrows, dtype=i64, nodata=-99, cellsize=csz, xllcorner=xll, yllcorner=yll)
                    g.data = fdarr
                    kw = {} if nval is None else {"nval": nval}
                    df = hg.delineate_river(g, start, **kw)
                    res.append({"ok": [[float(v) for v in row]
                                       for row in df[["idxcell", "dist", "dx", "dy", "x", "y"]].values.tolist()]})
                else:
                    res.append({"err": -2, "msg": "unknown op"})
            except Exception as e:
                res.append(err_of(e))
        return res

    for line in sys.stdin:
        jobs = json.loads(line)
        out.write(json.dumps([run_job(j) for j in jobs]) + "\n")
        out.flush()


class Worker:
    def __init__(self, native):
        self.native = native
        self.p = None

    def start(self):
        env = dict(os.environ)
        env["PYTHONPATH"] = str(C.ROOT)
        self.p = subprocess.Popen([sys.executable, "-m", "harness.c06", "--worker", str(self.native)], cwd=str(C.ROOT),
                                  stdin=subprocess.PIPE, stdout=subprocess.PIPE, stderr=subprocess.DEVNULL, text=True, env=env)
        self.q = queue.Queue()
        p, q = self.p, self.q

        def reader():
            for line in p.stdout:
                q.put(line)
            q.put(None)
        threading.Thread(target=reader, daemon=True).start()

    def stop(self):
        if self.p is not None:
            try:
                self.p.kill()
                self.p.wait(timeout=10)
            except Exception:
                pass
            self.p = None

    def call(self, jobs, timeout):
        """-> (list of per-job results, None) or (None, 'hang' | 'crash')"""
        if self.p is None or self.p.poll() is not None:
            self.stop()
            self.start()
        try:
            self.p.stdin.write(json.dumps(jobs) + "\n")
            self.p.stdin.flush()
        except (BrokenPipeError, OSError):
            self.stop()
            return None, "crash"
        try:
            line = self.q.get(timeout=timeout)
        except queue.Empty:
            self.stop()
            return None, "hang"
        if line is None:
            self.stop()
            return None, "crash"
        return json.loads(line), None


def run_real(state, jobs):
    """run every job in the worker; -> list (per job) of lists (per op) of result dicts.
    A batch that does not come back (or kills the worker) is re-run one operation at a time to name the
    operation; after MAX_BAD hangs/crashes of one kind of operation the remaining ones of that kind are
    skipped (`{"skipped": True}`), so that a kernel that loops costs a bounded amount of time."""
    w = state["worker"]
    bad_kinds = state["bad"]
    results = []

    def dropped(op):
        return bad_kinds.get(op[0], 0) >= MAX_BAD
    B = 400
    for i in range(0, len(jobs), B):
        chunk = jobs[i:i + B]
        if bad_kinds:
            send = [{"g": j["g"], "ops": [op for op in j["ops"] if not dropped(op)]} for j in chunk]
        else:
            send = chunk
        res, bad = w.call(send, BATCH_TIMEOUT)
        if res is not None:
            for job, rj in zip(chunk, res):
                it = iter(rj)
                results.append([{"skipped": True} if dropped(op) else next(it) for op in job["ops"]])
            continue
        # isolate: one op at a time
        for job in chunk:
            rj = []
            for op in job["ops"]:
                if dropped(op):
                    rj.append({"skipped": True})
                    continue
                r, bad1 = w.call([{"g": job["g"], "ops": [op]}], OP_TIMEOUT)
                if r is None:
                    bad_kinds[op[0]] = bad_kinds.get(op[0], 0) + 1
                rj.append(r[0][0] if r is not None else {bad1: True})
            results.append(rj)
    return results


# =============================================================================================
# error kinds, resolved against the CURRENT source lines
def error_table(repo):
    """-> {ierr: kind}; kinds of c_delineate_area by the order of its `return CATCHMENT_ERROR + __LINE__`"""
    gis = repo / "src" / "hydrodiy" / "gis"
    tab = {}

    def base(header, name):
        m = re.search(r"#define\s+" + name + r"\s+(\d+)", (gis / header).read_text())
        return int(m.group(1)) if m else None

    def returns(cfile, fn, macro):
        text = (gis / cfile).read_text()
        # blank out /* ... */ comments (a disabled `return ... __LINE__` sits in one), keeping the line structure
        text = re.sub(r"/\*.*?\*/", lambda m: re.sub(r"[^\n]", " ", m.group(0)), text, flags=re.S)
        lines = text.splitlines()
        out, inside, depth = [], False, 0
        for no, ln in enumerate(lines, 1):
            if not inside and re.match(r"\s*long long\s+" + fn + r"\s*\(", ln):
                inside, depth, seen = True, 0, False
            if inside:
                if re.search(r"return\s+" + macro + r"\s*\+\s*__LINE__", ln):
                    out.append(no)
                depth += ln.count("{") - ln.count("}")
                if "{" in ln:
                    seen = True
                if seen and depth == 0:
                    break
        return out
    cb, gb = base("c_catchment.h", "CATCHMENT_ERROR"), base("c_grid.h", "GRID_ERROR")
    if cb is not None:
        ls = returns("c_catchment.c", "c_delineate_area", "CATCHMENT_ERROR")
        names = ["badNval", "badOutlet", "badInlet", "full", "full", "full"]
        if len(ls) == len(names):
            for ln, nm in zip(ls, names):
                tab[cb + ln] = nm
        ls = returns("c_catchment.c", "c_delineate_river", "CATCHMENT_ERROR")
        if ls:
            tab[cb + ls[0]] = "badCell"
    if gb is not None:
        for fn in ("c_upstream", "c_downstream"):
            for ln in returns("c_grid.c", fn, "GRID_ERROR"):
                tab[gb + ln] = "badCell"
    return tab


MODEL_ERR = {"areaFull": "full", "bufferFull": "full", "outletFull": "full"}


# =============================================================================================
# independent graph model (oracle side)
class G:
    def __init__(self, nrows, ncols, fd):
        self.nrows, self.ncols, self.fd, self.n = nrows, ncols, fd, nrows * ncols
        self.key = tuple(fd) if len(fd) <= 64 else hashlib.md5(repr(list(fd)).encode()).hexdigest()   # for count keys
        self._down = [self._d(c) for c in range(self.n)]
        self._up = [[] for _ in range(self.n)]
        for u, d in enumerate(self._down):
            if d >= 0:
                self._up[d].append(u)

    def _d(self, c):
        code = self.fd[c]
        if code == 0:
            return -2
        if code not in ESRI:
            return -1
        r, k = divmod(c, self.ncols)
        dr, dc = ESRI[code]
        r, k = r + dr, k + dc
        return r * self.ncols + k if 0 <= r < self.nrows and 0 <= k < self.ncols else -1

    def down(self, c):
        return self._down[c]

    def up(self, c):
        return self._up[c]

    def area(self, outlet, inlets):
        """-> (sorted expected area, cycle_through_outlet)"""
        inl = set(inlets)
        seen, layer, cyc = set(), [outlet], False
        first = [u for u in self._up[outlet] if u not in inl]
        if not first:
            return [], False
        found = []
        # breadth first over the inverse relation; a cell reached twice means a cycle through the outlet
        while layer:
            nxt = []
            for c in layer:
                for u in self._up[c]:
                    if u in inl:
                        continue
                    if u == outlet or u in seen:
                        cyc = True
                        continue
                    seen.add(u)
                    found.append(u)
                    nxt.append(u)
            layer = nxt
        return sorted(found + [outlet]), cyc

    def step_len(self, a, b):
        ra, ca = divmod(a, self.ncols)
        rb, cb = divmod(b, self.ncols)
        return (abs(ra - rb), abs(ca - cb))


def valid(n, c):
    return 0 <= c < n


# =============================================================================================
# generators
def serpentine(nrows, ncols):
    """one chain through every cell, ending in a sink at the last cell of the snake"""
    fd = [0] * (nrows * ncols)
    for r in range(nrows):
        for c in range(ncols):
            east = r % 2 == 0
            last = (c == ncols - 1) if east else (c == 0)
            if last:
                fd[r * ncols + c] = 4 if r < nrows - 1 else 0
            else:
                fd[r * ncols + c] = 1 if east else 16
    return fd


def tree_grid(rng, nrows, ncols, keep=0.9):
    """random spanning tree draining to a random outlet; -> (fd, outlet)"""
    n = nrows * ncols
    outlet = rng.randrange(n)
    fd = [rng.choice(ALPHABET) for _ in range(n)]
    intree = {outlet}
    frontier = [outlet]
    while frontier:
        c = frontier.pop(rng.randrange(len(frontier)))
        r, k = divmod(c, ncols)
        nbs = [(dr, dc) for dr in (-1, 0, 1) for dc in (-1, 0, 1) if (dr or dc) and 0 <= r + dr < nrows and 0 <= k + dc < ncols]
        rng.shuffle(nbs)
        for dr, dc in nbs:
            u = (r + dr) * ncols + k + dc
            if u not in intree and rng.random() < keep:
                fd[u] = DIR2CODE[(-dr, -dc)]
                intree.add(u)
                frontier.append(u)
    return fd, outlet


def comb_grid(nrows, ncols, flipx=False, flipy=False):
    """every row drains along itself into one edge column, which drains along itself into a corner sink: the whole grid
    drains to that corner; -> (fd, outlet). The four mirror images differ in the codes used and in listing order."""
    along = 1 if flipx else 16                 # rows flow east / west
    spine = 64 if flipy else 4                 # the edge column flows north / south
    kcol = ncols - 1 if flipx else 0
    rout = 0 if flipy else nrows - 1
    fd = [along] * (nrows * ncols)
    for r in range(nrows):
        fd[r * ncols + kcol] = spine
    outlet = rout * ncols + kcol
    fd[outlet] = 0
    return fd, outlet


def snake_order(nrows, ncols):
    """the cells of `serpentine(nrows, ncols)` in chain order (first cell -> sink)"""
    return [r * ncols + (c if r % 2 == 0 else ncols - 1 - c) for r in range(nrows) for c in range(ncols)]


def subtree_sizes(g, outlet):
    """the cells draining to `outlet` (a tree), breadth first; -> (order, parent, number of cells draining through each)"""
    order, par = [outlet], {outlet: None}
    for c in order:
        for u in g.up(c):
            if u not in par:
                par[u] = c
                order.append(u)
    size = {c: 1 for c in order}
    for c in reversed(order[1:]):
        size[par[c]] += size[c]
    return order, par, size


def prune_to_size(rng, g, outlet, m):
    """cells whose removal (as inlets, or turned into sinks / invalid codes) leaves an area of exactly `m` cells,
    on a grid where the cells draining to `outlet` form a tree with at least `m` cells; -> list of cut cells
    (each cut removes a whole sub-tree; greedy, largest sub-tree that still fits first, with a random choice among ties)"""
    order, par, size = subtree_sizes(g, outlet)
    excess = size[outlet] - m
    cuts, gone = [], set()
    while excess > 0:
        best = max((size[c] for c in order[1:] if c not in gone and size[c] <= excess), default=0)
        if best == 0:
            break
        u = rng.choice([c for c in order[1:] if c not in gone and size[c] == best])
        cuts.append(u)
        stack = [u]
        while stack:
            x = stack.pop()
            gone.add(x)
            stack.extend(v for v in g.up(x) if par.get(v) == x)
        p = par[u]
        while p is not None:
            size[p] -= best
            p = par[p]
        excess -= best
    return cuts


def size_schedule(rng, thorough):
    """target numbers of cells: dense at the low end, then exact multiples of the usual block sizes (and their two
    neighbours), then random ones — what the wrappers do with a result depends on its LENGTH (masking, counting,
    slicing, tables of len(area) rows), which the small exhaustive grids never stretch"""
    s = list(range(2, 130 if thorough else 34))
    if thorough:
        # (the cost of a case grows with the square of its size: most sizes stay under 2048, a few go to 4096)
        for k in range(1, 17):
            s += [64 * k, 256 * k] if k <= 8 else [64 * k]
        for b in (128, 256, 512, 1024, 2048, 100, 1000):
            s += [b - 1, b + 1]
        s += [200, 500, 2000, 3072, 4096]
        s += [rng.randint(130, 2048) for _ in range(8)]
    else:
        for b in (64, 100, 128, 256, 512, 1000, 1024):
            for k in (1, 2):
                s += [k * b - 1, k * b, k * b + 1]
        s += [256 * k for k in range(3, 9)]
        s += [rng.randint(34, 2048) for _ in range(4)]
    return sorted(set(s))


def sized_case(rng, m):
    """a grid, an outlet and cut cells such that the delineated area has exactly m >= 2 cells (no flow cycle);
    -> (nrows, ncols, fd, outlet, inlets, kind)"""
    kind = rng.choice(["comb", "comb", "tree", "snake"] if m <= 300 else ["comb", "comb", "tree"])
    if kind == "snake":
        nc = rng.choice([1, 2, 3, 5, 16])
        nr = -(-(m + rng.randint(0, 3)) // nc)
        fd = serpentine(nr, nc)
        order = snake_order(nr, nc)
        return nr, nc, fd, order[m - 1], [], kind          # the m first cells of the chain drain to the m-th
    if kind == "comb":
        # walks of a comb are up to nrows + ncols steps long: keep them under ~150 steps on the large ones
        nc = rng.choice([w for w in (2, 4, 8, 16, 32, 64) if w <= max(2, m) and (m <= 300 or m // w <= 120)])
        nr = -(-(m + rng.randint(0, 2 * nc)) // nc)
        fd, outlet = comb_grid(nr, nc, rng.random() < 0.5, rng.random() < 0.5)
    else:
        side = max(2, math.isqrt(m) + 1 + rng.randint(0, 3))
        nr, nc = side, -(-(m + rng.randint(0, side)) // side)
        fd, outlet = tree_grid(rng, nr, nc, keep=1.0)
        fd[outlet] = rng.choice([0, 7, 0, DIR2CODE[(1, 0)] if outlet // nc == nr - 1 else 0])     # no cycle through the root
        if rng.random() < 0.6:
            # an outlet in the middle of the stream: the smallest sub-trees that still hold m cells
            order, par, size = subtree_sizes(G(nr, nc, fd), outlet)
            cands = sorted((c for c in order if size[c] >= m), key=lambda c: size[c])[:4]
            outlet = rng.choice(cands)
    g = G(nr, nc, fd)
    cuts = prune_to_size(rng, g, outlet, m)
    how = rng.random()
    if how < 0.5:
        return nr, nc, fd, outlet, cuts, kind + "/inlets"
    # the same area without inlets: the cut cells stop draining (sink, invalid code); or a mix of both
    inlets = []
    for u in cuts:
        if how < 0.8 or rng.random() < 0.5:
            fd[u] = rng.choice([0, 7])
        else:
            inlets.append(u)
    return nr, nc, fd, outlet, inlets, kind + "/sinks"


def add_sized_cases(cs, rng, m, thorough):
    nr, nc, fd, outlet, inlets, kind = sized_case(rng, m)
    n = nr * nc
    g = G(nr, nc, fd)
    exp, cyc = g.area(outlet, inlets)
    size = len(exp)
    tag = "sized"
    j = cs.grid(nr, nc, fd)
    block = lambda b: b * (-(-(size + 1) // b))
    nvals = [size + 1, rng.choice([size + 2, 2 * size + 3, block(256), block(1024), n + 2])]
    if rng.random() < (0.25 if thorough else 0.12):
        nvals.append(None)                                    # the default buffer of 10^6
    for k, nval in enumerate(dict.fromkeys(nvals)):
        # the flow-path table (len(area) rows) with every buffer size on the smaller areas, once on the large ones
        cs.op(j, ["area", "py", outlet, inlets or None, nval, k == 0 or size <= 600], tag + "/" + kind)
    cs.op(j, ["area", "x", outlet, inlets, size + 1], tag + "/" + kind)
    cs.op(j, ["area", "x", outlet, inlets, size], tag + "/" + kind + "/short")
    # vector queries of that length, and of the whole grid
    cells = list(exp)
    rng.shuffle(cells)
    cs.op(j, ["down", "py", cells], tag)
    cs.op(j, ["up", "py", cells], tag)
    cs.op(j, ["down", "x", list(range(n))], tag)
    cs.op(j, ["up", "x", list(range(n))], tag)
    # a river of that many cells (the serpentine of the same size), exactly filling / one short of / inside the buffer
    wn = rng.choice([1, 2, 7, 16])
    wr = -(-(m + rng.randint(0, 2)) // wn)
    sfd = serpentine(wr, wn)
    order = snake_order(wr, wn)
    start = order[len(order) - m]
    j2 = cs.grid(wr, wn, sfd)
    rv = [m, m + 1, rng.choice([m - 1, block(256), 2 * m])]
    if rng.random() < (0.2 if thorough else 0.08):
        rv.append(None)
    for nval in dict.fromkeys(rv):
        cs.op(j2, ["river", "py" if nval is None or rng.random() < 0.5 else "x", start, nval, 0.0, 0.0, 1.0], tag + "/river")
    # flow paths over a list of that length handed straight to the kernel (walks far shorter than the list)
    if m <= 600 or thorough:
        fdc, oc = comb_grid(-(-m // 8), 8)
        j3 = cs.grid(-(-m // 8), 8, fdc)
        lst = [rng.randrange(len(fdc)) for _ in range(m)]
        cs.op(j3, ["fpath", "x", oc, lst], tag + "/fp=any")


def gen_inlets(rng, g, outlet, mode):
    n = g.n
    if mode == "none":
        return None
    if mode == "empty":
        return []
    if mode == "onchain":
        a, _ = g.area(outlet, [])
        pool = [c for c in a if c != outlet] or list(range(n))
        k = rng.randint(1, min(3, len(pool)))
        s = rng.sample(pool, k)
        if rng.random() < 0.3:
            s.append(rng.randrange(n))
        if rng.random() < 0.15:
            s.append(outlet)
        if rng.random() < 0.15:
            s.append(s[0])                     # a repeated inlet
        return s
    return [rng.randrange(n) for _ in range(rng.randint(1, 3))]


class Cases:
    """jobs grouped by grid: {"g": [nrows, ncols, fd], "ops": [...]} ; tags parallel to ops.
    Processed block by block (`sink`) so that memory stays bounded whatever the tier."""
    LIMIT = 12000

    def __init__(self, sink=None):
        self.jobs, self.tags, self.sink = [], [], sink

    def grid(self, nrows, ncols, fd):
        if self.sink is not None and len(self.jobs) >= self.LIMIT:
            self.flush()
        self.jobs.append({"g": [nrows, ncols, list(fd)], "ops": []})
        self.tags.append([])
        return len(self.jobs) - 1

    def op(self, j, op, tag):
        self.jobs[j]["ops"].append(op)
        self.tags[j].append(tag)

    def flush(self):
        if self.jobs and self.sink is not None:
            jobs, tags = self.jobs, self.tags
            self.jobs, self.tags = [], []
            self.sink(jobs, tags)


def add_grid_cases(cs, rng, nrows, ncols, fd, tag, api, full, py_share=0.0, outlets=None, inlet_modes=None, river_geom=None):
    """the standard battery for one grid"""
    n = nrows * ncols
    g = G(nrows, ncols, fd)
    j = cs.grid(nrows, ncols, fd)
    cells = list(range(n))
    cs.op(j, ["down", api, cells], tag)
    cs.op(j, ["up", api, cells], tag)
    if py_share and rng.random() < py_share:
        c = rng.randrange(n)
        cs.op(j, ["down", "py", [c]], tag + "/scalar")
        cs.op(j, ["up", "py", [c]], tag + "/scalar")
    outs = cells if outlets is None else outlets
    for o in outs:
        exp0, cyc0 = g.area(o, [])
        modes = inlet_modes or (["empty"] + (["onchain"] if len(exp0) > 1 else []) + (["random"] if full else []))
        for mode in modes:
            if mode == "all":
                subsets = [[c for c in cells if m >> c & 1] for m in range(1 << n)]
            else:
                subsets = [gen_inlets(rng, g, o, mode)]
            for inl in subsets:
                exp, cyc = g.area(o, inl or [])
                m = len(exp)
                nvals = [n + 2]
                if full or rng.random() < 0.25:
                    nvals += [m + 1, m] if m >= 1 else [1]
                if cyc:
                    nvals += [rng.choice([2, 3, n, 2 * n + 1, 3 * n + 5])]
                use_py = api == "py" or (py_share and rng.random() < py_share)
                for nval in dict.fromkeys(nvals):
                    if use_py:
                        cs.op(j, ["area", "py", o, inl, nval, True], tag + "/inl=" + mode)
                    else:
                        cs.op(j, ["area", "x", o, inl or [], nval], tag + "/inl=" + mode)
                # flow paths over the expected area in a scrambled order, and over arbitrary lists of cells
                if exp and not cyc and not use_py:
                    lst = list(exp)
                    rng.shuffle(lst)
                    cs.op(j, ["fpath", "x", o, lst], tag + "/fp=area")
                    if full or rng.random() < 0.3:
                        # the boundary of flowpath_length's hypothesis: a list of exactly as many cells as the chain of its
                        # first cell has steps to the outlet (the kernel then drops the last step: theorem
                        # flowpath_last_step_dropped), and one more (just enough)
                        c0 = rng.choice([c for c in exp if c != o] or [o])
                        e = expected_path(g, o, c0, n + 1)
                        if e[0] == "outlet":
                            for ln in (e[2] + e[3], e[2] + e[3] + 1):
                                cs.op(j, ["fpath", "x", o, [c0] + [rng.randrange(n) for _ in range(ln - 1)]],
                                      tag + "/fp=boundary")
        if full or rng.random() < 0.3:
            k = rng.randint(1, min(n, 6))
            lst = [rng.randrange(n) for _ in range(k)]
            cs.op(j, ["fpath", "x", o, lst], tag + "/fp=any")
    starts = cells if n <= 9 else rng.sample(cells, min(n, 6))
    if full or rng.random() < 0.2:
        # the chain itself, step by step through Catchment.downstream, against the functions the theorems are stated with
        s0 = rng.choice(starts)
        cs.op(j, ["chain", "py", rng.choice(outs), s0, rng.choice([1, 2, n, n + 3])], tag)
    for s in starts:
        xll, yll, csz = river_geom or (0.0, 0.0, 1.0)
        chain = 0
        c = s
        while c >= 0 and chain <= n + 1:
            c = g.down(c)
            chain += 1
        rapi = "py" if api == "py" or (py_share and rng.random() < py_share) else "x"
        for nval in dict.fromkeys([n + 3] + ([max(chain - 1, 1), chain] if full or rng.random() < 0.3 else [])):
            cs.op(j, ["river", rapi, s, nval, xll, yll, csz], tag)


def gen_histories(rng, nr, nc, fd, outlet):
    """short call histories on ONE Catchment object, all inside the property's quantifier (valid cells, codes
    from the usual alphabet). Steps: D delineate_area(outlet, inlets, nval) / F compute_flowpathlengths /
    S edit catchment.flowdir.data in place / G assign catchment.flowdir.data / O edit the grid handed to the
    constructor / U, W upstream, downstream / R delineate_river(catchment.flowdir) / K continue on a clone
    (the original is then wiped) / P pickle round trip / E overwrite in place what the previous call returned."""
    n = nr * nc
    g = G(nr, nc, fd)
    nv = n + 2
    H = []
    # candidates (outlet, inlets) by area size, to re-delineate with an area of EQUAL size
    bysize = {}
    cands = [(o, []) for o in range(n)] if n <= 36 else [(rng.randrange(n), []) for _ in range(30)]
    a0, _ = g.area(outlet, [])
    for u in a0[:8]:
        if u != outlet:
            cands.append((outlet, [u]))
    for o, inl in cands:
        a, cyc = g.area(o, inl)
        if a and not cyc:
            bysize.setdefault(len(a), []).append((o, inl, a))
    pairs = []
    for size, lst in bysize.items():
        for i in range(len(lst)):
            for j in range(len(lst)):
                if i != j and (lst[i][0] != lst[j][0] or lst[i][2] != lst[j][2]):
                    pairs.append((lst[i], lst[j]))
    rng.shuffle(pairs)
    for (o1, i1, _), (o2, i2, _) in pairs[:2]:
        H.append(("equal_size", [["D", o1, i1 or None, nv], ["F"], ["D", o2, i2 or None, nv], ["F"]]))
        H.append(("equal_size_scribble", [["D", o1, i1, nv], ["F"], ["E"], ["D", o2, i2, nv], ["E"], ["D", o2, i2, nv], ["F"]]))
    others = [rng.randrange(n) for _ in range(2)]
    # edit in place between calls
    cell = rng.choice([c for c in a0 if c != outlet] or list(range(n)))
    code = rng.choice(ALPHABET)
    H.append(("edit_in_place", [["D", outlet, None, nv], ["F"], ["S", cell, code], ["D", outlet, None, nv], ["F"],
                                ["S", cell, fd[cell]], ["D", outlet, [], nv], ["F"]]))
    H.append(("edit_then_table", [["D", outlet, None, nv], ["S", cell, code], ["F"]]))
    # a failed delineation in the middle (buffer one short, or a cycle through the outlet)
    if len(a0) >= 2:
        H.append(("failed_between", [["D", outlet, None, nv], ["F"], ["D", outlet, None, len(a0)], ["F"],
                                     ["D", others[0], None, nv], ["F"]]))
    # the accessors idxcells_area / isin: before any delineation, after a good one, after an edit (the stored area
    # stays), after a failed one (nothing stored), after the next good one
    # (the failed call has valid arguments — a buffer one short —: what a call with arguments off the grid or nval < 1
    # leaves behind is outside the property's quantifier)
    failed = [["D", outlet, None, len(a0)], ["A"], ["I", cell]] if len(a0) >= 2 else []
    H.append(("accessors", [["A"], ["I", cell], ["D", outlet, None, nv], ["A"], ["I", cell], ["I", outlet],
                            ["I", others[0]], ["S", cell, code], ["I", cell], ["A"]] + failed +
                           [["D", others[0], None, nv], ["A"], ["I", others[0]], ["I", cell]]))
    # queries, with the returned arrays overwritten in between
    cells = [rng.randrange(n) for _ in range(rng.randint(1, 4))]
    H.append(("queries", [["U", cells], ["E"], ["W", cells], ["E"], ["U", cells], ["S", cell, code], ["U", cells], ["W", cells]]))
    # clone / pickle
    H.append(("clone", [["D", outlet, None, nv], ["F"], ["K"], ["F"], ["D", others[1], None, nv], ["F"], ["W", cells]]))
    H.append(("pickle", [["D", outlet, None, nv], ["P"], ["F"], ["S", cell, code], ["P"], ["D", outlet, None, nv], ["F"]]))
    # river before / after an edit, the caller's table overwritten
    start = rng.choice(a0) if a0 else rng.randrange(n)
    H.append(("river", [["R", start, n + 3], ["E"], ["R", start, n + 3], ["S", cell, code], ["R", start, n + 3],
                        ["R", start, max(1, len(a0) // 2)]]))
    # the grid handed to the constructor is not the catchment's grid
    H.append(("original_grid", [["O", cell, code], ["D", outlet, None, nv], ["F"], ["O", outlet, 0], ["W", [cell, outlet]]]))
    # the whole grid re-assigned (same shape)
    fd2, o2 = tree_grid(rng, nr, nc)
    H.append(("regenerated_grid", [["D", outlet, None, nv], ["F"], ["G", fd2], ["D", outlet, None, nv], ["F"],
                                   ["D", o2, None, nv], ["F"], ["U", cells]]))
    return H


def gen_cases(ctx, cs):
    rng = ctx.rng
    th = ctx.thorough
    # ---- exhaustive small grids
    import itertools
    for shape in [(1, 1), (1, 2), (2, 1)]:
        for fd in itertools.product(ALPHABET, repeat=shape[0] * shape[1]):
            add_grid_cases(cs, rng, shape[0], shape[1], fd, f"exh{shape[0]}x{shape[1]}", "x", True, py_share=0.3,
                           inlet_modes=["all"])
    # 2x2: all 10^4 grids; every outlet; inlet subsets: all 16 for a share of the grids, else empty + one on the chain
    share22 = 0.3 if th else 0.01
    for fd in itertools.product(ALPHABET, repeat=4):
        allsub = rng.random() < share22
        add_grid_cases(cs, rng, 2, 2, fd, "exh2x2", "x", allsub, py_share=0.02 if th else 0.004,
                       inlet_modes=["all"] if allsub else None)
    if th:
        # 1x3, 3x1 complete; 2x3 / 3x2 over the full alphabet, sampled; 3x3 over a reduced alphabet, sampled
        for shape in [(1, 3), (3, 1)]:
            for fd in itertools.product(ALPHABET, repeat=3):
                add_grid_cases(cs, rng, shape[0], shape[1], fd, f"exh{shape[0]}x{shape[1]}", "x", True, py_share=0.05,
                               inlet_modes=["all"])
        for shape in [(2, 3), (3, 2)]:
            for _ in range(30000):
                fd = [rng.choice(ALPHABET) for _ in range(6)]
                add_grid_cases(cs, rng, shape[0], shape[1], fd, f"smp{shape[0]}x{shape[1]}", "x", False, py_share=0.01)
        red = [1, 4, 8, 64, 128, 0]
        for _ in range(15000):
            fd = [rng.choice(red) for _ in range(9)]
            add_grid_cases(cs, rng, 3, 3, fd, "smp3x3", "x", False, py_share=0.01)
    # ---- structured
    shapes = [(1, 1), (1, 5), (5, 1), (2, 2), (2, 5), (5, 2), (3, 3), (4, 6), (6, 4), (1, 9), (9, 1), (7, 2), (2, 7), (8, 8)]
    for (nr, nc) in shapes:
        for code in [1, 2, 4, 8, 16, 32, 64, 128]:
            add_grid_cases(cs, rng, nr, nc, [code] * (nr * nc), "uniform", "py", False,
                           outlets=sorted({0, nr * nc - 1, rng.randrange(nr * nc)}))
        fd = serpentine(nr, nc)
        add_grid_cases(cs, rng, nr, nc, fd, "serpentine", "py", True, outlets=sorted({nr * nc - 1, rng.randrange(nr * nc)}))
        add_grid_cases(cs, rng, nr, nc, fd, "serpentine", "x", True, outlets=[nr * nc - 1])
    maxdim = 12 if th else 8
    ntree = ctx.scale(500, 4000)
    for it in range(ntree):
        r = rng.random()
        if r < 0.25:
            nr, nc = rng.randint(1, maxdim), rng.choice([1, 2])
        elif r < 0.35:
            nr, nc = rng.choice([1, 2]), rng.randint(1, maxdim)
        else:
            nr, nc = rng.randint(1, maxdim), rng.randint(1, maxdim)
        fd, outlet = tree_grid(rng, nr, nc, keep=rng.choice([1.0, 0.9, 0.6]))
        n = nr * nc
        kind = "tree"
        g0 = G(nr, nc, fd)
        a0, _ = g0.area(outlet, [])
        v = rng.random()
        if v < 0.2 and len(a0) > 1:
            # cycle through the outlet: the outlet drains to a neighbour that drains (directly or not) to it
            r0, k0 = divmod(outlet, nc)
            cands = [u for u in a0 if u != outlet and max(abs(u // nc - r0), abs(u % nc - k0)) == 1]
            if cands:
                u = rng.choice(cands)
                fd[outlet] = DIR2CODE[(u // nc - r0, u % nc - k0)]
                kind = "cycle_outlet"
        elif v < 0.35 and len(a0) > 2:
            # cycle off the outlet: some tree cell is redirected to one of its own tributaries
            u = rng.choice([c for c in a0 if c != outlet])
            ups = g0.up(u)
            if ups:
                w = rng.choice(ups)
                fd[u] = DIR2CODE[(w // nc - u // nc, w % nc - u % nc)]
                kind = "cycle_off"
        elif v < 0.5:
            fd[outlet] = rng.choice([0, 7, 1, 4, 16, 64])
        api = "py" if rng.random() < 0.5 else "x"
        geom = (rng.choice([0.0, -3.5, 1e3]), rng.choice([0.0, 12.25, -7.0]), rng.choice([1.0, 0.25, 30.0]))
        others = [rng.randrange(n) for _ in range(2)]
        add_grid_cases(cs, rng, nr, nc, fd, kind, api, rng.random() < 0.5, outlets=list(dict.fromkeys([outlet] + others)),
                       inlet_modes=["none" if api == "py" else "empty", "onchain", "onchain"], river_geom=geom)
    # ---- random codes
    for it in range(ctx.scale(700, 6000)):
        nr, nc = rng.randint(1, maxdim), rng.randint(1, maxdim)
        alpha = ALPHABET + ([3, -1, 255, 256, 129, 5] if rng.random() < 0.3 else [])
        fd = [rng.choice(alpha) for _ in range(nr * nc)]
        n = nr * nc
        add_grid_cases(cs, rng, nr, nc, fd, "random", "py" if rng.random() < 0.4 else "x", False,
                       outlets=[rng.randrange(n) for _ in range(2)])
    # ---- areas, rivers and cell lists of a prescribed LENGTH (block-size boundaries), on grids up to a few thousand cells
    cs.flush()
    for m in size_schedule(rng, th):
        add_sized_cases(cs, rng, m, th)
    cs.flush()
    # ---- histories on one object
    for it in range(ctx.scale(350, 3000)):
        r = rng.random()
        if r < 0.3:
            nr, nc = rng.randint(1, 6), rng.choice([1, 2])
        else:
            nr, nc = rng.randint(1, 6), rng.randint(1, 6)
        fd, outlet = tree_grid(rng, nr, nc, keep=rng.choice([1.0, 0.9, 0.7]))
        if rng.random() < 0.3:
            fd[outlet] = rng.choice([0, 7, 1, 4, 16, 64])
        j = cs.grid(nr, nc, fd)
        for name, steps in gen_histories(rng, nr, nc, fd, outlet):
            cs.op(j, ["hist", "py", steps], "hist/" + name)
    # ---- malformed
    for it in range(ctx.scale(150, 1000)):
        nr, nc = rng.randint(1, 5), rng.randint(1, 5)
        n = nr * nc
        fd, outlet = tree_grid(rng, nr, nc)
        j = cs.grid(nr, nc, fd)
        bad = [-1, n, n + 1, -n, 10 ** 9, -2, n + nc, rng.randint(n, 5 * n + 3), -rng.randint(1, 5 * n)]
        api = rng.choice(["py", "x"])
        b = rng.choice(bad)
        mix = [rng.randrange(n) for _ in range(rng.randint(0, 3))]
        pos = rng.randint(0, len(mix))
        cells = mix[:pos] + [b] + mix[pos:]
        cs.op(j, ["down", api, cells], "malformed")
        cs.op(j, ["up", api, cells], "malformed")
        cs.op(j, ["area", api, rng.choice(bad), [], n + 2], "malformed/outlet")
        cs.op(j, ["area", api, outlet, mix + [rng.choice(bad)], n + 2], "malformed/inlet")
        cs.op(j, ["area", api, rng.choice(bad), [rng.choice(bad)], n + 2], "malformed/outlet+inlet")
        cs.op(j, ["area", "x", outlet, [], 0], "malformed/nval0")
        cs.op(j, ["area", "x", rng.choice(bad), [], 0], "malformed/nval0+outlet")
        cs.op(j, ["area", api, outlet, [], 1], "malformed/nval1")
        cs.op(j, ["area", api, outlet, [], 2], "malformed/nval2")
        cs.op(j, ["river", "py", rng.choice(bad), n + 2, 0.0, 0.0, 1.0], "malformed/river")
        cs.op(j, ["river", "py", outlet, 0, 0.0, 0.0, 1.0], "malformed/river_nval0")
        cs.op(j, ["fpath", "x", outlet, cells], "malformed/fpath")
        cs.op(j, ["fpath", "x", rng.choice(bad), mix + [outlet]], "malformed/fpath_outlet")
        if it < ctx.scale(12, 40):
            # the default buffer size (10^6) only on grids where nothing cycles (a cycle would fill the buffer:
            # the real code copes, but 10^6-row replies are not worth the time)
            fd2 = list(fd)
            fd2[outlet] = 0
            g2 = G(nr, nc, fd2)
            j2 = cs.grid(nr, nc, fd2)
            cs.op(j2, ["area", "py", outlet, None, None, True], "default_nval")
            ends = []
            for c0 in range(n):
                c, k = c0, 0
                while c >= 0 and k <= n:
                    c, k = g2.down(c), k + 1
                if c < 0:
                    ends.append(c0)
            if ends:
                cs.op(j2, ["river", "py", rng.choice(ends), None, 0.0, 0.0, 1.0], "default_nval")


# =============================================================================================
# canonical forms, model requests
def split_flag(rep):
    """'ok:[..] cyc' -> ('ok:[..]', 'cyc'); the flag is the model's own statement that the property leaves the outcome
    open here (a flow cycle through the outlet / on the chain): error or bounded result, nothing more"""
    for f in (" cyc", " acyc"):
        if rep.endswith(f):
            return rep[:-len(f)], f.strip()
    return rep, None


def open_outcome(r, nval, key="ok"):
    """what is compared where the outcome is open: the call came back (it did: we have a reply) with an error or with
    at most nval entries"""
    if "err" in r or key not in r:
        return "error-or-bounded"
    return "error-or-bounded" if len(r[key]) <= max(nval, 0) else f"unbounded:{len(r[key])}>{nval}"


def err_only(sx):
    """error classes, codes and texts are not observables: rejected vs accepted only"""
    return "err" if sx.startswith("err") else sx


def sum_ulps(nsteps):
    """tolerance for a length that is a rounded sum of `nsteps` step lengths: the kernel adds them one by one, an
    equivalent implementation may use a closed form (#orth + #diag * sqrt 2) or another order — each of the nsteps - 1
    additions rounds once, so two correct results can differ by about one ulp per step (4 ulp at least)"""
    return max(4, nsteps)


def fpath_rows_canon(rows, mrows, end_col, len_col, m_end, m_len, m_cap, m_n):
    """rows of a flow-path table vs the model's; rows whose walk the model reports as capped (no outlet, no exit
    within nval iterations: a cycle, or a list the property says nothing about) are only required to be finite"""
    a, b = [], []
    for x, m in zip(rows, mrows):
        if m[m_cap] == "1":
            fin = math.isfinite(x[len_col]) and x[len_col] >= 0
            a.append("capped:" + ("bounded" if fin else repr(x[len_col])))
            b.append("capped:bounded")
        else:
            a.append(f"{int(x[end_col])},{C.f2h(x[len_col])}")
            b.append(f"{m[m_end]},{canon_float(x[len_col], C.h2f(m[m_len]), sum_ulps(int(m[m_n])))}")
    return ";".join(a), ";".join(b)


def canon_float(impl, model, ulps=4):
    """impl's hex when the two doubles are within `ulps`, else the model's"""
    return C.f2h(impl) if C.ulp_diff(impl, model) <= ulps else C.f2h(model)


def case_of(job, op):
    return {"nrows": job["g"][0], "ncols": job["g"][1], "fd": job["g"][2], "op": op}


def body(ctx):
    state = {"worker": Worker(ctx.native), "bad": {}, "etab": error_table(C.REPO), "grids": 0, "rng": ctx.rng}
    count_check(ctx)
    cs = Cases(sink=lambda jobs, tags: process_block(ctx, state, jobs, tags))
    try:
        # ---- replay / corpus first
        prior = []
        if getattr(ctx, "replay", None) and isinstance(ctx.replay.get("case"), dict) and "fd" in ctx.replay["case"]:
            prior.append(ctx.replay["case"])
        cdir = C.ROOT / "corpus" / PID
        if cdir.is_dir():
            for f in sorted(cdir.glob("*.json")):
                prior.append(json.loads(f.read_text()))
        for case in prior:
            j = cs.grid(case["nrows"], case["ncols"], case["fd"])
            cs.op(j, case["op"], "corpus")
        gen_cases(ctx, cs)
        cs.flush()
    finally:
        state["worker"].stop()
    ctx.extra["rule"] = __doc__.split("Cases:")[1].strip()
    ctx.extra["grids"] = state["grids"]
    ctx.extra["ops_not_returning"] = dict(state["bad"])
    ctx.extra["error_table"] = {str(k): v for k, v in state["etab"].items()}
    ctx.assumptions += [
        "scipy.ndimage.binary_fill_holes is a parameter of the model (theorem: any fill that keeps the mask contains the area)",
        "theorems are exact (Int / commutative ring with sqrt 1 = 1, sqrt 0 = 0, instantiated at the reals); IEEE rounding of "
        "the accumulated lengths is covered by the Float correspondence (within max(4, #steps) ulp, in practice bit-equal)",
        "flow-direction arrays are int64 and C-contiguous, as Catchment.__init__ / the Cython wrappers enforce",
        "the flow-path theorem is about start cells whose chain first meets the outlet in fewer steps than cells were handed "
        "to the kernel — proved to hold for every cell of a delineated area (flowpath_on_area) — or leaves the grid before; "
        "for other lists of cells the kernel's bounded result is only modelled (correspondence), not characterised",
    ]


def process_block(ctx, state, jobs, tags):
    """real code (worker) -> model (driver) -> comparison -> oracle, for one block of jobs"""
    cs_jobs, cs_tags = jobs, tags
    state["grids"] += len(jobs)
    results = run_real(state, jobs)
    etab = state["etab"]
    fdtok = {}
    reqs, meta = [], []            # model requests and what to do with the reply

    def gtok(job):
        k = id(job)
        if k not in fdtok:
            fdtok[k] = f"{job['g'][0]} {job['g'][1]} {C.ilist(job['g'][2])}"
        return fdtok[k]

    def kind_of(r):
        return etab.get(r["err"], "err") if "err" in r else None

    def generic(impl):
        """impl reply is an error of unresolvable kind -> the model's kind is not compared either"""
        return impl == "err:err"

    graphs = {}
    for job, tags, res in zip(cs_jobs, cs_tags, results):
        nrows, ncols, fd = job["g"]
        n = nrows * ncols
        g = graphs.get(id(job))
        if g is None:
            g = graphs[id(job)] = G(nrows, ncols, fd)
        for op, tag, r in zip(job["ops"], tags, res):
            kind = op[0]
            case = case_of(job, op)
            if "skipped" in r:
                ctx.count((kind, "skipped"), False, f"{kind}/skipped_after_hang")
                continue
            if "hang" in r or "crash" in r:
                what = "hang" if "hang" in r else "crash"
                ctx.count((kind, gtok(job), str(op)), False, f"{kind}/{what}")
                ctx.finding(f"{what}/{kind}", f"the real code did not return ({what}) — the property demands an error or a bounded result",
                            case)
                continue
            if kind == "down":
                oracle_down(ctx, g, op, r, case, tag)
                impl = "ok:" + C.ilist(r["ok"]) if "ok" in r else "err"
                reqs.append(f"down {gtok(job)} {C.ilist(op[2])}")
                meta.append(("str", case, impl))
            elif kind == "up":
                oracle_up(ctx, g, op, r, case, tag)
                impl = "ok:" + ";".join(C.ilist(sorted(row)) for row in r["ok"]) if "ok" in r else "err"
                reqs.append(f"up {gtok(job)} {C.ilist(op[2])}")
                meta.append(("up", case, impl))
            elif kind == "area":
                outlet, inlets, nval = op[2], op[3] or [], op[4]
                nv = 1000000 if nval is None else nval
                oracle_area(ctx, g, op, r, case, tag, nv)
                impl = "ok:" + C.ilist(sorted(r["ok"])) if "ok" in r else "err"
                # the Python call leaves idxinlets / nval at their defaults: the model does the same (delineateAreaPy)
                itok = "none" if op[1] == "py" and op[3] is None else C.ilist(inlets)
                ntok = "none" if op[1] == "py" and nval is None else str(nv)
                reqs.append(f"area {gtok(job)} {outlet} {itok} {ntok}")
                meta.append(("area", case, (impl, r, nv)))
                if "filled" in r:
                    reqs.append(f"fillmask {nrows} {ncols} {C.ilist(r['ok'])}")
                    meta.append(("fillmask", case, r))
                cyc_ = g.area(outlet, inlets)[1] if valid(n, outlet) and all(valid(n, c) for c in inlets) else True
                if "ok" in r and not cyc_ and n <= 30 and state["rng"].random() < (1.0 if n <= 4 else 0.1):
                    # the area as the property words it (brute force over the grid, theorem delineate_perm_reachArea)
                    reqs.append(f"reach {gtok(job)} {outlet} {C.ilist(inlets)}")
                    meta.append(("reach", case, r))
                if "fpath_err" in r:
                    ctx.count(("fpath", gtok(job), str(op)), False, "fpath/error")
                    if not cyc_ and all(expected_path(g, outlet, c, len(r["ok"]) - 1)[0] != "cap" for c in r["ok"]):
                        ctx.finding("fpath/error_on_area", "compute_flowpathlengths raises on a delineated area none of whose "
                                    "chains runs into a cycle", {**case, "impl": r["fpath_err"]})
                    reqs.append(f"fpath {gtok(job)} {outlet} {C.ilist(r['ok'])}")
                    meta.append(("fpath_err", case, r["fpath_err"]))
                if "fpath" in r:
                    rows = r["fpath"]
                    cells = [int(x[0]) for x in rows]
                    oracle_fpath(ctx, g, outlet, cells, rows, case, tag + "/fp=py", natural=not cyc_)
                    if cells != r["ok"]:
                        ctx.finding("fpath/start_column", "flowpathlengths does not list the cells of idxcells_area in order", case)
                    reqs.append(f"fpath {gtok(job)} {outlet} {C.ilist(cells)}")
                    meta.append(("fpath", case, rows))
            elif kind == "fpath":
                outlet, cells = op[2], op[3]
                if "ok" in r:
                    oracle_fpath(ctx, g, outlet, cells, r["ok"], case, tag, natural=tag.endswith("fp=area"))
                    reqs.append(f"fpath {gtok(job)} {outlet} {C.ilist(cells)}")
                    meta.append(("fpath", case, r["ok"]))
                    if ncols != 2 and state["rng"].random() < 0.1:
                        # off 2-column grids the step classification of the pinned kernel (isDiagPinned) gives the same
                        # table (theorem pinned_wrong_only_on_two_columns): run it against the real code as well
                        reqs.append(f"fpath_pinned {gtok(job)} {outlet} {C.ilist(cells)}")
                        meta.append(("fpath", case, r["ok"]))
                else:
                    ctx.count(("fpath", gtok(job), str(op)), False, "fpath/error")
                    reqs.append(f"fpath {gtok(job)} {outlet} {C.ilist(cells)}")
                    meta.append(("fpath_err", case, r))
            elif kind == "chain":
                outlet, start, nn = op[2], op[3], op[4]
                oracle_chain(ctx, g, op, r, case, tag)
                reqs.append(f"chain {gtok(job)} {outlet} {start} {nn}")
                meta.append(("chain", case, r))
            elif kind == "hist":
                mreq, mmeta = history_steps(ctx, etab, nrows, ncols, fd, op, r, case, tag)
                reqs.append(f"hist {gtok(job)} {';'.join(mreq)}")
                meta.append(("hist", case, mmeta))
            elif kind == "river":
                start, nval, xll, yll, csz = op[2:7]
                nv = 1000000 if nval is None else nval
                oracle_river(ctx, g, op, r, case, tag, nv)
                reqs.append(f"river {gtok(job)} {C.f2h(xll)} {C.f2h(yll)} {C.f2h(csz)} {start} {nv}")
                meta.append(("river", case, (r, nv)))

    replies = ctx.lean.ask(reqs)
    # second phase for hole filling: scipy fills the mask the model built
    from scipy.ndimage import binary_fill_holes
    import numpy as np
    reqs2, meta2 = [], []
    for req, (what, case, impl), rep in zip(reqs, meta, replies):
        if what == "str":
            ctx.compare("C06 " + req.split(" ")[0], case, impl, err_only(rep))
        elif what == "area":
            istr, r, nv = impl
            rep, flag = split_flag(rep)
            if flag == "cyc":
                ctx.compare("C06 area (cycle through the outlet: error or bounded result)", case, open_outcome(r, nv),
                            "error-or-bounded")
            else:
                if rep.startswith("ok:"):
                    rep = "ok:" + C.ilist(sorted(int(t) for t in C.parse_list(rep[3:])))
                ctx.compare("C06 area", case, istr, err_only(rep))
        elif what == "up":
            if rep.startswith("ok:"):
                rows = rep[3:].strip("[]").split(";") if rep != "ok:[]" else []
                rep = "ok:" + ";".join(C.ilist(sorted(int(t) for t in row.split(","))) for row in rows)
            ctx.compare("C06 up", case, impl, err_only(rep))
        elif what == "reach":
            ctx.compare("C06 reach (area = brute-force reachability set)", case, C.ilist(sorted(impl["ok"])),
                        C.ilist(sorted(int(t) for t in C.parse_list(rep))))
        elif what == "chain":
            r = impl
            if "ok" not in r:
                ctx.compare("C06 chain", case, "err", rep)
                continue
            outlet, start, nn = case["op"][2], case["op"][3], case["op"][4]
            cells = r["ok"]
            # how many of the first nn flow-path iterations go on, from the chain the real code gave
            goes = 0
            while goes < nn and goes + 1 < len(cells) and cells[goes + 1] != outlet:
                goes += 1
            mcells, msteps, mlast, mgoes, mlen = rep.split(" ")
            a = f"{C.ilist(cells[:nn])} {cells[:nn][-1] if cells[:nn] else start} {goes}"
            b = f"{mcells} {mlast} {mgoes}"
            ctx.compare("C06 chain (chainCells / chainCell / goesOnCount vs iterated Catchment.downstream)", case, a, b)
            if "river" in r and r["river"] == cells[:nn] and len(cells) <= nn:
                # the chain ended within nn cells: the river's last distance is the length of the chain's steps
                ctx.compare("C06 chain length (pathLength of chainSteps vs the river's last distance)", case,
                            C.f2h(r["dist"]), canon_float(r["dist"], C.h2f(mlen), sum_ulps(len(cells))))
        elif what == "fillmask":
            r = impl
            if rep == "none":
                if r["filled"] != r["ok"]:
                    ctx.disagree("C06 filled: empty area, filled differs from area", {"request": case, "impl": r["filled"]})
                continue
            i0, j0, nr, nc, mask = rep.split(" ")
            rows = [[int(t) for t in row.split(",")] for row in mask.strip("[]").split(";")]
            filled = binary_fill_holes(np.array(rows, dtype=int))
            mtok = "[" + ";".join(",".join("1" if v else "0" for v in row) for row in filled.tolist()) + "]"
            reqs2.append(f"filled {case['nrows']} {case['ncols']} {C.ilist(r['ok'])} {mtok}")
            meta2.append((case, r))
        elif what == "fpath":
            rows = impl
            mrows = [t.split(",") for t in rep.strip("[]").split(";")] if rep != "[]" else []
            if len(rows) == len(mrows):
                a, b = fpath_rows_canon(rows, mrows, 1, 2, 0, 1, 4, 2)
            else:
                a, b = f"{len(rows)} rows", f"{len(mrows)} rows"
            ctx.compare("C06 fpath", case, a, b)
        elif what == "fpath_err":
            # an error instead of a table: one of the two open outcomes when some walk is capped (a cycle), else a mismatch
            mrows = [t.split(",") for t in rep.strip("[]").split(";")] if rep != "[]" else []
            ctx.compare("C06 fpath (error)", case, "err", "err" if any(m[4] == "1" for m in mrows) else "table")
        elif what == "hist":
            parts = rep.split("|")
            if len(parts) != len(impl):
                ctx.compare("C06 hist", case, f"{len(impl)} replies", rep[:300])
                continue
            open_state = False
            for (i, skind, istr, rows, raw, nv), mrep in zip(impl, parts):
                c2 = {**case, "step": i}
                mrep, flag = split_flag(mrep)
                istr = err_only(istr)
                if skind == "D":
                    # after a delineation whose outcome the property leaves open (cycle through the outlet) the object
                    # may hold an area or none: what compute_flowpathlengths then does is open too, until the next D;
                    # likewise after a call with arguments outside the quantifier (cells off the grid, nval < 1)
                    st_ = case["op"][2][i]
                    n_ = case["nrows"] * case["ncols"]
                    open_state = flag == "cyc" or not (valid(n_, st_[1]) and all(valid(n_, c) for c in (st_[2] or []))
                                                       and st_[3] >= 1)
                if skind in ("F", "A", "I") and open_state:
                    continue
                if flag == "cyc" and skind in ("D", "R"):
                    ctx.compare("C06 hist/" + skind + " (flow cycle: error or bounded result)", c2, open_outcome(raw, nv),
                                "error-or-bounded")
                    continue
                if mrep.startswith("err:"):
                    mrep = "err"
                elif skind in ("D", "A"):
                    mrep = "ok:" + C.ilist(sorted(int(t) for t in C.parse_list(mrep[3:])))
                elif skind == "U":
                    rr = mrep[3:].strip("[]").split(";") if mrep != "ok:[]" else []
                    mrep = "ok:" + ";".join(C.ilist(sorted(int(t) for t in row.split(","))) for row in rr)
                elif skind == "F":
                    mrows = [t.split(",") for t in mrep[3:].strip("[]").split(";")] if mrep != "ok:[]" else []
                    mrows.sort(key=lambda m: int(m[0]))
                    if rows is None:
                        # the real object raised: open when some walk is capped
                        if any(m[3] == "1" for m in mrows):
                            mrep = "err"
                    elif len(mrows) == len(rows) and [int(x[0]) for x in rows] == [int(m[0]) for m in mrows]:
                        istr, mrep = fpath_rows_canon(rows, mrows, 1, 2, 1, 2, 3, 4)
                elif skind == "R" and rows is not None:
                    mrows = [t.split(",") for t in mrep[3:].strip("[]").split(";")] if mrep != "ok:[]" else []
                    if len(mrows) == len(rows):
                        mrep = "ok:" + ";".join(f"{m[0]},{canon_float(x[1], C.h2f(m[1]), sum_ulps(k))},{m[2]},{m[3]}"
                                                for k, (x, m) in enumerate(zip(rows, mrows)))
                ctx.compare("C06 hist/" + skind, c2, istr, mrep)
        elif what == "river":
            r, nv = impl
            rep, flag = split_flag(rep)
            if flag == "cyc":
                ctx.compare("C06 river (chain runs into a cycle: error or bounded result)", case, open_outcome(r, nv),
                            "error-or-bounded")
                continue
            if "err" in r:
                ctx.compare("C06 river", case, "err", err_only(rep))
                continue
            rows = r["ok"]
            if not rep.startswith("ok:"):
                ctx.compare("C06 river", case, "ok", rep)
                continue
            mrows = [t.split(",") for t in rep[3:].strip("[]").split(";")] if rep != "ok:[]" else []
            a = ";".join(f"{int(x[0])},{C.f2h(x[1])},{int(x[2])},{int(x[3])},{C.f2h(x[4])},{C.f2h(x[5])}" for x in rows)
            if len(rows) == len(mrows):
                b = ";".join(f"{m[0]},{canon_float(x[1], C.h2f(m[1]), sum_ulps(k))},{m[2]},{m[3]},{canon_float(x[4], C.h2f(m[4]))},"
                             f"{canon_float(x[5], C.h2f(m[5]))}" for k, (x, m) in enumerate(zip(rows, mrows)))
            else:
                b = rep[3:]
            ctx.compare("C06 river", case, a, b)
    replies2 = ctx.lean.ask(reqs2)
    for (case, r), rep in zip(meta2, replies2):
        ctx.compare("C06 filled", case, C.ilist(sorted(r["filled"])), C.ilist(sorted(int(t) for t in C.parse_list(rep))))
        oracle_filled(ctx, case, r)


def history_steps(ctx, etab, nrows, ncols, fd0, op, r, case, tag):
    """oracle on every step of a history (evaluated on the state the object has NOW) and the model request.
    -> (model step tokens, [(step index, kind, canonical impl reply, rows or None)])"""
    steps, res = op[2], r.get("steps", [])
    cur = list(fd0)
    g = G(nrows, ncols, cur)
    outlet, area, area_ok, state_open = None, None, False, False
    mreq, mmeta = [], []
    n = nrows * ncols
    if len(res) != len(steps):
        ctx.disagree("C06 hist: the worker returned a wrong number of step replies", {"request": case})
        return ["F"], []
    real_ctx = ctx

    class Quiet:
        """after a step whose effect on "the grid of the catchment" the property does not fix (an edit of the grid
        handed to the constructor, a clone whose source is wiped, a pickle round trip) the oracle is silent: the
        answers are still compared with the model (strict), but no failing input is claimed"""
        def count(self, *a, **k):
            real_ctx.count(*a, **k)

        def finding(self, *a, **k):
            pass

        def disagree(self, *a, **k):
            real_ctx.disagree(*a, **k)
    for i, (st, rr) in enumerate(zip(steps, res)):
        k = st[0]
        c2 = {**case, "step": i}
        name = tag.split("/")[-1]
        if k in ("O", "K", "P"):
            ctx = Quiet()
        if k == "D":
            o, inl, nval = st[1], st[2] or [], st[3]
            outlet = o
            oracle_area(ctx, g, ["area", "py", o, inl, nval], rr, c2, f"hist.{name}", nval)
            area_ok = "ok" in rr
            area = rr.get("ok")
            # a call with arguments outside the quantifier (cells off the grid, nval < 1): what the object holds afterwards
            # is not the property's business (rejected before or after the old area is dropped) — until the next good call
            state_open = not (valid(n, o) and all(valid(n, c) for c in inl) and nval >= 1)
            if "filled" in rr:
                oracle_filled(ctx, c2, rr)
            istr = "ok:" + C.ilist(sorted(rr["ok"])) if "ok" in rr else "err"
            mreq.append(f"D:{o}:{C.ilist(inl)}:{nval}")
            mmeta.append((i, "D", istr, None, rr, nval))
        elif k == "F":
            if "ok" in rr:
                rows = sorted(rr["ok"], key=lambda x: x[0])
                cells = [int(x[0]) for x in rr["ok"]]
                if state_open:
                    pass
                elif area_ok and outlet is not None:
                    if cells != area:
                        ctx.finding("fpath/start_column", "flowpathlengths does not list the cells of the area delineated last, "
                                    "in order (a table of an earlier delineation?)", {**c2, "cells": cells, "area": area})
                    else:
                        # a delineated area of an unedited grid is checked as such; after an edit only the chain facts hold
                        exp_, cyc_ = g.area(outlet, [])
                        oracle_fpath(ctx, g, outlet, cells, rr["ok"], c2, f"hist.{name}/fp=hist",
                                     natural=False)
                else:
                    ctx.finding("fpath/table_without_area", "compute_flowpathlengths answers although the last delineation "
                                "failed (or none was made)", c2)
                istr = "ok:" + ";".join(f"{int(x[0])},{int(x[1])},{C.f2h(x[2])}" for x in rows)
                mmeta.append((i, "F", istr, rows, rr, 0))
            else:
                ctx.count(("hist", str(c2)), False, "hist/F/error")
                if area_ok and "err" in rr and not state_open:
                    exp_, cyc_ = g.area(outlet, []) if valid(n, outlet) else ([], True)
                    if not cyc_ and area and all(expected_path(g, outlet, c, len(area) - 1)[0] != "cap" for c in area):
                        ctx.finding("fpath/error_on_area", "compute_flowpathlengths raises on a delineated area none of whose "
                                    "chains runs into a cycle", {**c2, "impl": rr})
                mmeta.append((i, "F", "err", None, rr, 0))
            mreq.append("F")
        elif k in ("S", "G", "O", "K", "P", "E"):
            if "err" in rr:
                ctx.disagree(f"C06 hist: step {k} raised", {"request": c2, "impl": rr})
            if k == "S":
                cur[st[1]] = st[2]
                g = G(nrows, ncols, cur)
                mreq.append(f"S:{st[1]}:{st[2]}")
                mmeta.append((i, "S", "-", None, rr, 0))
            elif k == "G":
                cur = list(st[1])
                g = G(nrows, ncols, cur)
                mreq.append(f"G:{C.ilist(cur)}")
                mmeta.append((i, "G", "-", None, rr, 0))
        elif k == "W":
            oracle_down(ctx, g, ["down", "py", st[1]], rr, c2, f"hist.{name}")
            istr = "ok:" + C.ilist(rr["ok"]) if "ok" in rr else "err"
            mreq.append(f"W:{C.ilist(st[1])}")
            mmeta.append((i, "W", istr, None, rr, 0))
        elif k == "U":
            oracle_up(ctx, g, ["up", "py", st[1]], rr, c2, f"hist.{name}")
            istr = "ok:" + ";".join(C.ilist(sorted(row)) for row in rr["ok"]) if "ok" in rr else "err"
            mreq.append(f"U:{C.ilist(st[1])}")
            mmeta.append((i, "U", istr, None, rr, 0))
        elif k == "A":
            # the accessor answers with the area the last delineation returned, and raises when it failed / none was made
            ctx.count(("hist", str(c2)), "ok" in rr, "hist/A/" + ("stored" if area_ok else "none"))
            if state_open:
                pass
            elif "ok" in rr and not area_ok:
                ctx.finding("area/accessor_without_area", "idxcells_area answers although the last delineation failed "
                            "(or none was made)", c2)
            elif "ok" in rr and rr["ok"] != area:
                ctx.finding("area/accessor_not_last_area", "idxcells_area is not the area the last delineation returned",
                            {**c2, "got": rr["ok"], "area": area})
            elif "ok" not in rr and area_ok:
                ctx.finding("area/accessor_raises", "idxcells_area raises although the last delineation succeeded", c2)
            mreq.append("A")
            mmeta.append((i, "A", "ok:" + C.ilist(sorted(rr["ok"])) if "ok" in rr else "err", None, rr, 0))
        elif k == "I":
            ctx.count(("hist", str(c2)), "ok" in rr, "hist/I/" + ("stored" if area_ok else "none"))
            if state_open:
                pass
            elif "ok" in rr and area_ok and valid(n, st[1]) and rr["ok"] != (st[1] in area):
                ctx.finding("area/isin", "isin(cell) is not membership in the area the last delineation returned",
                            {**c2, "got": rr["ok"], "area": area})
            elif "ok" in rr and not area_ok:
                ctx.finding("area/accessor_without_area", "isin answers although the last delineation failed "
                            "(or none was made)", c2)
            mreq.append(f"I:{st[1]}")
            mmeta.append((i, "I", ("ok:1" if rr["ok"] else "ok:0") if "ok" in rr else "err", None, rr, 0))
        elif k == "R":
            oracle_river(ctx, g, ["river", "py", st[1], st[2], 0.0, 0.0, 1.0], rr, c2, f"hist.{name}", st[2])
            if "ok" in rr:
                istr = "ok:" + ";".join(f"{int(x[0])},{C.f2h(x[1])},{int(x[2])},{int(x[3])}" for x in rr["ok"])
                mmeta.append((i, "R", istr, rr["ok"], rr, st[2]))
            else:
                mmeta.append((i, "R", "err", None, rr, st[2]))
            mreq.append(f"R:{st[1]}:{st[2]}")
    return mreq or ["F"], mmeta if mreq else [(0, "F", "err", None, {"err": -1}, 0)]


# =============================================================================================
# oracles (real code vs the independent graph model)
def oracle_down(ctx, g, op, r, case, tag):
    cells = op[2]
    allvalid = all(valid(g.n, c) for c in cells)
    ctx.count(("down", g.nrows, g.ncols, g.key, tuple(cells)), allvalid and len(cells) > 0, f"down/{tag}")
    if not allvalid:
        return          # cells off the grid are outside the property's quantifier: correspondence only
    if "err" in r:
        ctx.finding("downstream/valid_cell_rejected", "downstream raises on valid cells", case)
        return
    for c, d in zip(cells, r["ok"]):
        want = g.down(c)
        if d != want:
            code = g.fd[c]
            sig = "sink_flag" if code == 0 else "exit_flag" if want == -1 else "esri_direction"
            ctx.finding(f"downstream/{sig}", "downstream is not the ESRI neighbour / -2 for a sink / -1 for an exit or invalid code",
                        {**case, "cell": c, "got": d, "expected": want})


def oracle_up(ctx, g, op, r, case, tag):
    cells = op[2]
    allvalid = all(valid(g.n, c) for c in cells)
    ctx.count(("up", g.nrows, g.ncols, g.key, tuple(cells)), allvalid and len(cells) > 0, f"up/{tag}")
    if not allvalid:
        return          # outside the property's quantifier: correspondence only
    if "err" in r:
        ctx.finding("upstream/valid_cell_rejected", "upstream raises on valid cells", case)
        return
    for c, row in zip(cells, r["ok"]):
        got = sorted(v for v in row if v != -1)
        if len(row) != 9 or got != sorted(g.up(c)):
            ctx.finding("upstream/not_inverse_of_downstream",
                        "the upstream row is not exactly the cells whose downstream cell is this one (each once, padded with -1)",
                        {**case, "cell": c, "got": row, "expected": sorted(g.up(c))})


def oracle_area(ctx, g, op, r, case, tag, nval):
    outlet, inlets = op[2], op[3] or []
    okargs = valid(g.n, outlet) and all(valid(g.n, c) for c in inlets) and nval >= 1
    if not okargs:
        # outlet / inlets off the grid, nval < 1: outside the property's quantifier (correspondence only)
        ctx.count(("area", str(case)), False, f"area/{tag}/malformed")
        return
    exp, cyc = g.area(outlet, inlets)
    branch = "cycle" if cyc else "empty" if not exp else "ok" if nval >= len(exp) + 1 else "short"
    ctx.count(("area", g.nrows, g.ncols, g.key, outlet, tuple(inlets), nval), "ok" in r and len(r["ok"]) > 0,
              f"area/{tag.split('/')[0]}/{branch}", sample={**case, "reply": r} if branch == "ok" and len(exp) > 2 else None)
    if cyc:
        # error or bounded result
        if "ok" in r and len(r["ok"]) > nval:
            ctx.finding("area/cycle_unbounded", "a flow cycle through the outlet produced more cells than the buffer holds", case)
        return
    if "ok" in r:
        got = sorted(r["ok"])
        if got != exp:
            s = set(inlets)
            sig = ("duplicates" if len(set(got)) != len(got) else
                   "outlet_missing" if exp and outlet not in got else
                   "inlet_not_excluded" if any(c in s for c in got if c != outlet) or (s and set(got) > set(exp)) else
                   "not_reachability")
            ctx.finding(f"area/{sig}", "idxcells_area is not the outlet plus every cell whose downstream chain reaches the outlet "
                        "without passing through an inlet, each once (empty when nothing drains)",
                        {**case, "got": got, "expected": exp})
    elif nval >= len(exp) + 1:
        ctx.finding("area/error_with_room", "delineate_area raises although the buffer has room for the area and no cycle passes "
                    "through the outlet", {**case, "expected": exp, "impl": r})


def oracle_filled(ctx, case, r):
    area, filled = r["ok"], r["filled"]
    nrows, ncols = case["nrows"], case["ncols"]
    ctx.count(("filled", str(case)), len(filled) > len(area), "filled/" + ("holes" if len(filled) > len(area) else "same"))
    fs = set(filled)
    if not set(area) <= fs:
        ctx.finding("filled/not_superset", "idxcells_area_filled does not contain idxcells_area", {**case, "area": area, "filled": filled})
    if len(fs) != len(filled) or any(not valid(nrows * ncols, c) for c in filled):
        ctx.finding("filled/invalid_cells", "idxcells_area_filled lists a cell twice or a cell off the grid", {**case, "filled": filled})
    if area:
        rs = [c // ncols for c in area]
        ks = [c % ncols for c in area]
        if any(not (min(rs) <= c // ncols <= max(rs) and min(ks) <= c % ncols <= max(ks)) for c in filled):
            ctx.finding("filled/outside_bbox", "idxcells_area_filled has a cell outside the bounding box of the area", {**case, "filled": filled})


def expected_path(g, outlet, start, cap):
    """-> ('outlet', end, orth, diag) | ('exit', code) | ('cap',)  following the oracle's downstream chain"""
    c, orth, diag = start, 0, 0
    for _ in range(cap):
        d = g.down(c)
        if d < 0:
            return ("exit", d)
        dr, dc = g.step_len(c, d)
        if dr and dc:
            diag += 1
        else:
            orth += 1
        if d == outlet:
            return ("outlet", d, orth, diag)
        c = d
    return ("cap",)


def oracle_fpath(ctx, g, outlet, cells, rows, case, tag, natural):
    nval = len(cells)
    if len(rows) != nval:
        ctx.finding("fpath/row_count", "flow path table has a wrong number of rows", case)
        return
    for c, row in zip(cells, rows):
        start, end, length = row
        if not valid(g.n, c):
            ctx.count(("fp", str(case), c), False, "fpath/invalid_start")
            continue
        e = expected_path(g, outlet, c, nval - 1) if nval >= 1 else ("cap",)
        ctx.count(("fp", g.nrows, g.ncols, g.key, outlet, c, nval), e[0] == "outlet", f"fpath/{tag.split('/')[-1]}/{e[0]}")
        if int(start) != c:
            ctx.finding("fpath/start_column", "flow path row does not start at its cell", {**case, "cell": c, "row": row})
        if not math.isfinite(length) or length < 0:
            ctx.finding("fpath/length_not_finite", "flow path length is negative or not finite", {**case, "cell": c, "row": row})
        if e[0] == "outlet":
            # the chain reaches the outlet in fewer than nval steps: end and length are fixed by the property
            want = e[2] + SQRT2 * e[3]
            # a chain without diagonal steps is counted exactly (theorem length_orthogonal_exact); else a sum of roundings
            off = length != float(e[2]) if e[3] == 0 else abs(length - want) > 1e-9 * max(1.0, want)
            if int(end) != outlet or off:
                two = g.ncols == 2 and abs(length - want) > 1e-9 and int(end) == outlet
                sig = "fpath/diagonal_step_on_2_columns" if two else "fpath/length"
                ctx.finding(sig, "flow path length is not (#orthogonal steps) + sqrt(2) (#diagonal steps) along the downstream chain "
                            "to the outlet", {**case, "cell": c, "row": row, "expected": [outlet, want]})
        elif e[0] == "exit":
            if int(end) != e[1] or length != 0:
                ctx.finding("fpath/exit", "a chain that leaves the grid / ends in a sink before the outlet is not reported as "
                            "(exit code, 0)", {**case, "cell": c, "row": row, "expected": [e[1], 0.0]})
        if natural and c != outlet and e[0] != "outlet":
            ctx.finding("fpath/area_cell_misses_outlet", "a cell of the area does not reach the outlet (oracle self-check)",
                        {**case, "cell": c})


def oracle_chain(ctx, g, op, r, case, tag):
    """iterated Catchment.downstream calls follow the oracle's graph; the river over the same cells lists them"""
    outlet, start, nn = op[2], op[3], op[4]
    if not valid(g.n, start):
        ctx.count(("chain", str(case)), False, "chain/malformed")
        return
    if "ok" not in r:
        ctx.finding("downstream/valid_cell_rejected", "downstream raises on a valid cell of a chain", case)
        return
    want, c = [], start
    while len(want) < nn + 1:
        want.append(c)
        c = g.down(c)
        if c < 0:
            break
    ctx.count(("chain", g.nrows, g.ncols, g.key, start, nn), len(want) > 1, f"chain/{tag.split('/')[0]}")
    if r["ok"] != want or (r.get("end") is not None and len(want) <= nn and r["end"] != c):
        ctx.finding("downstream/chain", "calling downstream cell after cell does not follow the ESRI neighbours to the first "
                    "sink / exit", {**case, "got": r["ok"][:50], "expected": want[:50]})
        return
    ended = len(want) <= nn
    if ended and "river" in r and r["river"] != want[:nn]:
        ctx.finding("river/not_downstream_chain", "the river cells are not the cells iterated downstream calls visit",
                    {**case, "river": r["river"][:50], "chain": want[:50]})
    if ended and "river_err" in r and nn >= 1:
        ctx.finding("river/valid_start_rejected", "delineate_river raises on a chain that ends", case)


def count_check(ctx):
    """`countBy 1 n` / `countBy (1+1) n` of the model at Float are the doubles n and 2n (what length_rounded /
    length_orthogonal_exact are stated with)"""
    ns = [0, 1, 2, 3, 255, 256, 4097, 20000]
    reps = ctx.lean.ask([f"count {n}" for n in ns])
    for n, rep in zip(ns, reps):
        ctx.compare("C06 count", {"n": n}, f"{C.f2h(float(n))} {C.f2h(float(2 * n))}", rep)
    # the ESRI layout flowdir_table_is_esri is stated with (esriDx / esriDy / esriPos) against the oracle's own table and
    # the FLOWDIRCODE array the real code hands to its kernels
    from hydrodiy.gis.grid import FLOWDIRCODE
    flat = [int(v) for v in FLOWDIRCODE.ravel()]
    want = []
    for m in range(8):
        dr, dc = ESRI[2 ** m]
        pos = 1 + dc + (1 + dr) * 3
        want.append(f"{m},{dc},{dr},{pos},{flat[pos] if len(flat) == 9 else '?'},{flat[8 - pos] if len(flat) == 9 else '?'}")
    ctx.compare("C06 esri layout", {"table": flat}, "[" + ";".join(want) + "]", ctx.lean.ask(["esri"])[0])


def oracle_river(ctx, g, op, r, case, tag, nval):
    start, xll, yll, csz = op[2], op[4], op[5], op[6]
    if not valid(g.n, start):
        ctx.count(("river", str(case)), False, "river/malformed")      # outside the quantifier: correspondence only
        return
    # does the chain from the start end (sink / exit), by the independent graph search?
    seen, c = set(), start
    while c >= 0 and c not in seen:
        seen.add(c)
        c = g.down(c)
    cyclic = c >= 0
    if "err" in r:
        ctx.count(("river", str(case)), False, "river/error" + ("_on_cycle" if cyclic else ""))
        if not cyclic:
            # a chain that ends is a plain trace: it must be returned (cut at nval cells)
            ctx.finding("river/valid_start_rejected", "delineate_river raises on a valid start cell whose downstream chain "
                        "ends in a sink / leaves the grid", case)
        return          # a chain running into a flow cycle: an error is one of the two allowed outcomes
    # expected chain
    chain, c = [], start
    while len(chain) < nval:
        chain.append(c)
        c = g.down(c)
        if c < 0:
            break
    rows = r["ok"]
    ctx.count(("river", g.nrows, g.ncols, g.key, start, nval), len(chain) > 1,
              f"river/{tag.split('/')[0]}/" + ("cyclic" if cyclic else "capped" if len(chain) == nval and c >= 0 else "ended"))
    got = [int(x[0]) for x in rows]
    if cyclic:
        # the property leaves the outcome open: an error (above) or a bounded result — nothing about its values
        if len(got) > nval:
            ctx.finding("river/unbounded_on_cycle", "the river on a chain that runs into a flow cycle has more than nval rows",
                        {**case, "rows": len(got)})
        return
    elif got != chain:
        ctx.finding("river/not_downstream_chain", "the river cells are not the downstream chain from the start cell "
                    "(up to nval cells, ending at the first sink / exit)", {**case, "got": got[:50], "expected": chain[:50]})
        return
    dist, prev, ndiag = 0.0, 0.0, 0
    for i, x in enumerate(rows):
        cell, d, dx, dy, xx, yy = x
        if not (d >= prev):
            # never decreasing, never negative, rounding or not (theorem river_dist_monotone)
            ctx.finding("river/distance_decreases", "the river distance decreases (or is negative / nan)",
                        {**case, "row": i, "got": x, "previous": prev})
            return
        prev = d
        if i > 0:
            dr, dc = g.step_len(chain[i - 1], chain[i])
            dist += SQRT2 if dr and dc else 1.0
            ndiag += 1 if dr and dc else 0
            wdx = chain[i - 1] % g.ncols - chain[i] % g.ncols
            wdy = chain[i - 1] // g.ncols - chain[i] // g.ncols
        else:
            wdx = wdy = 0
        if ndiag == 0 and d != float(i):
            # no diagonal step so far: the sum is a count, exact in double (theorem length_orthogonal_exact)
            ctx.finding("river/distance", "river distance along orthogonal steps is not the exact number of steps",
                        {**case, "row": i, "got": x, "expected": float(i)})
            return
        if abs(d - dist) > 1e-9 * max(1.0, dist) or dx != wdx or dy != wdy:
            ctx.finding("river/distance", "river distance is not the cumulated 1 / sqrt(2) step length, or dx, dy are not the "
                        "column / row displacement of the step", {**case, "row": i, "got": x, "expected": [dist, wdx, wdy]})
            return
        row, col = divmod(chain[i], g.ncols)
        wx, wy = xll + csz * (col + 0.5), yll + csz * (g.nrows - 1 - row + 0.5)
        if abs(xx - wx) > 1e-9 * max(1.0, abs(wx), csz) or abs(yy - wy) > 1e-9 * max(1.0, abs(wy), csz):
            ctx.finding("river/coordinates", "river x, y are not the centre of the cell", {**case, "row": i, "got": x, "expected": [wx, wy]})
            return


def main(tier, replay=None):
    return C.run_check(PID, tier, body, needs_native=True, regen=regen_flowdir, replay=replay,
                       trusted=["scipy.ndimage.binary_fill_holes (external; a parameter of the model)",
                                "harness/gen_flowdir.py (FLOWDIRCODE translator, ast-based)",
                                "numpy/pandas argument and result conversion in the Python wrappers (external)",
                                "libm sqrt (correctly rounded; sqrt 0 = 0 and sqrt 1 = 1 are hypotheses of the length theorems)"])


if __name__ == "__main__":
    if len(sys.argv) >= 3 and sys.argv[1] == "--worker":
        worker_main(sys.argv[2])
