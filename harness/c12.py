"""C12 — bounded parameter vectors keep their invariants under any history.

Model: lean/HydroVerif/Model/C12.lean (Vector as a state machine over an explicit array store; the
state-relevant part of Transform); theorems: lean/HydroVerif/Props/C12.lean.
Correspondence: an operation sequence is run on the real `hydrodiy.data.containers.Vector` /
`hydrodiy.stat.transform.*` objects and on the model driver; after construction and after EVERY
operation the full observable state of every live vector is compared: names, values, mins, maxs,
defaults (bit patterns), hitbounds, check_bounds, check_hitbounds, accept_nan, `to_dict()`, whether the
operation was accepted or rejected, and the aliasing facts (`is` / `np.shares_memory` between all
arrays returned by the getters of all live vectors) against the model's reference equalities.
Oracle (failing-input search, real code only, stated without the model): invariant on the Python
objects, rejected => bit-identical state, frozen names/bounds/defaults/flags, hit flag == clipped,
stored == nearest point of [min, max], clone / dict round-trip reproduce the state with disjoint
storage and never raise, an operation on one vector leaves every other vector alone, read-only
transform calls leave params / constants / bounds alone.
Cases: (i) exhaustive operation sequences of fixed depth over a per-shape alphabet (set by attribute
inside / above / NaN, unknown key, whole-vector inside / outside / wrong length, reset, clone, dict
round-trip, each continuing on the newest vector, plus writes to the original) for 4 vector shapes
(1 finite-bounded name with hit checking; 2 names with half-infinite bounds and NaN allowed; no name;
2 names, no hit checking, defaults from clip(0)); (ii) random vectors (0-4 names, finite / infinite /
degenerate bounds, all flag combinations, arguments given or omitted) x random sequences of depth 40
with values inside, on, 1e-6 / 1 / 1e300 outside, +-inf, NaN, whole-vector assignments fed from lists, arrays and
other vectors' own arrays; (iii) a malformed-constructor stream; (iv) every transform class (several
constructor arguments) x random interleavings of forward / backward / jacobian / params_sample /
params_logprior / str with item, attribute, whole-vector assignments and reset.
History streams (every public entry point of Vector has an op): accessors `vect[name]`, `vect.name` (known / unknown),
to_dict / to_series / str / property getters (returned dict / series edited in place afterwards), values `float()`
rejects on the three assignment paths, copy.deepcopy / pickle round-trips (CPython's copy protocol fails on the pinned
class: then nothing may move; when it works the copy must be an independent deep copy), whole-vector assignment from a
list / array (edited in place afterwards) / 2-d array / scalar / another vector's own array, from_dict of a dictionary
edited in place afterwards, names given as list / numpy array / range / None / scalar; transforms built directly or by
get_transform(name, **values), forward / backward / jacobian / backward_censored / params_sample with the returned and the
input arrays edited in place afterwards, item / attribute reads, deepcopy / pickle of the transform.
Twin streams: two or three live transform instances of one class, or of classes whose constructors are written alike
(LogSinh/Manly; BoxCox1lam/BoxCox1nu/BoxCox2sym/BoxCox2; ...), assignments and read-only calls on one, every vector of
every instance observed after each operation, plus an instance constructed after the assignments (it must start from its
constructor defaults); no array may be shared between instances.
Round 7: the transform streams name only the CLASS and its constructor keywords (`C Class mininu minilam`, `G name kw`
for get_transform, `newc:Class:..` in the twin streams): names, defaults, bounds, flags, the inner BoxCox2 and the
constructor guards come from the model's own class table, for the usual keywords and for exotic ones (mininu / minilam at
and around `minilam < -3`, the bounds, NaN, +-inf — accepted / rejected must agree); get_transform with foreign keywords,
NaN values and unknown names; `trans[name]` / `getattr(trans, name)` reads (accepted / rejected and the value read);
rejected constructions between the operations of a twin history. Every observation carries one bit per vector alive
before the operation (names / bounds / defaults / flags unchanged: the model's `World.frozen`) and the model's evaluation
of `EpsOk` at Float on every bound. Every dictionary exported before an operation must read the same after it.
Stream `margin` (oracle only): assigned values inside the (0, 1e-10] margin of a bound — the point theorem `inRegion_needed`
shows excluded; everything but the flag is checked there. Stream `nanbounds` (recorded only, never an alarm): NaN among the
bounds with accept_nan=True — the point theorem `nanFree_bounds_needed` shows excluded.
A case is non-trivial when the constructor accepted and at least one operation changed the state.
"""
import itertools
import math

from . import common as C

PID = "C12"
NAN = float("nan")
INF = float("inf")
MAXVECS = 4
FIELDS = ("values", "mins", "maxs", "defaults")

_hexcache = {}


def h(x):
    x = float(x)
    if x != x:
        return "nan"
    r = _hexcache.get(x)
    if r is None or (x == 0.0):
        r = C.f2h(x)
        if len(_hexcache) < 100000 and x != 0.0:
            _hexcache[x] = r
    return r


def fl(xs):
    return "[" + ",".join(h(x) for x in xs) + "]"


def b01(x):
    return "1" if bool(x) else "0"


def optl(xs):
    return "-" if xs is None else fl(xs)


def spec_token(sp):
    return "/".join(["[" + ",".join(sp["names"]) + "]", optl(sp["defaults"]), optl(sp["mins"]), optl(sp["maxs"]),
                     b01(sp["cb"]), b01(sp["ch"]), b01(sp["an"])])


def spec_json(sp):
    f = lambda xs: None if xs is None else [repr(float(x)) for x in xs]  # noqa
    return {"names": sp["names"], "defaults": f(sp["defaults"]), "mins": f(sp["mins"]), "maxs": f(sp["maxs"]),
            "check_bounds": sp["cb"], "check_hitbounds": sp["ch"], "accept_nan": sp["an"],
            "names_as": sp.get("names_as", "list")}


def op_json(op):
    out = []
    for x in op:
        if isinstance(x, float):
            out.append(repr(x))
        elif isinstance(x, (list, tuple)):
            out.append([repr(float(y)) if isinstance(y, (int, float)) else y for y in x])
        else:
            out.append(x)
    return out


def spec_from_json(j):
    f = lambda xs: None if xs is None else [float(x) for x in xs]  # noqa
    return {"names": list(j["names"]), "defaults": f(j.get("defaults")), "mins": f(j.get("mins")), "maxs": f(j.get("maxs")),
            "cb": bool(j["check_bounds"]), "ch": bool(j["check_hitbounds"]), "an": bool(j["accept_nan"]),
            "names_as": j.get("names_as", "list")}


def op_from_json(o):
    kind = o[0]
    if kind in ("sa", "sk"):
        return (kind, int(o[1]), o[2], float(o[3])) + tuple(o[4:5])
    if kind == "sv":
        if len(o) > 3 and o[3] == "getter":
            return ("sv", int(o[1]), (int(o[2][0]), o[2][1]), "getter")
        return ("sv", int(o[1]), [float(x) for x in o[2]]) + tuple(o[3:4])
    if kind in ("rs", "cl", "dr"):
        return (kind, int(o[1]))
    if kind in ("gk", "ga", "rd", "sb", "pc"):
        return (kind, int(o[1]), o[2])
    if kind in ("ti", "ta"):
        return (kind, o[1], float(o[2]))
    if kind in ("pv", "cv"):
        return (kind, [float(x) for x in o[1]])
    return tuple(o)


# ---------------------------------------------------------------------------------------
# observation of the real objects (public getters only)
class Snap:
    """one pass over the public getters of a vector: view (bit patterns), the arrays themselves, to_dict, invariant"""
    __slots__ = ("view", "arrs", "floats", "dstr", "inv", "dobj")

    def __init__(self, v):
        names = [str(x) for x in v.names]
        self.arrs = (v.values, v.mins, v.maxs, v.defaults)
        self.floats = tuple(a.tolist() for a in self.arrs)
        an = v.accept_nan
        self.view = (names,) + tuple(fl(x) for x in self.floats) + (
            b01(v.hitbounds), b01(v.check_bounds), b01(v.check_hitbounds), b01(an))
        self.dobj = v.to_dict()            # kept: a dictionary exported now must read the same after later operations
        self.dstr = dict_repr(self.dobj)
        self.inv = invariant(names, self.floats, an)


def vec_view(v):
    """(names, values, mins, maxs, defaults, hit, cb, ch, an) with floats as bit patterns"""
    return Snap(v).view


def view_str(vw):
    return ":".join(["[" + ",".join(vw[0]) + "]"] + list(vw[1:]))


def dict_str(v):
    return dict_repr(v.to_dict())


def dict_repr(d):
    items = ",".join("=".join([str(e["name"]), h(e["value"]), h(e["min"]), h(e["max"]), h(e["default"])])
                     for e in d["data"])
    return ":".join(["D", str(int(d["nval"])), b01(d["hitbounds"]), b01(d["check_bounds"]), b01(d["check_hitbounds"]),
                     b01(d["accept_nan"]), "[" + items + "]"])


def invariant(names, floats, accept_nan):
    """the property's invariant, evaluated on what the getters of the Python object returned"""
    n = len(names)
    vals, lo, hi, dfl = floats
    if not (len(vals) == len(lo) == len(hi) == len(dfl) == n):
        return "lengths"
    for i in range(n):
        if lo[i] != lo[i] or hi[i] != hi[i] or hi[i] < lo[i]:
            return "bounds"
    for nm, arr in (("values", vals), ("defaults", dfl)):
        for i in range(n):
            x = arr[i]
            if x != x:
                if not accept_nan:
                    return nm + "_nan_without_permission"
            elif not (lo[i] <= x <= hi[i]):
                return nm + "_outside_bounds"
    return None


def alias_classes(np, snaps):
    arrs = [a for sn in snaps for a in sn.arrs]
    cls = []
    for j, a in enumerate(arrs):
        k = j
        for i in range(j if a.size else 0):     # a zero-length array holds nothing that could be shared
            if arrs[i].size and (arrs[i] is a or np.shares_memory(arrs[i], a)):
                k = i
                break
        cls.append(k)
    return cls


class WorldSnap:
    def __init__(self, np, vecs):
        self.snaps = [Snap(v) for v in vecs]
        self.alias = alias_classes(np, self.snaps)
        self.views = [sn.view for sn in self.snaps]

    def observe(self, out, r="-", prev=None):
        """`prev`: the snapshot taken before the operation — one bit per vector alive then: names / bounds / defaults /
        flags unchanged (the model reports `World.frozen` the same way)"""
        if prev is None:
            fb = "-"
        else:
            fb = "".join("1" if j < len(self.views) and VectorRun.frozen(self.views[j]) == VectorRun.frozen(prev.views[j])
                         else "0" for j in range(len(prev.views)))
        parts = [out, "R:" + r, "F" + fb, "E1"]     # E1: the model reports that EpsOk (b - EPS <= b <= b + EPS) holds at Float
        for sn in self.snaps:
            parts.append(view_str(sn.view))
            parts.append(sn.dstr)
            parts.append("1" if sn.inv is None else "0")
        parts.append("A" + C.ilist(self.alias))
        return " ".join(parts)


def strip_kind(obs):
    """the model's reply: `out kind G<region flag> R:<read value> vectors... A[...]`; kind (histogram only) and the
    region flag (checked against the harness's own conditioning, see body) are not part of the compared string"""
    toks = obs.split(" ")
    return " ".join(toks[:1] + toks[3:]), toks[1], toks[2]


# --------------------------------------------------------------------------------------
def scribble_dict(d):
    """edit a dictionary returned by to_dict() / given to from_dict() in place, every level"""
    for e in d.get("data", []):
        for key in ("value", "min", "max", "default"):
            e[key] = 4321.5
        e["name"] = "q"
    d["data"].append({"name": "extra", "value": 0.0, "min": 0.0, "max": 0.0, "default": 0.0})
    for key in ("hitbounds", "check_bounds", "check_hitbounds", "accept_nan"):
        d[key] = not d[key]
    d["nval"] = d["nval"] + 3


def expected_clip(x, lo, hi):
    if x != x:
        return x
    return lo if x < lo else hi if x > hi else x


def in_region(x, lo, hi):
    """the property's conditioning: inside, on a bound, or at least 1e-6 away from it"""
    if x != x or lo <= x <= hi:
        return True
    if x < lo:
        return lo - x >= 1e-6
    return x - hi >= 1e-6


def same_float(a, b):
    return (a != a and b != b) or a == b


class VectorRun:
    """runs one (spec, ops) case on the real class; collects the observation string and oracle findings"""

    def __init__(self, np, Vector, spec, ops):
        self.np, self.Vector, self.spec, self.ops = np, Vector, spec, ops
        self.findings = []     # (signature, what, step index)
        self.obs = []
        self.used_ops = []     # ops with run-time resolved arguments (request tokens)
        self.changed = False
        self.vecs = []
        self.cur_kind = None
        self.pc_ok_step = None  # first step at which deepcopy / pickle produced an object
        self.regions = []      # per executed op: True when the hit oracle's conditioning held for a whole-vector assignment
        self.born = []         # frozen view at creation, per vector

    def find(self, sig, what, step):
        """copy.deepcopy / pickle are not operations of the property (and do not work on the pinned class): whatever is
        observed at a `pc` step, or anywhere in a history after a `pc` that produced an object, is correspondence-only
        (soft): it is recorded as a model/code disagreement, never as a failing input"""
        soft = self.cur_kind == "pc" or self.pc_ok_step is not None
        self.findings.append((sig, what, step, soft))

    @staticmethod
    def frozen(vw):
        return (vw[0], vw[2], vw[3], vw[4], vw[6], vw[7], vw[8])

    def construct(self):
        np, sp = self.np, self.spec
        args = {}
        given = {}
        for key in ("defaults", "mins", "maxs"):
            if sp[key] is not None:
                arr = np.array(sp[key], dtype=np.float64) if sp.get("as_array", True) else list(sp[key])
                given[key] = arr
                args[key] = arr
        names = list(sp["names"])
        how = sp.get("names_as", "list")
        if how == "range":          # Vector(range(n)): names are the decimal strings
            names = range(len(names))
        elif how == "none":         # Vector(None): no name
            names = None
        elif how == "scalar":       # Vector("a"): np.atleast_1d
            names = names[0]
        elif how == "array":
            names = np.array(names, dtype=str)
        try:
            v = self.Vector(names, check_bounds=sp["cb"], check_hitbounds=sp["ch"], accept_nan=sp["an"], **args)
        except ValueError:
            return "rej"
        # the constructor copies: scribbling over the caller's arrays afterwards must not reach the vector
        for arr in given.values():
            if isinstance(arr, np.ndarray) and arr.size:
                arr[:] = 12345.678
        if isinstance(names, (list, np.ndarray)):
            names[:] = ["q"] * len(names)
        self.vecs = [v]
        self.born = [self.frozen(Snap(v).view)]
        return "ok"

    def apply(self, op):
        """-> ('ok'|'rej', request token, assigned values or None)"""
        np, vecs = self.np, self.vecs
        kind, k = op[0], op[1]
        v = vecs[k]
        try:
            if kind == "sa":
                tok = f"sa:{k}:{op[2]}:{h(op[3])}"
                setattr(v, op[2], op[3] if not op[4:] or op[4] == "float" else np.float64(op[3]))
                return "ok", tok
            if kind == "sk":
                tok = f"sk:{k}:{op[2]}:{h(op[3])}"
                v[op[2]] = op[3]
                return "ok", tok
            if kind == "sv":
                src = op[2]
                how = op[3] if len(op) > 3 else "list"
                if how in ("2d", "scalar"):
                    xs = [float(x) for x in src]
                    tok = f"sv:{k}:{fl(xs)}"
                    self.assigned = xs
                    if how == "scalar":
                        v.values = xs[0]                      # np.atleast_1d(scalar): length 1
                    else:
                        v.values = np.array(xs, dtype=np.float64).reshape((2, len(xs) // 2))   # flattened by the setter
                    return "ok", tok
                if how == "getter":
                    arr = getattr(vecs[src[0]], src[1])
                    xs = [float(x) for x in arr]
                    tok = f"sv:{k}:{fl(xs)}"
                    self.assigned = xs
                    v.values = arr
                else:
                    xs = [float(x) for x in src]
                    tok = f"sv:{k}:{fl(xs)}"
                    self.assigned = xs
                    if how == "array":
                        arr = np.array(xs, dtype=np.float64)
                        try:
                            v.values = arr
                        finally:
                            if arr.size:
                                arr[:] = -777.25      # the setter copies: editing the caller's array afterwards is invisible
                    else:
                        v.values = list(xs)
                return "ok", tok
            if kind == "rs":
                tok = f"rs:{k}"
                v.reset()
                return "ok", tok
            if kind == "cl":
                tok = f"cl:{k}"
                c = v.clone()
                vecs.append(c)
                return "ok", tok
            if kind == "dr":
                tok = f"dr:{k}"
                d = v.to_dict()
                try:
                    c = self.Vector.from_dict(d)
                finally:
                    scribble_dict(d)          # the dictionary holds scalars only: editing it afterwards is invisible
                vecs.append(c)
                return "ok", tok
            if kind == "gk":
                tok = f"gk:{k}:{op[2]}"
                self.readval = h(v[op[2]])
                return "ok", tok
            if kind == "ga":
                tok = f"ga:{k}:{op[2]}"
                try:
                    self.readval = h(getattr(v, op[2]))
                except AttributeError:
                    return "rej", tok
                return "ok", tok
            if kind == "rd":
                tok = f"rd:{k}"
                sub = op[2]
                if sub == "td":
                    scribble_dict(v.to_dict())
                elif sub == "ts":
                    se = v.to_series()
                    arr = np.array(se.values)      # pandas 3 hands out read-only views; the copy is ours
                    arr[:] = 3.5
                    list(se.index)
                elif sub == "st":
                    str(v), repr(v)
                else:
                    (v.nval, v.names, v.values, v.mins, v.maxs, v.defaults, v.hitbounds, v.check_bounds,
                     v.check_hitbounds, v.accept_nan)
                return "ok", tok
            if kind == "sb":
                tok = f"sb:{k}"
                names = [str(x) for x in v.names]
                how = op[2] if names else "all"
                if how == "attr":
                    setattr(v, names[0], "x")
                elif how == "key":
                    v[names[-1]] = "1,5"
                else:
                    v.values = ["x"] * max(len(names), 1)
                return "ok", tok
            if kind == "pc":
                import copy
                import pickle
                try:
                    c = copy.deepcopy(v) if op[2] == "deepcopy" else pickle.loads(pickle.dumps(v))
                    c.to_dict()
                except Exception:
                    return "rej", f"pc:{k}:0"       # CPython's copy protocol fails on the class: external, see model
                vecs.append(c)
                return "ok", f"pc:{k}:1"
        except ValueError:
            return "rej", tok
        raise RuntimeError("unknown op " + repr(op))

    def run(self):
        np = self.np
        out = self.construct()
        want = spec_valid(self.spec)
        if out == "rej":
            self.obs = ["rej"]
            if want is True:
                self.find("constructor/rejects_valid", "the constructor raised ValueError on valid arguments", -1)
            return
        if want is False:
            self.find("constructor/accepts_invalid", "the constructor accepted arguments it must reject", -1)
        vecs = self.vecs
        ws = WorldSnap(np, vecs)
        self.obs.append(ws.observe("ok"))
        if ws.snaps[0].inv is not None:
            self.find("constructor/" + ws.snaps[0].inv, "a freshly constructed vector violates the invariant", -1)
        v0 = ws.views[0]
        if v0[1] != v0[4] or v0[5] != "0":
            self.find("constructor/initial_state", "fresh vector: values != defaults or hit flag set", -1)
        for step, op in enumerate(self.ops):
            kind, k = op[0], op[1]
            wb = ws
            before = wb.views
            nbefore = len(vecs)
            _, lo, hi, dfl = wb.snaps[k].floats
            self.assigned = None
            self.readval = "-"
            self.cur_kind = kind
            try:
                out, tok = self.apply(op)
            except Exception as e:  # anything but ValueError is outside the class's contract
                self.find(f"{kind}/unexpected_exception", f"{type(e).__name__}: {e}", step)
                self.obs.append("EXC " + type(e).__name__)
                self.used_ops.append("rs:0")
                return
            if kind == "pc" and out == "ok" and self.pc_ok_step is None:
                self.pc_ok_step = step
            self.used_ops.append(tok)
            self.regions.append(kind == "sv" and out == "ok" and self.assigned is not None and len(self.assigned) == len(lo)
                                and all(in_region(x, lo[i], hi[i]) for i, x in enumerate(self.assigned)))
            ws = WorldSnap(np, vecs)
            after = ws.views
            self.obs.append(ws.observe(out, self.readval if out == "ok" else "-", wb))
            if after[:nbefore] != before or len(vecs) != nbefore:
                self.changed = True
            if kind in ("gk", "ga", "rd", "sb") or (kind == "pc" and out == "rej"):
                # pure accessors, values float() rejects, a failing copy protocol: nothing may move
                if after != before or ws.alias != wb.alias:
                    self.find(f"{kind}/changes_state", "an accessor / a non-numeric assignment changed the observable state", step)
                if kind in ("gk", "ga") and out == "ok":
                    nms = before[k][0]
                    if op[2] in nms and self.readval != h(wb.snaps[k].floats[0][nms.index(op[2])]):
                        self.find("read/value_wrong", "vect[name] / vect.name is not the stored element", step)
                if kind == "sb" and out == "ok":
                    self.find("sb/accepts_non_number", "a non-numeric value was accepted", step)
                continue
            # ---- oracle
            for j, sn in enumerate(wb.snaps):
                # a dictionary exported BEFORE the operation is an independent record: the operation (and the exports made
                # after it) must not reach into it
                try:
                    same = dict_repr(sn.dobj) == sn.dstr
                except Exception:
                    same = False
                if not same:
                    self.find("to_dict/export_changed_later", f"a dictionary exported by vector {j} before the operation "
                              "no longer holds the state it was exported with", step)
                    break
            for j, sn in enumerate(ws.snaps):
                if sn.inv is not None and (j >= nbefore or wb.snaps[j].inv is None):
                    self.find(f"{kind}/invariant/{sn.inv}", f"vector {j} violates the invariant after the operation", step)
                if j < len(self.born) and self.frozen(after[j]) != self.born[j]:
                    self.find(f"{kind}/frozen_changed", f"names/bounds/defaults/flags of vector {j} changed", step)
            v = vecs[k]
            vals = ws.snaps[k].floats[0]
            for i, nm in enumerate(after[k][0]):
                if i < len(vals) and not (same_float(float(v[nm]), vals[i]) and same_float(float(getattr(v, nm)), vals[i])):
                    self.find("read/key_or_attr_differs", "vect[name] / vect.name differ from values[i]", step)
            for j in range(nbefore):
                if j != k and after[j] != before[j]:
                    self.find(f"{kind}/changes_other_vector", f"operation on vector {k} changed vector {j}", step)
            if out == "rej":
                if after != before or ws.alias != wb.alias:
                    self.find(f"{kind}/rejected_changes_state", "a rejected operation changed the observable state", step)
                if kind in ("cl", "dr"):
                    self.find(f"{kind}/raises", "clone / dictionary round-trip of a valid vector raised ValueError", step)
                    return      # later operations address the copy that does not exist
                elif kind == "rs":
                    self.find("rs/raises", "reset of a valid vector raised ValueError", step)
                continue
            if kind in ("cl", "dr", "pc"):
                new = after[-1]
                self.born.append(self.frozen(new))
                for idx, nm in enumerate(("names", "values", "mins", "maxs", "defaults", "hitbounds", "check_bounds",
                                          "check_hitbounds", "accept_nan")):
                    if new[idx] != before[k][idx]:
                        self.find(f"{kind}/state_differs:{nm}", f"the copy's {nm} differ from the source's", step)
                if ws.snaps[-1].dstr != wb.snaps[k].dstr:
                    self.find(f"{kind}/state_differs:to_dict", "to_dict() of the copy differs from the source's", step)
                if after[k] != before[k]:
                    self.find(f"{kind}/changes_source", "the source changed", step)
                base = 4 * (len(vecs) - 1)
                if any(ws.alias[base + i] != base + i for i in range(4)):
                    self.find(f"{kind}/shares_memory", "the copy shares memory with another array", step)
                continue
            # assignments
            cur = after[k]
            ch = before[k][7] == "1"
            names = before[k][0]
            vals_after = ws.snaps[k].floats[0]
            if kind in ("sa", "sk"):
                if op[2] not in names:
                    if after != before:
                        self.find(f"{kind}/foreign_attribute_changes_state", "setting a non-name attribute changed the vector", step)
                    continue
                i = names.index(op[2])
                assigned = {i: float(op[3])}
                expect = list(wb.snaps[k].floats[0])
                expect[i] = expected_clip(float(op[3]), lo[i], hi[i])
            else:
                xs = self.assigned if kind == "sv" else dfl
                assigned = dict(enumerate(xs))
                expect = [expected_clip(x, lo[i], hi[i]) for i, x in enumerate(xs)]
            if len(expect) != len(vals_after) or not all(same_float(a, b) for a, b in zip(expect, vals_after)):
                self.find(f"{kind}/stored_value_wrong", "stored values are not the assigned values moved to the nearest bound", step)
            if all(in_region(x, lo[i], hi[i]) for i, x in assigned.items()):
                clipped = any((x == x) and not (lo[i] <= x <= hi[i]) for i, x in assigned.items())
                want = ch and clipped
                if (cur[5] == "1") != want:
                    self.find(f"{kind}/hitflag_wrong", f"hitbounds={cur[5]} but check_hitbounds={ch} and clipped={clipped}", step)


def run_vector_case(np, Vector, spec, ops):
    r = VectorRun(np, Vector, spec, ops)
    r.run()
    return r


def shrink_ops(np, Vector, spec, ops, sig):
    """greedy op deletion keeping the same oracle signature (ops referring to spawned vectors are re-indexed by validity)"""
    def valid(seq):
        n = 1
        for op in seq:
            if op[1] >= n:
                return False
            if op[0] == "sv" and len(op) > 3 and op[3] == "getter" and op[2][0] >= n:
                return False
            if op[0] in ("cl", "dr"):
                n += 1
        return True

    def fails(seq):
        try:
            r = run_vector_case(np, Vector, spec, seq)
        except Exception:
            return False
        return any(f[0] == sig and not f[3] for f in r.findings)
    cur = list(ops)
    changed = True
    while changed:
        changed = False
        for i in range(len(cur)):
            cand = cur[:i] + cur[i + 1:]
            if valid(cand) and fails(cand):
                cur = cand
                changed = True
                break
    return cur


# --------------------------------------------------------------------------------------
# generators
def value_for(rng, lo, hi, cls):
    """a value of class `cls` relative to [lo, hi]"""
    if cls == "inside":
        if lo == -INF and hi == INF:
            return rng.choice([0.0, -3.25, 7.5])
        if lo == -INF:
            return hi - rng.choice([0.5, 2.0])
        if hi == INF:
            return lo + rng.choice([0.5, 2.0])
        return lo + (hi - lo) * rng.choice([0.25, 0.5, 0.75])
    if cls == "on_lo":
        return lo
    if cls == "on_hi":
        return hi
    if cls == "below6":
        return lo - 1e-6 * max(1.0, abs(lo)) * 2 if lo != -INF else -1e300
    if cls == "above6":
        return hi + 1e-6 * max(1.0, abs(hi)) * 2 if hi != INF else 1e300
    if cls == "below":
        return lo - rng.choice([1.0, 2.5]) if lo != -INF else -1e300
    if cls == "above":
        return hi + rng.choice([1.0, 2.5]) if hi != INF else 1e300
    if cls == "margin_lo":
        return lo - 5e-11 if lo != -INF else -INF
    if cls == "margin_hi":
        return hi + 5e-11 if hi != INF else INF
    if cls == "nan":
        return NAN
    if cls == "pinf":
        return INF
    if cls == "ninf":
        return -INF
    if cls == "huge":
        return rng.choice([1e300, -1e300])
    raise ValueError(cls)


# assigned values: the property conditions on "at least 1e-6 away from a bound or exactly on it"; values inside the
# (0, 1e-10] margin (where the two assignment paths set the flag differently) are outside the quantifier and are not
# generated for assignments (a rewrite that harmonises the two conventions there must stay silent)
VALUE_CLASSES = ["inside", "inside", "on_lo", "on_hi", "below6", "above6", "below", "above",
                 "nan", "pinf", "ninf", "huge"]
ALLNAMES = ["a", "b", "c", "d"]


def nz(x):
    """no negative zero (the sign of a clipped zero is not an observable of the property)"""
    return 0.0 if x == 0 else float(x)


def effective_bounds(sp):
    n = len(sp["names"])
    lo = [-INF] * n if sp["mins"] is None else list(sp["mins"])
    hi = [INF] * n if sp["maxs"] is None else [max(a, b) for a, b in zip(sp["maxs"], lo)]
    return lo, hi


def spec_valid(sp):
    """constructor contract, stated independently: consistent flags, unique names, right lengths, NaN only when
    allowed, maxs not below mins, defaults inside [mins, maxs]. Returns True / False, or None (undecided) when some
    maxs / defaults value lies outside its interval by less than 1e-6 — the property conditions on values on the
    bound or at least 1e-6 away, and the constructor has a 1e-10 tolerance there."""
    n = len(sp["names"])
    if sp["ch"] and not sp["cb"]:
        return False
    if len(set(sp["names"])) != n:
        return False
    for key in ("mins", "maxs", "defaults"):
        if sp[key] is not None:
            if len(sp[key]) != n:
                return False
            if any(x != x for x in sp[key]) and not sp["an"]:
                return False
    if any(x != x for key in ("mins", "maxs") if sp[key] is not None for x in sp[key]):
        return None          # NaN bounds: outside the quantifier
    lo = [-INF] * n if sp["mins"] is None else sp["mins"]
    verdict = True
    if sp["maxs"] is not None:
        for m, a in zip(sp["maxs"], lo):
            if m < a:
                if a - m < 1e-6:
                    return None
                verdict = False
    if not verdict:
        return False
    hi = [INF] * n if sp["maxs"] is None else [max(a, b) for a, b in zip(sp["maxs"], lo)]
    if sp["defaults"] is not None:
        for d, a, b in zip(sp["defaults"], lo, hi):
            if d != d or a <= d <= b:
                continue
            if (a - d if d < a else d - b) < 1e-6:
                return None
            verdict = False
    return verdict


def gen_spec(rng):
    n = rng.choice([0, 1, 1, 2, 2, 2, 3, 4])
    names = ALLNAMES[:n]
    names_as = "list"
    if rng.random() < 0.25:
        names_as = rng.choice(["range", "array"] + (["none"] if n == 0 else []) + (["scalar"] if n == 1 else []))
        if names_as == "range":
            names = [str(i) for i in range(n)]
    cb, ch, an = rng.choice([(True, False, False), (True, True, False), (True, False, True), (True, True, True),
                             (False, False, False), (False, False, True)])
    mins = None if rng.random() < 0.2 else [rng.choice([-INF, -1.0, 0.0, 1e-5, -2.5, 3.0]) for _ in range(n)]
    lo = [-INF] * n if mins is None else mins
    if rng.random() < 0.2:
        maxs = None
    else:
        maxs = []
        for i in range(n):
            c = rng.choice(["inf", "inf", "eq", "one", "wide", "eps_below"])
            base = lo[i] if lo[i] != -INF else rng.choice([-4.0, 0.0, 2.0])
            maxs.append(INF if c == "inf" else base if c == "eq" else base + 1.0 if c == "one" else base + 3.5
                        if c == "wide" else (base - 5e-11 if lo[i] != -INF else base))
    sp = {"names": names, "mins": mins, "maxs": maxs, "defaults": None, "cb": cb, "ch": ch, "an": an,
          "names_as": names_as}
    elo, ehi = effective_bounds(sp)
    if rng.random() < 0.75:
        dcls = ["inside", "inside", "on_lo", "on_hi", "margin_lo", "margin_hi"] + (["nan"] if an else [])
        sp["defaults"] = [nz(value_for(rng, elo[i], ehi[i], rng.choice(dcls))) for i in range(n)]
    sp["as_array"] = rng.random() < 0.7
    return sp


def gen_bad_spec(rng):
    sp = gen_spec(rng)
    n = len(sp["names"])
    kind = rng.choice(["len_mins", "len_maxs", "len_defaults", "nan_defaults", "nan_mins", "maxs_below", "defaults_out",
                       "dup", "flags"])
    elo, ehi = effective_bounds(sp)
    if kind.startswith("len_"):
        key = kind[4:]
        sp[key] = [0.5] * (n + rng.choice([1, 2]) if n == 0 or rng.random() < 0.5 else n - 1)
    elif kind == "nan_defaults" and n:
        sp["an"] = False
        sp["defaults"] = [nz(value_for(rng, elo[i], ehi[i], "inside")) for i in range(n)]
        sp["defaults"][rng.randrange(n)] = NAN
    elif kind == "nan_mins" and n:
        sp["an"] = False
        sp["mins"] = list(elo)
        sp["mins"][rng.randrange(n)] = NAN
    elif kind == "maxs_below" and n:
        sp["mins"] = [0.0 if x == -INF else x for x in elo]
        sp["maxs"] = [x + 1.0 for x in sp["mins"]]
        i = rng.randrange(n)
        sp["maxs"][i] = sp["mins"][i] - rng.choice([1e-6, 1.0])
        sp["defaults"] = None
    elif kind == "defaults_out" and n:
        sp["mins"] = [0.0 if x == -INF else x for x in elo]
        sp["maxs"] = [x + 1.0 for x in sp["mins"]]
        sp["defaults"] = [x + 0.5 for x in sp["mins"]]
        i = rng.randrange(n)
        sp["defaults"][i] = sp["maxs"][i] + rng.choice([1e-6, 2.0]) if rng.random() < 0.5 else sp["mins"][i] - 1e-6
    elif kind == "dup" and n >= 2:
        sp["names"] = [sp["names"][0]] + sp["names"][:-1]
        sp["names_as"] = "list"
    elif kind == "flags":
        sp["cb"], sp["ch"] = False, True
    return sp


def gen_op(rng, sp, nvecs, classes=VALUE_CLASSES):
    """one random operation on a random live vector (all live vectors share names and bounds)"""
    n = len(sp["names"])
    lo, hi = effective_bounds(sp)
    k = rng.randrange(nvecs) if rng.random() < 0.6 else nvecs - 1
    q = rng.random()
    if q < 0.16:
        # accessors, non-numeric values, copy protocol: none of them may move anything
        c = rng.choice(["gk", "gk", "ga", "ga", "rd", "rd", "sb", "pc"])
        if c in ("gk", "ga"):
            # "yy" is never assigned: a foreign attribute set earlier (`v.zz = x`) is an ordinary Python attribute and
            # would be readable afterwards — not vector state
            return (c, k, rng.choice(sp["names"] + ["yy"]) if n else "yy")
        if c == "rd":
            return ("rd", k, rng.choice(["td", "ts", "st", "pg"]))
        if c == "sb":
            return ("sb", k, rng.choice(["attr", "key", "all"]))
        return ("pc", k, rng.choice(["deepcopy", "pickle"]))
    if q < 0.20 and n in (1, 2, 4):
        i = rng.randrange(n)
        xs = [nz(value_for(rng, lo[i], hi[i], rng.choice(classes))) for i in range(n)]
        return ("sv", k, xs, "scalar" if n == 1 else "2d")
    r = rng.random()
    if r < 0.30 and n:
        i = rng.randrange(n)
        x = nz(value_for(rng, lo[i], hi[i], rng.choice(classes)))
        return (rng.choice(["sa", "sk"]), k, sp["names"][i], x, rng.choice(["float", "np"]))
    if r < 0.36:
        return (rng.choice(["sa", "sk"]), k, rng.choice(["zz", "values_", "e"]), rng.choice([0.5, NAN, 3.0]), "float")
    if r < 0.58:
        xs = [nz(value_for(rng, lo[i], hi[i], rng.choice(classes))) for i in range(n)]
        return ("sv", k, xs, rng.choice(["list", "array"]))
    if r < 0.64:
        return ("sv", k, (rng.randrange(nvecs), rng.choice(FIELDS)), "getter")
    if r < 0.70:
        m = rng.choice([n + 1, n + 2, max(n - 1, 0)]) if n else rng.choice([1, 2])
        if m == n:
            m = n + 1
        return ("sv", k, [0.5] * m, "list")
    if r < 0.80:
        return ("rs", k)
    if r < 0.90:
        return ("cl", k) if nvecs < MAXVECS else ("rs", k)
    return ("dr", k) if nvecs < MAXVECS else ("sv", k, (k, "values"), "getter")


def exhaustive_shapes():
    """(spec, alphabet builder) — alphabets use the symbolic target 'cur' (newest vector) or 0"""
    s1 = {"names": ["a"], "defaults": [0.0], "mins": [-1.0], "maxs": [1.0], "cb": True, "ch": True, "an": False}
    a1 = [("sa", "cur", "a", 0.5), ("sa", "cur", "a", 2.0), ("sa", "cur", "a", NAN), ("sk", "cur", "zz", 0.5),
          ("sv", "cur", [-0.25]), ("sv", "cur", [-3.0]), ("sv", "cur", [0.5, 0.5]), ("rs", "cur"), ("cl", "cur"),
          ("dr", "cur"), ("sa", 0, "a", 1.0), ("sv", 0, [1.0 + 1e-6]), ("gk", "cur", "a"), ("sb", "cur", "attr"),
          ("pc", "cur", "deepcopy")]
    s2 = {"names": ["a", "b"], "defaults": [0.5, NAN], "mins": [0.0, -INF], "maxs": [1.0, INF], "cb": True, "ch": True,
          "an": True}
    a2 = [("sa", "cur", "a", 0.25), ("sk", "cur", "a", -1.0), ("sa", "cur", "b", NAN), ("sk", "cur", "b", INF),
          ("sv", "cur", [1.0, -7.0]), ("sv", "cur", [NAN, 2.0]), ("sv", "cur", [3.0, NAN]), ("sv", "cur", [0.5]),
          ("rs", "cur"), ("cl", "cur"), ("dr", "cur"), ("sk", 0, "b", 1e300), ("sv", 0, (0, "mins"), "getter"),
          ("rd", "cur", "td"), ("ga", "cur", "b"), ("sv", "cur", [0.75, 0.5], "2d")]
    s3 = {"names": [], "defaults": None, "mins": None, "maxs": None, "cb": True, "ch": False, "an": False}
    a3 = [("sa", "cur", "zz", 1.0), ("sk", "cur", "a", 1.0), ("sv", "cur", []), ("sv", "cur", [1.0]), ("rs", "cur"),
          ("cl", "cur"), ("dr", "cur"), ("rd", "cur", "ts"), ("pc", "cur", "pickle")]
    s4 = {"names": ["a", "b"], "defaults": None, "mins": [1.0, -2.0], "maxs": [3.0, -2.0], "cb": False, "ch": False,
          "an": False}
    a4 = [("sa", "cur", "a", 2.0), ("sk", "cur", "a", 0.0), ("sa", "cur", "b", -2.0), ("sa", "cur", "b", NAN),
          ("sv", "cur", [5.0, -2.0]), ("sv", "cur", [2.5, -2.0 - 1e-6]), ("sv", "cur", (0, "maxs"), "getter"),
          ("rs", "cur"), ("cl", "cur"), ("dr", "cur"), ("sa", 0, "a", 1.0 - 1e-6), ("gk", "cur", "zz"),
          ("sb", "cur", "all"), ("rd", "cur", "st")]
    return [(s1, a1), (s2, a2), (s3, a3), (s4, a4)]


def resolve(seq):
    """symbolic targets -> indices; spawns beyond MAXVECS become resets"""
    n, out = 1, []
    for op in seq:
        k = n - 1 if op[1] == "cur" else op[1]
        if op[0] in ("cl", "dr"):
            if n >= MAXVECS:
                out.append(("rs", k))
                continue
            n += 1
        out.append((op[0], k) + tuple(op[2:]))
    return out


# --------------------------------------------------------------------------------------
# transforms
# (which class re-syncs an inner BoxCox2, and every constructor's names / defaults / bounds / flags: the MODEL's table
# `TClass.kind` / `classSpecs` in lean/HydroVerif/Model/C12T.lean — the harness only names the class)
TCTOR = {
    "Identity": [{}], "Logit": [{}], "Log": [{}, {"mininu": 0.5}, {"base": 10.0}],
    "BoxCox2": [{}, {"mininu": 0.25, "minilam": -1.0}], "BoxCox1lam": [{}, {"mininu": 0.25, "minilam": -1.0}],
    "BoxCox1nu": [{}, {"mininu": 0.25, "minilam": -1.0}], "BoxCox2sym": [{}, {"mininu": 0.25, "minilam": -1.0}],
    "YeoJohnson": [{}], "Reciprocal": [{}, {"mininu": 0.5}], "Softmax": [{}], "Sinh": [{}], "LogSinh": [{}],
    "Manly": [{}],
}
READONLY = ["fw", "bw", "jc", "sm", "lp", "pr", "bcz", "tg", "tpc"]
READS = ["gi", "gat"]          # trans[name] / getattr(trans, name): accepted / rejected and the value read are compared
MODEL_TOKEN = {"bcz": "fw", "tg": "pr", "tpc": "pr"}    # backward_censored = forward + backward; pure reads = print
CTOR_ARGS = {"Log": ("mininu", "base"), "Reciprocal": ("mininu",), "BoxCox2": ("mininu", "minilam"),
             "BoxCox1lam": ("mininu", "minilam"), "BoxCox1nu": ("mininu", "minilam"), "BoxCox2sym": ("mininu", "minilam")}
# constructor arguments at and around the constructors' own guards (`minilam < -3`, mins <= defaults <= maxs, NaN)
MININU_X = [0.0, 1e-3, 0.5, -1.0, INF, -INF, NAN, 1e-10, 2.5]
MINILAM_X = [-3.0, -3.0 - 1e-9, -3.5, -2.999, -INF, NAN, 1.0, 1.0 + 1e-6, 2.0, 3.0, 3.5, INF, 0.0, -1.0]


def gen_ctor_kwargs(rng, clsname, exotic=0.3):
    """constructor keywords of one transform class: the usual ones, or (probability `exotic`) values at and around the
    constructor guards — the model's class table decides accepted / rejected and the resulting bounds"""
    if clsname not in CTOR_ARGS or rng.random() >= exotic:
        return dict(rng.choice(TCTOR[clsname]))
    kw = {"_exotic": True}       # outside the usual constructor arguments: correspondence only, no oracle on the fresh object
    if rng.random() < 0.7:
        kw["mininu"] = rng.choice(MININU_X)
    if "minilam" in CTOR_ARGS[clsname] and rng.random() < 0.7:
        kw["minilam"] = rng.choice(MINILAM_X)
    if "base" in CTOR_ARGS[clsname] and rng.random() < 0.3:
        kw["base"] = 10.0
    return kw


def ctor_tokens(kwargs):
    return [h(kwargs[k]) if k in kwargs else "-" for k in ("mininu", "minilam")]


def spec_of_vector(v):
    return {"names": [str(x) for x in v.names], "defaults": [float(x) for x in v.defaults],
            "mins": [float(x) for x in v.mins], "maxs": [float(x) for x in v.maxs],
            "cb": bool(v.check_bounds), "ch": bool(v.check_hitbounds), "an": bool(v.accept_nan)}


def trans_vectors(t):
    vs = [t.params, t.constants]
    if hasattr(t, "BC"):
        vs.append(t.BC.params)
    return vs


def gen_top(rng, pspec, cspec):
    r = rng.random()
    both = [(pspec, nm) for nm in pspec["names"]] + [(cspec, nm) for nm in cspec["names"]]
    if r < 0.08:
        # item / attribute reads; "yy" / "qq" are never assigned as foreign attributes
        return (rng.choice(READS), rng.choice([nm for _, nm in both] + ["yy", "qq"]))
    if r < 0.5:
        return (rng.choice(READONLY),)
    if r < 0.80:
        if both and rng.random() < 0.85:
            sp, nm = rng.choice(both)
            i = sp["names"].index(nm)
            cls = rng.choice(["inside", "inside", "on_lo", "on_hi", "below", "above", "below6", "above6", "nan",
                              "pinf"])
            x = nz(value_for(rng, sp["mins"][i], sp["maxs"][i], cls))
            if rng.random() < 0.3:
                # values at and next to the points where a transform formula changes branch (exponents 0 and 2,
                # the 1e-10 / 1e-8 / 2e-5 switches): a read-only call must not "snap" them in place
                b = rng.choice([0.0, 1e-9, -1e-9, 1e-10, 1.1e-10, 1e-8, 2.0, 2.00001, 1.999995, 2.0 + 1e-9, 1.0])
                if sp["mins"][i] <= b <= sp["maxs"][i]:
                    x = b
        else:
            nm, x = rng.choice(["zz", "nope"]), rng.choice([0.5, NAN])
        return (rng.choice(["ti", "ta"]), nm, x)
    if r < 0.86:
        return ("tr",)
    sp, tag = (pspec, "pv") if rng.random() < 0.6 or not cspec["names"] else (cspec, "cv")
    n = len(sp["names"])
    if rng.random() < 0.15:
        return (tag, [0.5] * (n + 1))
    cls = ["inside", "inside", "on_lo", "on_hi", "below", "above", "nan"]
    return (tag, [nz(value_for(rng, sp["mins"][i], sp["maxs"][i], rng.choice(cls))) for i in range(n)])


def top_token(op):
    if op[0] in MODEL_TOKEN:
        return MODEL_TOKEN[op[0]]
    if op[0] in ("ti", "ta"):
        return f"{op[0]}:{op[1]}:{h(op[2])}"
    if op[0] == "gi":
        return f"tgi:{op[1]}"
    if op[0] == "gat":
        return f"tga:{op[1]}"
    if op[0] in ("pv", "cv"):
        return f"{op[0]}:{fl(op[1])}"
    return op[0]


def apply_top(np, t, clsname, op, xin):
    """-> ('ok' | 'rej', value read or '-'): 'rej' = assignment rejected by ValueError / read rejected by ValueError or
    AttributeError; the other read-only calls never report rejection"""
    kind = op[0]
    if kind == "gi":
        try:
            return "ok", h(t[op[1]])
        except ValueError:
            return "rej", "-"
    if kind == "gat":
        try:
            return "ok", h(getattr(t, op[1]))
        except AttributeError:
            return "rej", "-"
    if kind in READONLY:
        try:
            with np.errstate(all="ignore"):
                if kind in ("fw", "bw", "jc"):
                    xarg = np.array(xin, dtype=np.float64) if isinstance(xin, np.ndarray) else xin
                    r = (t.forward if kind == "fw" else t.backward if kind == "bw" else t.jacobian)(xarg)
                    for a in (r, xarg):              # edit the returned and the input array in place afterwards
                        if isinstance(a, np.ndarray) and a.flags.writeable and a.size:
                            a[...] = 1e9
                elif kind == "sm":
                    smp = t.params_sample(5)
                    if isinstance(smp, np.ndarray) and smp.flags.writeable and smp.size:
                        smp[...] = 1e9               # the samples are the caller's: editing them must not reach the bounds
                elif kind == "lp":
                    t.params_logprior()
                elif kind == "bcz":
                    r = t.backward_censored(xin, censor=0.05)
                    if isinstance(r, np.ndarray) and r.flags.writeable:
                        r[...] = -5.0             # edit the returned array in place
                elif kind == "tg":
                    for nm in list(t.params.names) + list(t.constants.names) + ["zz"]:
                        try:
                            t[str(nm)], getattr(t, str(nm))
                        except (ValueError, AttributeError):
                            pass
                    t.params, t.constants, t.name
                elif kind == "tpc":
                    import copy
                    import pickle
                    copy.deepcopy(t) if xin is not None and np.ndim(xin) else pickle.loads(pickle.dumps(t))
                else:
                    str(t), str(t.params), str(t.constants)
        except Exception:
            pass     # C01/C02 territory (Manly's unbound names, NaN constants, domain errors): only the state matters here
        return "ok", "-"
    try:
        if kind == "ti":
            t[op[1]] = op[2]
        elif kind == "ta":
            setattr(t, op[1], op[2])
        elif kind == "tr":
            t.reset()
        elif kind == "pv":
            t.params.values = list(op[1])
        elif kind == "cv":
            t.constants.values = list(op[1])
    except ValueError:
        return "rej", "-"
    return "ok", "-"


def build_transform(transform, clsname, kwargs):
    """-> (object or None when the constructor / get_transform raised ValueError, request head)"""
    kwargs = dict(kwargs)
    kwargs.pop("_exotic", None)
    via = kwargs.pop("_get_transform", None)     # {name: value}: keywords handed to get_transform next to the constructor's
    name = kwargs.pop("_name", clsname)          # get_transform(name, ...): possibly not a transform name
    try:
        if via is None:
            head = ["C", clsname] + ctor_tokens(kwargs)
            t = getattr(transform, clsname)(**kwargs)
        else:
            allkw = dict(kwargs, **via)
            head = ["G", name, ";".join(f"{k}={h(x)}" for k, x in allkw.items()) or "-"]
            t = transform.get_transform(name, **allkw)
    except ValueError:
        return None, head
    return t, head


def run_transform_case(np, transform, clsname, kwargs, ops, rng_inputs):
    """-> (request, obs list, findings, changed). The request names the CLASS and its constructor keywords only: names,
    defaults, bounds and flags of params / constants / BC.params come from the model's own class table."""
    t, req = build_transform(transform, clsname, kwargs)
    if t is None:
        return " ".join(req), ["rej"], [], False
    vecs = trans_vectors(t)
    ws = WorldSnap(np, vecs)
    obs = [ws.observe("ok")]
    findings = []
    changed = False
    who = ("params", "constants", "BC.params")
    for j, sn in enumerate(ws.snaps if not kwargs.get("_exotic") else []):
        fresh = "_get_transform" not in kwargs
        if fresh and (sn.view[1] != sn.view[4] or sn.view[5] != "0"):
            findings.append((f"transform/{clsname}/fresh_instance_not_at_defaults",
                             f"{who[j]} of a fresh {clsname}: values {sn.floats[0]} defaults {sn.floats[3]}", -1))
        if sn.inv is not None:
            findings.append((f"transform/{clsname}/fresh_instance_invariant/{sn.inv}", f"{who[j]} of a fresh {clsname}", -1))
    for step, op in enumerate(ops):
        req.append(top_token(op))
        wb = ws
        before = wb.views
        xin = rng_inputs[step % len(rng_inputs)]
        if clsname == "Softmax":
            xin = np.array([[0.1, 0.2, 0.3], [0.05, 0.5, 0.2]])
        out, rv = apply_top(np, t, clsname, op, xin)
        now = trans_vectors(t)
        if len(now) != len(vecs) or any(a is not b for a, b in zip(now, vecs)):
            findings.append((f"transform/{clsname}/{op[0]}/vector_replaced", "params/constants object was replaced", step))
            vecs = now
        ws = WorldSnap(np, vecs)
        after = ws.views
        obs.append(ws.observe(out, rv, wb))
        if after != before:
            changed = True
        if op[0] in READS and out == "ok":
            for j in (0, 1):
                nms = before[j][0]
                if op[1] in nms:
                    if rv != h(wb.snaps[j].floats[0][nms.index(op[1])]):
                        findings.append((f"transform/{clsname}/{op[0]}/read_value_wrong",
                                         "trans[name] / trans.name is not the stored element", step))
                    break
        for j, sn in enumerate(ws.snaps):
            if j >= len(before):
                continue
            if sn.inv is not None and wb.snaps[j].inv is None:
                findings.append((f"transform/{clsname}/{op[0]}/invariant/{sn.inv}", f"{who[j]} violates the invariant", step))
            if VectorRun.frozen(after[j]) != VectorRun.frozen(before[j]):
                findings.append((f"transform/{clsname}/{op[0]}/bounds_changed",
                                 f"names/bounds/defaults/flags of {who[j]} changed", step))
        if op[0] in READONLY or op[0] in READS:
            for j in (0, 1):
                if after[j] != before[j] and VectorRun.frozen(after[j]) == VectorRun.frozen(before[j]):
                    findings.append((f"transform/{clsname}/{op[0]}/values_changed",
                                     f"a read-only call changed the values / hit flag of {who[j]}", step))
            if ws.alias[:8] != wb.alias[:8]:
                findings.append((f"transform/{clsname}/{op[0]}/arrays_rebound",
                                 "a read-only call changed which arrays params / constants hold or share", step))
        elif out == "rej" and (after != before or ws.alias != wb.alias):
            findings.append((f"transform/{clsname}/{op[0]}/rejected_changes_state", "a rejected assignment changed the state", step))
    return " ".join(req), obs, findings, changed


# --------------------------------------------------------------------------------------
# several live transform instances in one process
TWIN_GROUPS = [["LogSinh", "Manly"], ["BoxCox1lam", "BoxCox1nu", "BoxCox2sym", "BoxCox2"], ["Log", "Reciprocal"],
               ["Sinh", "YeoJohnson", "Logit"], ["Identity", "Softmax", "Logit"]]


def run_twin_case(np, transform, ops, inputs):
    """ops: ("new", class, kwargs) builds one more instance, (i, top) operates on the i-th.
    -> (request, observations, findings [(sig, what, step)], changed)"""
    insts = []          # (object, class name, its vectors)
    owner = []          # instance index of every vector, in world order
    req, obs, findings = ["M"], [], []
    changed = False
    ws = WorldSnap(np, [])

    def allvecs():
        return [v for (_, _, vs) in insts for v in vs]
    for step, op in enumerate(ops):
        wb = ws
        if op[0] in ("new", "newbad"):
            # "new": a constructor call that is accepted; "newbad": one the constructor rejects (no instance appears)
            cls, kwargs = op[1], {k: x for k, x in op[2].items() if not k.startswith("_")}
            req.append(":".join(["newc", cls] + ctor_tokens(kwargs)))
            try:
                t = getattr(transform, cls)(**kwargs)
            except ValueError:
                t = None
            if t is None or op[0] == "newbad":
                ws = WorldSnap(np, allvecs())
                obs.append(ws.observe("rej" if t is None else "ok", "-", wb))
                if ws.views != wb.views:
                    findings.append((f"transform/twin/{cls}/rejected_construction_changes_state",
                                     "a constructor call that raised changed a vector of a live instance", step))
                continue
            vs = trans_vectors(t)
            insts.append((t, cls, vs))
            owner += [len(insts) - 1] * len(vs)
            ws = WorldSnap(np, allvecs())
            obs.append(ws.observe("ok", "-", wb))
            who = ("params", "constants", "BC.params")
            for j, sn in enumerate(ws.snaps[len(ws.snaps) - len(vs):]):
                if sn.view[1] != sn.view[4] or sn.view[5] != "0":
                    findings.append((f"transform/twin/{cls}/fresh_instance_not_at_defaults",
                                     f"a freshly constructed {cls} does not start from its constructor defaults: {who[j]} "
                                     f"values {sn.floats[0]} defaults {sn.floats[3]}", step))
                if sn.inv is not None:
                    findings.append((f"transform/twin/{cls}/fresh_instance_invariant/{sn.inv}", f"{who[j]} of a fresh {cls}", step))
            if wb is not None and ws.views[:len(wb.views)] != wb.views:
                findings.append((f"transform/twin/{cls}/construction_changes_other_instance",
                                 "constructing a transform changed a vector of an existing instance", step))
        else:
            i, top = op
            t, cls, vs = insts[i]
            xin = inputs[step % len(inputs)]
            if cls == "Softmax":
                xin = np.array([[0.1, 0.2, 0.3], [0.05, 0.5, 0.2]])
            out, rv = apply_top(np, t, cls, top, xin)
            req.append(f"{i}.{top_token(top)}")
            ws = WorldSnap(np, allvecs())
            obs.append(ws.observe(out, rv, wb))
            if ws.views != wb.views:
                changed = True
            for g in range(len(ws.views)):
                if owner[g] != i and ws.views[g] != wb.views[g]:
                    other = insts[owner[g]][1]
                    findings.append((f"transform/twin/{cls}->{other}/{top[0]}/other_instance_changed",
                                     f"an operation on one {cls} changed a vector of another live instance ({other})", step))
            if top[0] in READONLY or top[0] in READS:
                base = owner.index(i)
                for j in (0, 1):
                    if ws.views[base + j] != wb.views[base + j]:
                        findings.append((f"transform/{cls}/{top[0]}/values_changed",
                                         "a read-only call changed what params / constants show", step))
        for g, a in enumerate(ws.alias):          # alias classes are per array: four arrays per vector
            if a != g and owner[a // 4] != owner[g // 4]:
                findings.append(("transform/twin/shares_memory",
                                 f"arrays of two different instances ({insts[owner[a // 4]][1]}, {insts[owner[g // 4]][1]}) "
                                 "share memory", step))
                break
    return " ".join(req), obs, findings, changed


def twin_valid(ops):
    n = 0
    for op in ops:
        if op[0] == "new":
            n += 1
        elif op[0] == "newbad":
            continue
        elif op[0] >= n:
            return False
    return n > 0


def shrink_twin(np, transform, ops, inputs, sig):
    def fails(seq):
        try:
            for f in run_twin_case(np, transform, seq, inputs)[2]:
                op = seq[f[2]]
                if f[0] == sig and (op[0] in ("new", "newbad") or op[1][0] != "tpc"):
                    return True
        except Exception:
            pass
        return False
    cur = list(ops)
    changed = True
    while changed:
        changed = False
        for i in range(len(cur)):
            cand = cur[:i] + cur[i + 1:]
            # dropping a "new" renumbers the instances after it
            if cur[i][0] == "new":
                k = sum(1 for o in cur[:i] if o[0] == "new")
                cand = [o if o[0] in ("new", "newbad") else ((o[0] - 1, o[1]) if o[0] > k else o) for o in cand
                        if o[0] in ("new", "newbad") or o[0] != k]
            if twin_valid(cand) and fails(cand):
                cur, changed = cand, True
                break
    return cur


def gen_twin_ops(rng, transform):
    r = rng.random()
    if r < 0.35:
        classes = [rng.choice(list(TCTOR))] * rng.choice([2, 3])
    elif r < 0.85:
        grp = rng.choice(TWIN_GROUPS)
        classes = [rng.choice(grp) for _ in range(rng.choice([2, 3]))]
    else:
        classes = [rng.choice(list(TCTOR)) for _ in range(2)]
    ops, specs = [], []

    def new(cls):
        kwargs = gen_ctor_kwargs(rng, cls, 0.15)
        try:
            t0 = getattr(transform, cls)(**{k: x for k, x in kwargs.items() if not k.startswith("_")})
        except ValueError:
            ops.append(("newbad", cls, kwargs))      # rejected by the constructor: no instance
            kwargs = dict(rng.choice(TCTOR[cls]))
            t0 = getattr(transform, cls)(**kwargs)
        specs.append((spec_of_vector(t0.params), spec_of_vector(t0.constants)))
        ops.append(("new", cls, kwargs))
    for cls in classes:
        new(cls)
    for _ in range(rng.choice([3, 6, 10])):
        i = rng.randrange(len(specs))
        ops.append((i, gen_top(rng, *specs[i])))
        if rng.random() < 0.05:
            ops.append(("newbad", "BoxCox2", {"minilam": rng.choice([-3.5, -INF, 3.5, NAN])}))
    new(rng.choice(classes))            # a fresh instance after the assignments
    for _ in range(rng.choice([1, 3, 5])):
        i = rng.randrange(len(specs))
        ops.append((i, gen_top(rng, *specs[i])))
    return ops


def kw_json(kw):
    return {k: (repr(float(x)) if isinstance(x, float) else x) for k, x in kw.items()}


def kw_from_json(kw):
    return {k: (float(x) if isinstance(x, str) and k in ("mininu", "minilam", "base") else x) for k, x in kw.items()}


def twin_json(ops):
    return [[o[0], o[1], kw_json(o[2])] if o[0] in ("new", "newbad") else [o[0], op_json(o[1])] for o in ops]


def twin_from_json(j):
    return [(o[0], o[1], kw_from_json(o[2])) if o[0] in ("new", "newbad") else (int(o[0]), op_from_json(o[1])) for o in j]


def shrink_tops(np, transform, clsname, kwargs, ops, inputs, sig):
    def fails(seq):
        try:
            return any(f[0] == sig for f in run_transform_case(np, transform, clsname, kwargs, seq, inputs)[2])
        except Exception:
            return False
    cur = list(ops)
    changed = True
    while changed:
        changed = False
        for i in range(len(cur)):
            cand = cur[:i] + cur[i + 1:]
            if cand and fails(cand):
                cur, changed = cand, True
                break
    return cur


# --------------------------------------------------------------------------------------
def body(ctx):
    import warnings
    import numpy as np
    warnings.simplefilter("ignore")
    from hydrodiy.data.containers import Vector
    from hydrodiy.data import containers
    from hydrodiy.stat import transform
    rng = ctx.rng
    np.random.seed(rng.getrandbits(32))
    reqs, impls, cases = [], [], []
    extras = {}          # request index -> {"regions": [...]} (vector cases)
    shrunk = set()

    eps_model = ctx.lean.ask(["eps"])[0]
    if eps_model != C.f2h(containers.EPS):
        ctx.disagree("EPS constant differs", {"model": eps_model, "code": C.f2h(containers.EPS)})

    def vector_case(spec, ops, gen, model=True, oracle=True):
        """model=False: oracle only (the `margin` stream: inside the (0, 1e-10] margin the two assignment paths set the
        flag differently and a rewrite may harmonise them — the hit oracle is conditioned, everything else is checked);
        oracle=False: correspondence only (the `nanbounds` stream: NaN bounds are outside the quantifier)"""
        try:
            r = run_vector_case(np, Vector, spec, ops)
        except Exception as e:   # the class under test failed in a way the runner does not expect
            if oracle:
                ctx.finding("vector/unexpected_exception", f"{type(e).__name__}: {e}",
                            {"spec": spec_json(spec), "ops": [op_json(o) for o in ops]})
            else:
                ctx.hist[f"{gen}/exception"] = ctx.hist.get(f"{gen}/exception", 0) + 1
            return
        req = " ".join(["V", spec_token(spec)] + r.used_ops)
        case = {"gen": gen, "spec": spec_json(spec), "ops": [op_json(o) for o in ops]}
        if model:
            reqs.append(req)
            impls.append(r.obs)
            cases.append(case)
            extras[len(reqs) - 1] = {"regions": r.regions if oracle else []}
        rejected_ctor = r.obs == ["rej"]
        ctx.count(req, (not rejected_ctor) and r.changed,
                  "ctor_rejected" if rejected_ctor else f"{gen}/n={len(spec['names'])}/depth={len(ops)}",
                  sample={"request": req[:300], "last_observation": r.obs[-1][:300]})
        for op, o in zip(ops, r.obs[1:]):
            key = f"op/{op[0]}/{o.split(' ', 1)[0]}"
            ctx.hist[key] = ctx.hist.get(key, 0) + 1
        for sig, what, step, soft in (r.findings if oracle else []):
            fops = ops[:step + 1]
            if soft:
                ctx.disagree(f"outside the property's operations (copy.deepcopy / pickle involved): vector/{sig}: {what}",
                             {"spec": spec_json(spec), "ops": [op_json(o) for o in fops], "step": step})
                continue
            if sig not in shrunk:
                shrunk.add(sig)
                fops = shrink_ops(np, Vector, spec, fops, sig)
            ctx.finding("vector/" + sig, what, {"spec": spec_json(spec), "ops": [op_json(o) for o in fops], "step": len(fops) - 1})

    tcases = []
    inputs = [np.array([0.1, 0.5, 2.0]), 0.3, np.array([-1.0, 0.0, 1.5, 30.0]), np.array([[0.2, 0.1]]), 7.0]

    def transform_case(clsname, kwargs, ops, gen="transform"):
        try:
            req, obs, findings, changed = run_transform_case(np, transform, clsname, kwargs, ops, inputs)
        except Exception as e:
            ctx.finding(f"transform/{clsname}/unexpected_exception", f"{type(e).__name__}: {e}",
                        {"class": clsname, "kwargs": repr(kwargs)})
            return
        reqs.append(req)
        impls.append(obs)
        kwj = {k: (kw_json(x) if isinstance(x, dict) else repr(float(x)) if isinstance(x, float) else x)
               for k, x in kwargs.items()}
        cases.append({"gen": gen, "class": clsname, "kwargs": kwj, "ops": [op_json(o) for o in ops]})
        tcases.append(len(reqs) - 1)
        ctx.count(req, changed, f"{gen}/{clsname}" + ("/ctor_rejected" if obs == ["rej"] else ""), sample=None)
        for op in ops:
            key = f"top/{op[0]}"
            ctx.hist[key] = ctx.hist.get(key, 0) + 1
        for sig, what, step in findings:
            fops = ops[:step + 1] if step >= 0 else []
            if step < 0:
                ctx.finding(sig, what, {"class": clsname, "kwargs": kwj, "ops": []})
                continue
            if ops[step][0] == "tpc":
                ctx.disagree(f"outside the property's operations (copy.deepcopy / pickle of the transform): {sig}: {what}",
                             {"class": clsname, "kwargs": kwj, "ops": [op_json(o) for o in fops]})
                continue
            if sig not in shrunk:
                shrunk.add(sig)
                fops = shrink_tops(np, transform, clsname, kwargs, fops, inputs, sig)
            ctx.finding(sig, what, {"class": clsname, "kwargs": kwj, "ops": [op_json(o) for o in fops]})

    def twin_case(ops, gen="twin"):
        try:
            req, obs, findings, changed = run_twin_case(np, transform, ops, inputs)
        except Exception as e:
            ctx.finding("transform/twin/unexpected_exception", f"{type(e).__name__}: {e}", {"ops": twin_json(ops)})
            return
        reqs.append(req)
        impls.append(obs)
        cases.append({"gen": gen, "ops": twin_json(ops)})
        classes = "+".join(o[1] for o in ops if o[0] == "new")
        ctx.count(req, changed, f"{gen}/{classes}" if gen == "corpus" else gen, sample=None)
        for op in ops:
            key = f"top/{op[0]}" if op[0] in ("new", "newbad") else f"top/{op[1][0]}"
            ctx.hist[key] = ctx.hist.get(key, 0) + 1
        for sig, what, step in findings:
            fops = ops[:step + 1]
            if ops[step][0] not in ("new", "newbad") and ops[step][1][0] == "tpc":
                ctx.disagree(f"outside the property's operations (copy.deepcopy / pickle of the transform): {sig}: {what}",
                             {"ops": twin_json(fops)})
                continue
            if sig not in shrunk:
                shrunk.add(sig)
                fops = shrink_twin(np, transform, fops, inputs, sig)
            ctx.finding(sig, what, {"ops": twin_json(fops)})

    # ---- (0) corpus: minimised past failures, replayed first
    import json as _json
    for f in sorted((C.ROOT / "corpus" / PID).glob("*.json")):
        j = _json.loads(f.read_text())
        if j.get("kind") == "twin":
            twin_case(twin_from_json(j["ops"]), "corpus")
        elif j.get("kind") == "transform":
            kwc = {k: (kw_from_json(x) if isinstance(x, dict) else x) for k, x in kw_from_json(j.get("kwargs", {})).items()}
            transform_case(j["class"], kwc, [op_from_json(o) for o in j["ops"]], "corpus")
        else:
            vector_case(spec_from_json(j["spec"]), [op_from_json(o) for o in j["ops"]], "corpus")

    # ---- (i) exhaustive sequences of fixed depth
    depth = ctx.scale(4, 5)
    quick_alpha = ctx.scale(7, 8)
    for si, (spec, alpha) in enumerate(exhaustive_shapes()):
        # the full alphabet one level shallower, a seed-chosen sub-alphabet (always holding the spawning ops) at full depth
        spawn = [a for a in alpha if a[0] in ("cl", "dr", "rs")]
        rest = [a for a in alpha if a not in spawn]
        sub = spawn + rng.sample(rest, max(0, min(len(rest), quick_alpha - len(spawn))))
        # the "full" level is capped at 12 operations (seed-chosen among the non-spawning ones) to bound the cost
        wide = spawn + rng.sample(rest, min(len(rest), 12 - len(spawn)))
        seqs = list(itertools.product(wide, repeat=depth - 1)) + list(itertools.product(sub, repeat=depth))
        for seq in seqs:
            vector_case(spec, resolve(seq), f"exhaustive{si + 1}")

    # ---- (ii) random vectors x random sequences
    for _ in range(ctx.scale(500, 3000)):
        spec = gen_spec(rng)
        ops, n = [], 1
        for _ in range(rng.choice([3, 10, 40, 40])):
            op = gen_op(rng, spec, n)
            if op[0] in ("cl", "dr"):
                n += 1
            ops.append(op)
        vector_case(spec, ops, "random")

    # ---- (iii) malformed constructor stream (kept separate)
    for _ in range(ctx.scale(300, 3000)):
        spec = gen_bad_spec(rng)
        vector_case(spec, [("rs", 0), ("cl", 0)], "malformed")

    # ---- (iii-b) the two points the theorems exclude by hypothesis, probed on the real code
    # margin: assigned values inside the (0, 1e-10] margin of a bound (theorem `inRegion_needed`: there the whole-vector
    # path clips without flagging). Oracle only — everything but the flag is checked (stored == nearest point of the
    # interval, invariant, frozen bounds, rejected => untouched, copies) and the hit oracle keeps its conditioning.
    for _ in range(ctx.scale(150, 1500)):
        spec = gen_spec(rng)
        ops, n = [], 1
        for _ in range(rng.choice([3, 10, 25])):
            op = gen_op(rng, spec, n, VALUE_CLASSES + ["margin_lo", "margin_hi", "margin_lo", "margin_hi"])
            if op[0] in ("cl", "dr"):
                n += 1
            ops.append(op)
        vector_case(spec, ops, "margin", model=False)
    # nanbounds: NaN among mins / maxs with accept_nan=True (theorem `nanFree_bounds_needed`: the constructor accepts
    # them and the vector is not well formed). Outside the quantifier: correspondence only, no oracle.
    for _ in range(ctx.scale(100, 1000)):
        spec = gen_spec(rng)
        n = len(spec["names"])
        if n == 0:
            continue
        spec["an"] = True
        for key in rng.choice([("mins",), ("maxs",), ("mins", "maxs")]):
            xs = list(spec[key]) if spec[key] is not None else [(-INF if key == "mins" else INF)] * n
            xs[rng.randrange(n)] = NAN
            spec[key] = xs
        ops, k = [], 1
        for _ in range(rng.choice([2, 6, 12])):
            op = gen_op(rng, spec, k)
            if op[0] in ("cl", "dr"):
                k += 1
            ops.append(op)
        vector_case(spec, ops, "nanbounds", oracle=False)
    ctx.hist.setdefault("nanbounds/differs_from_model", 0)

    # ---- (iv) transforms
    ninter = ctx.scale(40, 1200)
    for clsname in transform.__all__:
        if clsname not in TCTOR:
            ctx.disagree("transform class not known to the harness", {"class": clsname})
            continue
        for it in range(ninter):
            kwargs = gen_ctor_kwargs(rng, clsname)
            plain = {k: x for k, x in kwargs.items() if not k.startswith("_")}
            try:
                t0 = getattr(transform, clsname)(**plain)
            except ValueError:
                # the constructor rejects these arguments (guard `minilam < -3`, NaN, defaults outside the bounds): the
                # model's class table must reject them too — directly and through get_transform
                if rng.random() < 0.5:
                    kwargs = dict(kwargs, _get_transform={})
                transform_case(clsname, kwargs, [])
                continue
            except Exception as e:
                ctx.finding(f"transform/{clsname}/unexpected_exception", f"{type(e).__name__}: {e}",
                            {"class": clsname, "kwargs": repr(kwargs)})
                continue
            pspec, cspec = spec_of_vector(t0.params), spec_of_vector(t0.constants)
            ops = [gen_top(rng, pspec, cspec) for _ in range(rng.choice([4, 12, 25]))]
            both = [(pspec, nm) for nm in pspec["names"]] + [(cspec, nm) for nm in cspec["names"]]
            if rng.random() < 0.25:
                # the same class built by get_transform(name, **constructor args, **parameter / constant values,
                # **foreign keywords): constructor keywords of OTHER classes and unknown names are skipped, a NaN for a
                # parameter makes get_transform raise
                via = {}
                for sp, nm in rng.sample(both, rng.randint(0, len(both))):
                    i = sp["names"].index(nm)
                    via[nm] = nz(value_for(rng, sp["mins"][i], sp["maxs"][i],
                                           rng.choice(["inside", "on_lo", "on_hi", "below", "above", "below6", "nan"])))
                for key in ("mininu", "minilam", "base", "zz"):
                    if key not in CTOR_ARGS.get(clsname, ()) and key not in via and rng.random() < 0.2:
                        via[key] = rng.choice([0.5, NAN, -7.0])
                kwargs = dict(kwargs, _get_transform=via)
                if rng.random() < 0.04:
                    kwargs["_name"] = rng.choice(["Nope", clsname.lower(), "Transform", "get_transform"])
            transform_case(clsname, kwargs, ops)
    # ---- (v) several live instances of the same class / of classes written alike, a fresh one after the assignments
    for _ in range(ctx.scale(150, 3000)):
        twin_case(gen_twin_ops(rng, transform))
    tset = set(tcases)

    # ---- correspondence: every observation of every step
    replies = []
    chunk = 4000
    for i in range(0, len(reqs), chunk):
        replies += ctx.lean.ask(reqs[i:i + chunk])
    nsteps = 0
    for idx, (req, impl, rep, case) in enumerate(zip(reqs, impls, replies, cases)):
        mobs = rep.split(" | ")
        if len(mobs) == 1 and mobs[0].startswith("rej ") and len(mobs[0].split(" ")) == 2:
            model = ["rej"]           # the constructor / get_transform raised: no object, no observation
        elif rep == "bad-op":
            model = ["bad-op"]
        else:
            model, gflags = [], []
            for o in mobs:
                s, kind, g = strip_kind(o)
                model.append(s)
                gflags.append(g)
            ex = extras.get(idx, {})
            # the theorems' conditioning (`inRegion`, evaluated by the model) must hold wherever the harness's own,
            # stricter conditioning (inside / on the bound / >= 1e-6 outside) held and the hit oracle was applied
            for j, reg in enumerate(ex.get("regions", [])):
                if reg and j + 1 < len(gflags) and gflags[j + 1] == "G0":
                    ctx.disagree("conditioning: the oracle's region is not inside the theorem's inRegion",
                                 {"request": req[:1500], "step": j})
        nsteps += len(impl)
        if case.get("gen") == "nanbounds":
            # outside the quantifier (NaN bounds): what the real code does there is recorded, never an alarm — a rewrite
            # may legitimately clip differently against a NaN bound
            key = "nanbounds/agrees_with_model" if impl == model else "nanbounds/differs_from_model"
            ctx.hist[key] = ctx.hist.get(key, 0) + 1
            continue
        if impl != model:
            # first differing step
            j = next((i for i, (a, b) in enumerate(zip(impl, model)) if a != b), min(len(impl), len(model)))
            ctx.compare("C12", {"request": req[:2000], "case": case, "step": j - 1},
                        impl[j] if j < len(impl) else "<missing>", model[j] if j < len(model) else "<missing>")
    ctx.extra["steps_compared"] = nsteps
    ctx.extra["rule"] = __doc__.split("Cases:")[1].strip()
    ctx.assumptions += [
        "names are distinct identifiers that do not collide with attributes of the Vector class",
        "bounds are finite or infinite, not NaN (a NaN bound is accepted by the constructor when accept_nan=True; outside the quantifier)",
        "assigned values are inside, on, or >= 1e-6 outside the bounds (the property's conditioning); inside the (0, 1e-10] margin "
        "the values setter clips without flagging while __setattr__ flags: not generated for assignments, only for constructor "
        "defaults / maxs (accepted and clipped)",
        "whether a read-only transform call itself raises (domain errors, Manly's unbound names) is not compared: only the state after it",
        "copy.deepcopy / pickle are outside the property's operations: observations at such a step, or later in a history in which "
        "one of them produced an object, are correspondence-only (disagreement), never a failing input",
        "numpy.clip / astype / flatten / copy are external: observed through values and np.shares_memory, modelled as fresh allocations",
    ]


def main(tier, replay=None):
    return C.run_check(PID, tier, body, needs_native=False, replay=replay,
                       trusted=["numpy array allocation / view semantics (observed with np.shares_memory, not verified)",
                                "CPython attribute protocol (__getattribute__/__setattr__ dispatch)"])
