"""C15 — point-in-polygon answers agree with the even-odd rule.

Model: lean/HydroVerif/Model/C15.lean (c_inside: box test, half-open edge rule, pre-test, tolerance guards, toggle;
wrapper extent, nprint conversion, answer-vector guards and zero initialisation; Grid.cells_inside_polygon),
Model/C15Round.lean (the same model run in ROUNDED arithmetic `Rd K rnd`; `rnd53` = executable binary64 rounding on
exact rationals; decided hypotheses of the rounding theorems), Model/C15Hist.lean (state machines: the caller's
arrays / tolerance / answer buffer across calls of points_inside_polygon, Grid objects and their clones across
queries; memoryless specifications); theorems: lean/HydroVerif/Props/C15.lean.
Correspondence: `gutils.points_inside_polygon` (rebuilt kernel) against the Float instance of the model, answer
by answer and bit for bit, for every generated point (also on / near the boundary and for several tolerances,
negative / infinite / NaN included); the Rat instance of the model and the tolerance-free even-odd specification
(right and left ray) are evaluated on the same inputs converted exactly and compared with the code for every point
farther than the tolerance from the boundary; the model in SIMULATED binary64 arithmetic (request `pipr`: every
+ - * / rounded by rnd53 on exact rationals) is compared with the real kernel at EVERY point, together with the
decided hypotheses of rounded_inside_eq_evenOdd (where they hold: simulated = real = exact even-odd),
rounded_rectilinear_exact (rectilinear polygons: simulated = real = exact closed-ray rule at every point, boundary
included) and rounded_abscissa_error; `Grid.cells_inside_polygon` against the model's cell list; every state
history is ALSO sent as a whole through the stateful models (requests `piphist`, `gridhist`: pipRun / pipAbsRun /
gridRun) and every outcome, the refused calls by name, and the final content of the caller's buffer are compared.
Oracle (failing-input search, real code only, independent of the model): exact even-odd rule in rational
arithmetic (`fractions.Fraction`, scaled to integers) along a randomly chosen rational ray direction that is never
the code's (+x), applied only to polygons with >= 3 vertices whose non-zero coordinate steps are >= 1e-6 and to
points whose exact distance to every edge exceeds 1e-6 x polygon size; plus invariance of the code's answers
under rotating / reversing / closing the vertex list and translating / scaling polygon and points together;
plus equal answers for two far points joined by a segment that meets no edge (exact integer test);
plus `cells_inside_polygon` = the cells whose centres are inside. In the history streams the oracle and the model
judge every call on the values the CALLER put into its arrays (a library call that leaves an input array altered -
answered or refused - shows as a wrong answer of the next call and as a disagreement with the model).
Cases: the corpus first (corpus/C15: diamond, M shape, notched square, collinear / repeated vertices, bow-tie,
pentagram - each in every rotation, reversed and closed); polygon families random, star-shaped, self-intersecting,
lattice (horizontal, vertical, collinear edges, repeated vertices), rectilinear, comb (many extrema on one level),
convex, short-edge (nearly closed rings, slivers), degenerate (1-2 vertices, zero area), each under a random
affine placement with offset-to-size ratios up to ~1e6; open or closed vertex list, either orientation, any
starting vertex; points random inside and outside the box, level with vertices, sharing an abscissa with
vertices, mid-points of vertex pairs, on vertices / edges / box border, within and just beyond the tolerance of
an edge, half-integer lattice points; default and other tolerances (0, negative, 1e-12 .. 1.5, inf, NaN), pre-filled
answer vectors, integer-typed vertex arrays, nprint > 0, point sets of 1000-4097 points; grids 1..12 x 1..12 (now and
then up to 45 x 45) with polygons aligned to cell corners / centres or placed freely (inside, overlapping, covering,
beyond the grid);
state histories on ONE Grid object and its clones (corpus/C15/history.json first, then random): 2-4 queries with
re-assignment of xllcorner / yllcorner / cellsize or clone()+re-assignment in between, grid and polygon translated
together, legitimate reuse with another polygon, REFUSED queries (empty polygon, polygon array of 1 or 3 columns)
followed by the same or another polygon - every query judged (model and oracle) on the geometry the
object has at that moment; state histories on one set of argument arrays of points_inside_polygon (corpus first,
then random): 2-8 calls with the polygon / points array edited in place (same size) or replaced, ANOTHER polygon laid
over the same points (one set of points, several polygons), the returned vector scribbled on, the caller's `inside`
buffer pre-filled and re-used, other arguments or another tolerance in between, and REFUSED calls (answer vector of
another length / dtype / a strided view) at any position, the first included, followed by calls that re-use both
arrays, one of them, or re-fill one in place; Grid histories also edit the returned table and the polygon array in
place and go through deepcopy / pickle; a malformed stream exercising the wrapper's guards by name and in combination
(nprint outside int32, answer vector of another dtype / length, points or polygon without exactly two columns, empty
polygon, no points); the exact model is also evaluated along rays aimed at vertices.
A case is non-trivial when the polygon has >= 3 vertices and the code answers 1 for some points and 0 for others.
"""
import json
import math
import os
import sys
from fractions import Fraction

from . import common as C

PID = "C15"
ATOL = 1e-8          # default tolerance of points_inside_polygon
RELTOL = 1e-6        # the property's distance clause: farther than RELTOL x polygon size from every edge
MINSTEP = 1e-6       # "coordinates differ by much more than the absolute tolerance": non-zero steps >= 100 atol


# ------------------------------------------------------------------------------------------------
# exact arithmetic: every double is m / 2^k; a whole case is scaled to integers by one power of two
def to_ints(values):
    fr = [Fraction(float(v)) for v in values]
    den = 1
    for f in fr:
        if f.denominator > den:
            den = f.denominator          # all denominators are powers of two: the largest is the lcm
    return [f.numerator * (den // f.denominator) for f in fr], den


class ExactPolygon:
    """exact-rational view of a float polygon: even-odd test along an arbitrary rational ray, distance clause"""

    def __init__(self, poly, pts):
        flat = [c for p in poly for c in p] + [c for p in pts for c in p]
        ints, den = to_ints(flat)
        n = len(poly)
        self.den = den
        self.V = [(ints[2 * i], ints[2 * i + 1]) for i in range(n)]
        self.P = [(ints[2 * n + 2 * i], ints[2 * n + 2 * i + 1]) for i in range(len(pts))]
        self.E = [(self.V[i], self.V[(i + 1) % n]) for i in range(n)] if n else []
        if n:
            xs = [v[0] for v in self.V]
            ys = [v[1] for v in self.V]
            self.size = max(max(xs) - min(xs), max(ys) - min(ys))      # scaled by den
        else:
            self.size = 0

    def dist2_gt(self, P, tol2_num, tol2_den):
        """exact: squared distance from P to every edge > tol^2 (tol^2 = tol2_num/tol2_den in scaled units)"""
        px, py = P
        for (ax, ay), (bx, by) in self.E:
            dx, dy = bx - ax, by - ay
            wx, wy = px - ax, py - ay
            dd = dx * dx + dy * dy
            t = wx * dx + wy * dy
            if dd == 0 or t <= 0:
                num, den = wx * wx + wy * wy, 1
            elif t >= dd:
                num, den = (px - bx) ** 2 + (py - by) ** 2, 1
            else:
                cr = wx * dy - wy * dx
                num, den = cr * cr, dd
            if not (num * tol2_den > tol2_num * den):
                return False
        return True

    def even_odd(self, P, direction):
        """crossing parity of the open ray P + s*direction (s > 0); None when the ray meets a vertex or runs
        along an edge (caller picks another direction)"""
        px, py = P
        ux, uy = direction
        count = 0
        for (ax, ay), (bx, by) in self.E:
            ex, ey = bx - ax, by - ay
            if ex == 0 and ey == 0:
                continue                               # repeated vertex: no edge
            wx, wy = ax - px, ay - py
            den = ux * ey - uy * ex                    # cross(direction, edge)
            tn = wx * uy - wy * ux                     # t = tn/den  position on the edge... sign fixed below
            sn = wx * ey - wy * ex                     # s = sn/den  position on the ray
            if den == 0:
                if tn == 0:
                    # edge lies on the line of the ray: degenerate if any of it is ahead of the point
                    if (wx * ux + wy * uy) > 0 or ((bx - px) * ux + (by - py) * uy) > 0:
                        return None
                continue
            # P + s u = A + t e  =>  s = cross(w, e)/cross(u, e),  t = cross(w, u)/cross(u, e)
            if den < 0:
                den, tn, sn = -den, -tn, -sn
            if sn <= 0:
                continue
            if tn < 0 or tn > den:
                continue
            if tn == 0 or tn == den:
                return None                            # through a vertex
            count += 1
        return count % 2


def _orient(a, b, c):
    v = (b[0] - a[0]) * (c[1] - a[1]) - (b[1] - a[1]) * (c[0] - a[0])
    return (v > 0) - (v < 0)


def _on_seg(a, b, c):
    """c collinear with a b: is it on the closed segment?"""
    return min(a[0], b[0]) <= c[0] <= max(a[0], b[0]) and min(a[1], b[1]) <= c[1] <= max(a[1], b[1])


def segments_meet(p, q, a, b):
    """exact (integers): do the closed segments p q and a b have a point in common?"""
    o1, o2, o3, o4 = _orient(p, q, a), _orient(p, q, b), _orient(a, b, p), _orient(a, b, q)
    if o1 != o2 and o3 != o4:
        return True
    return ((o1 == 0 and _on_seg(p, q, a)) or (o2 == 0 and _on_seg(p, q, b)) or
            (o3 == 0 and _on_seg(a, b, p)) or (o4 == 0 and _on_seg(a, b, q)))


DIRECTIONS = [(u, v) for u in range(-7, 8) for v in range(-7, 8)
              if (u, v) != (0, 0) and not (v == 0 and u > 0) and math.gcd(abs(u), abs(v)) == 1]


def exact_inside(ep, P, rng):
    for _ in range(40):
        r = ep.even_odd(P, rng.choice(DIRECTIONS))
        if r is not None:
            return r
    return None


def min_step(poly):
    """smallest non-zero coordinate difference between consecutive vertices (cyclic); inf if none"""
    m = math.inf
    n = len(poly)
    for i in range(n):
        a, b = poly[i], poly[(i + 1) % n]
        for k in (0, 1):
            d = abs(a[k] - b[k])
            if d != 0 and d < m:
                m = d
    return m


# ------------------------------------------------------------------------------------------------
# generators
SCALES = [1.0, 1.0, 0.5, 2.0, 0.25, 10.0, 1000.0, 0.1, 0.001, 3.0, 1e5]
OFFSETS = [0.0, 0.0, 1.0, -3.5, 100.0, -2.0, 0.1, 1e4, 2.5e5, -3.9e6, 1.5e6]


def affine(rng, poly):
    s = rng.choice(SCALES)
    ox = rng.choice(OFFSETS) * s
    oy = rng.choice(OFFSETS) * s
    return [(x * s + ox, y * s + oy) for x, y in poly], s


def gentle_tilt(rng, poly):
    """move 1-3 vertices along one axis by 0.05..0.9 x 1e-8 x max|coordinate| (kept >= 2e-6)"""
    big = max(abs(c) for p in poly for c in p)
    poly = list(poly)
    for _ in range(rng.randint(1, 3)):
        i = rng.randrange(len(poly))
        d = max(rng.uniform(0.05, 0.9) * 1e-8 * big, 2e-6) * rng.choice([-1, 1])
        x, y = poly[i]
        poly[i] = (x, y + d) if rng.random() < 0.6 else (x + d, y)
    return poly


def gen_polygon(rng, nmax):
    fam = rng.choice(["lattice", "lattice", "lattice", "random", "star", "selfint", "rectilinear", "collinear",
                      "convex", "degenerate", "comb", "short_edge", "gentle"])
    if fam == "gentle":
        # projected-coordinate scale: large coordinates, lattice polygon whose horizontal / vertical edges are tilted by
        # an increment far above atol (>= 1e-6) but tiny relative to the coordinate magnitude (a tolerance made
        # relative to |coordinates| instead of absolute would flatten them)
        n = rng.randint(3, min(nmax, 10))
        K = rng.randint(2, 6)
        s_ = rng.choice([0.05, 1.0, 25.0])
        ox, oy = rng.choice([3e5, -2e6, 6.2e6, 1.5e6]), rng.choice([6.2e6, -4e6, 3e5, -3.9e6])
        poly = [(ox + s_ * rng.randint(0, K), oy + s_ * rng.randint(0, K)) for _ in range(n)]
        poly = gentle_tilt(rng, poly)
        closed = False
        if rng.random() < 0.3:
            poly = poly + [poly[0]]
            closed = True
        return fam, poly, closed
    if fam == "lattice":
        n = rng.randint(3, nmax)
        K = rng.randint(2, 6)
        poly = [(float(rng.randint(0, K)), float(rng.randint(0, K))) for _ in range(n)]
        if rng.random() < 0.4:           # repeated vertices, consecutive and not
            for _ in range(rng.randint(1, 2)):
                i = rng.randrange(len(poly))
                poly.insert(rng.choice([i, rng.randrange(len(poly))]), poly[i])
            poly = poly[:max(nmax, 3)]
    elif fam == "random":
        n = rng.randint(3, nmax)
        poly = [(rng.uniform(0, 6), rng.uniform(0, 6)) for _ in range(n)]
    elif fam in ("star", "selfint", "convex", "short_edge"):
        n = rng.randint(3, nmax - 1 if fam == "short_edge" else nmax)
        ang = sorted(rng.uniform(0, 2 * math.pi) for _ in range(n))
        if fam == "convex":
            rad = [3.0] * n
        else:
            rad = [rng.uniform(0.6, 3.0) for _ in range(n)]
        poly = [(3 + r * math.cos(a), 3 + r * math.sin(a)) for r, a in zip(rad, ang)]
        if fam == "selfint":
            rng.shuffle(poly)
        if fam == "short_edge":
            # a vertex very close to its neighbour (a nearly closed ring, a sliver): short but >> atol
            i = rng.choice([0, 0, len(poly) - 1, rng.randrange(len(poly))])
            d = rng.choice([1e-2, 1e-3, 1e-4])
            q = (poly[i][0] + d * rng.uniform(0.3, 1) * rng.choice([-1, 1]), poly[i][1] + d * rng.uniform(0.3, 1) * rng.choice([-1, 1]))
            poly.insert(i + rng.choice([0, 1]), q)
    elif fam == "rectilinear":
        # staircase: alternate horizontal and vertical moves between lattice points, close back
        k = rng.randint(2, max(2, nmax // 2))
        xs = [float(rng.randint(0, 6)) for _ in range(k)]
        ys = [float(rng.randint(0, 6)) for _ in range(k)]
        poly = []
        for i in range(k):
            poly.append((xs[i], ys[i]))
            poly.append((xs[(i + 1) % k], ys[i]))
    elif fam == "collinear":
        base = [(float(rng.randint(0, 6)), float(rng.randint(0, 6))) for _ in range(rng.randint(3, max(3, nmax // 2)))]
        poly = []
        for i, a in enumerate(base):
            b = base[(i + 1) % len(base)]
            poly.append(a)
            if rng.random() < 0.7:
                poly.append(((a[0] + b[0]) / 2, (a[1] + b[1]) / 2))
        poly = poly[:max(nmax, 3)]
    elif fam == "comb":
        # teeth: many local extrema at the same levels
        k = rng.randint(1, max(1, (nmax - 2) // 2))
        poly = [(0.0, 0.0)]
        for i in range(k):
            poly += [(2.0 * i + 1, float(rng.choice([2, 3]))), (2.0 * i + 2, float(rng.choice([0, 1, 2])))]
        poly.append((2.0 * k, -1.0))
        poly = poly[:max(nmax, 3)]
    else:
        kind = rng.choice(["one", "two", "same", "line"])
        if kind == "one":
            poly = [(1.0, 2.0)]
        elif kind == "two":
            poly = [(0.0, 0.0), (3.0, 2.0)]
        elif kind == "same":
            poly = [(2.0, 2.0)] * rng.randint(3, 5)
        else:
            poly = [(float(i), 2.0 * i) for i in rng.sample(range(0, 6), 3)]
    poly, s = affine(rng, poly)
    if rng.random() < 0.5:
        poly = poly[::-1]
    if len(poly) > 1:
        k = rng.randrange(len(poly))
        poly = poly[k:] + poly[:k]
    closed = False
    if rng.random() < 0.3:
        poly = poly + [poly[0]]
        closed = True
    return fam, poly, closed


def gen_points(rng, poly, npts):
    xs = [p[0] for p in poly]
    ys = [p[1] for p in poly]
    x0, x1, y0, y1 = min(xs), max(xs), min(ys), max(ys)
    w = max(x1 - x0, y1 - y0)
    if w == 0:
        w = max(abs(x0), 1.0)
    pts, kinds = [], []

    def add(p, kind):
        pts.append((float(p[0]), float(p[1])))
        kinds.append(kind)

    def rx():
        return rng.uniform(x0 - 0.3 * w, x1 + 0.3 * w)

    def ry():
        return rng.uniform(y0 - 0.3 * w, y1 + 0.3 * w)

    n = len(poly)
    while len(pts) < npts:
        r = rng.random()
        v = poly[rng.randrange(n)]
        a = poly[rng.randrange(n)]
        i = rng.randrange(n)
        e1, e2 = poly[i], poly[(i + 1) % n]
        if r < 0.25:
            add((rx(), ry()), "random")
        elif r < 0.45:
            add((rx(), v[1]), "level_with_vertex")
        elif r < 0.53:
            # level with a vertex, abscissa half way between two vertex abscissae (lattice mid-points)
            add(((v[0] + a[0]) / 2 + rng.choice([0, 0, w / 8, -w / 16]), v[1]), "level_with_vertex")
        elif r < 0.63:
            add((v[0], ry()), "abscissa_of_vertex")
        elif r < 0.70:
            add(((v[0] + a[0]) / 2, (v[1] + a[1]) / 2), "midpoint_of_vertices")
        elif r < 0.74:
            add(v, "on_vertex")
        elif r < 0.78:
            t = rng.choice([0.5, 0.25, rng.random()])
            add((e1[0] + t * (e2[0] - e1[0]), e1[1] + t * (e2[1] - e1[1])), "on_edge")
        elif r < 0.82:
            add(rng.choice([(x0, ry()), (x1, ry()), (rx(), y0), (rx(), y1), (x0, y0), (x1, y1)]), "on_box")
        elif r < 0.92:
            # a point of an edge pushed off by about the tolerance, on either side
            t = rng.random()
            qx, qy = e1[0] + t * (e2[0] - e1[0]), e1[1] + t * (e2[1] - e1[1])
            d = rng.choice([1e-10, 5e-9, 1e-8, 2e-8, 1e-7, 1e-6 * w, 3e-6 * w, 1e-4 * w])
            ang = rng.uniform(0, 2 * math.pi)
            add((qx + d * math.cos(ang), qy + d * math.sin(ang)), "near_edge")
        elif r < 0.96:
            add((rng.choice([x0 - w, x1 + w, rx()]), rng.choice([y0 - w, y1 + w, ry()])), "far_outside")
        else:
            add((math.floor(rx()) + 0.5, math.floor(ry()) + 0.5), "half_integer")
    return pts, kinds


# ------------------------------------------------------------------------------------------------
def bits(arr):
    return "".join("1" if int(v) else "0" for v in arr)


def body(ctx):
    import numpy as np
    from hydrodiy.gis import gutils
    from hydrodiy.gis.grid import Grid
    import ctypes
    libc = ctypes.CDLL(None)
    rng = ctx.rng
    lean = ctx.lean
    reqs, impls, cases = [], [], []          # bit-for-bit correspondence (Float model)
    qreqs, qinfo = [], []                     # exact model + specification on far points
    hreqs, hexp, hcases = [], [], []          # whole histories through the stateful models (piphist / gridhist)
    rreqs, rinfo = [], []                     # the model in simulated binary64 arithmetic + decided theorem hypotheses

    def add(req, impl, case):
        reqs.append(req)
        impls.append(impl)
        cases.append(case)

    def call_pip(pts, poly, atol=None, inside=None, nprint=0, int_input=False):
        kw = {}
        if atol is not None:
            kw["atol"] = atol
        if inside is not None:
            kw["inside"] = inside
        pa = np.array(pts, dtype=np.float64).reshape(-1, 2)
        ya = np.array(poly, dtype=np.float64).reshape(-1, 2)
        if int_input:
            ya = ya.astype(np.int64)                     # integral vertices handed over as an integer array
        try:
            if nprint > 0:
                # the kernel logs progress on the C stdout: keep it out of the check's output
                sys.stdout.flush()
                saved = os.dup(1)
                devnull = os.open(os.devnull, os.O_WRONLY)
                try:
                    os.dup2(devnull, 1)
                    r = gutils.points_inside_polygon(pa, ya, nprint=nprint, **kw)
                finally:
                    libc.fflush(None)
                    os.dup2(saved, 1)
                    os.close(saved)
                    os.close(devnull)
            else:
                r = gutils.points_inside_polygon(pa, ya, **kw)
            return "ok " + bits(r), r
        except Exception as e:  # noqa
            return err_name(e), None

    def err_name(e):
        """error kinds by name (which guard fired), never by message text beyond the stable first words"""
        msg = str(e)
        if isinstance(e, ValueError):
            return "err " + ("insideDtype" if "Expected inside of dtype" in msg else
                             "insideLength" if "Expected inside of length" in msg else
                             "emptyPolygon" if "zero-size array" in msg else "other:" + msg[:60])
        if isinstance(e, AssertionError):
            return "err shapeAssert"
        if isinstance(e, OverflowError):
            return "err nprintRange"
        return f"err other:{type(e).__name__}"

    def far_mask(ep, poly, npts_, tolrel=RELTOL):
        """exact distance clause of the property, per point"""
        tol = Fraction(tolrel) * ep.size                    # in scaled units (ep.size is already scaled)
        t2 = tol * tol
        return [ep.dist2_gt(ep.P[i], t2.numerator, t2.denominator) for i in range(npts_)]

    def in_quantifier(poly, atol):
        return len(poly) >= 3 and atol == ATOL and min_step(poly) >= MINSTEP and min_step(poly) != math.inf

    def oracle_points(tag, fam, poly, pts, kinds, got, atol, ep=None, far=None):
        """exact even-odd rule (different ray) against the code's answers, inside the quantifier only"""
        if not in_quantifier(poly, atol):
            return None, None
        if ep is None:
            ep = ExactPolygon(poly, pts)
        if ep.size == 0:
            return None, None
        if far is None:
            far = far_mask(ep, poly, len(pts))
        exact = []
        for i, P in enumerate(ep.P):
            if not far[i]:
                exact.append(None)
                continue
            want = exact_inside(ep, P, rng)
            exact.append(want)
            if want is None:
                continue
            if int(got[i]) != want:
                cls = kinds[i] if kinds else "point"
                ctx.finding(f"{tag}/{cls}/differs_from_even_odd",
                            "answer differs from the exact even-odd rule for a point farther than 1e-6 x size from every edge",
                            {"family": fam, "polygon": poly, "point": pts[i], "atol": atol, "code": int(got[i]),
                             "even_odd": want})
        return far, exact

    # ---------------------------------------------------------------- points_inside_polygon
    nq = ctx.scale(2000, 5000)            # polygons also evaluated exactly (Rat model + specification)
    nr = ctx.scale(700, 2500)             # polygons also run in simulated binary64 arithmetic (Rd Rat rnd53)
    state = {"n": 0}

    def run_case(fam, poly, closed, pts, kinds, atol, mode, allow_invariance=True):
        ip = state["n"]
        state["n"] += 1
        inside = None
        if mode == "prefilled":
            inside = np.ones(len(pts), dtype=np.int32)     # must be zeroed by the wrapper
        int_input = mode == "int_input" and all(float(c).is_integer() and abs(c) < 2 ** 52 for p in poly for c in p)
        impl, got = call_pip(pts, poly, atol=None if (mode == "default" and atol == ATOL) else atol, inside=inside,
                             nprint=rng.choice([1, 7, 25]) if mode == "nprint" else 0, int_input=int_input)
        pm, tm = C.fmat(poly), C.fmat(pts)
        case = {"family": fam, "polygon": poly, "points": pts, "atol": atol, "mode": mode}
        add(f"pipf {C.f2h(atol)} {pm} {tm} {-1 if inside is None else len(inside)}", impl, case)
        nontrivial = got is not None and len(poly) >= 3 and 0 < int(np.sum(got)) < len(pts)
        ctx.count(("pip", pm, tm, atol), nontrivial, f"{fam}{'/closed' if closed else ''}",
                  sample={"family": fam, "polygon": poly[:6], "points": pts[:4], "answers": impl[:20]})
        ctx.hist["mode:" + mode] = ctx.hist.get("mode:" + mode, 0) + 1
        if got is None:
            return
        for k in set(kinds):
            ctx.hist["pt:" + k] = ctx.hist.get("pt:" + k, 0) + kinds.count(k)
        ep = ExactPolygon(poly, pts)
        far, exact = oracle_points("points_inside_polygon", fam, poly, pts, kinds, got, atol, ep=ep)
        if far is not None:
            ctx.hist["oracle_points_judged"] = ctx.hist.get("oracle_points_judged", 0) + sum(1 for e in exact if e is not None)
            # evenOdd_constant_on_free_segment on the real code: two far points joined by a segment that has no point in
            # common with any edge (exact integer test) must get the same answer
            idx = [i for i in range(len(pts)) if far[i]]
            for _ in range(6 if len(idx) >= 2 else 0):
                i, j = rng.sample(idx, 2)
                if any(segments_meet(ep.P[i], ep.P[j], a, b) for a, b in ep.E):
                    continue
                ctx.hist["free_segment_pairs_judged"] = ctx.hist.get("free_segment_pairs_judged", 0) + 1
                if int(got[i]) != int(got[j]):
                    ctx.finding("points_inside_polygon/free_segment/answers_differ",
                                "two points farther than 1e-6 x size from every edge, joined by a segment that misses the boundary, get different answers",
                                {"family": fam, "polygon": poly, "point": pts[i], "point2": pts[j], "atol": atol,
                                 "code": int(got[i]), "code2": int(got[j])})
        # exact instance of the model + specification: compared on points far (Chebyshev > atol) from the boundary
        if ip < nq and len(poly) >= 1 and math.isfinite(atol):
            tol = max(Fraction(atol) * 2, Fraction(RELTOL) * Fraction(ep.size, ep.den)) * ep.den
            t2 = tol * tol
            farq = [ep.dist2_gt(P, t2.numerator, t2.denominator) for P in ep.P]
            # any ray direction, also straight through vertices (the model's half-open rule in the rotated frame)
            if rng.random() < 0.5 and len(poly) >= 2:
                va, vb = poly[rng.randrange(len(poly))], pts[rng.randrange(len(pts))]
                dq = (Fraction(va[0]) - Fraction(vb[0]), Fraction(va[1]) - Fraction(vb[1]))
                # integer direction parallel to (vertex - point) when that is representable with small integers
                den = max(dq[0].denominator, dq[1].denominator)
                di = (int(dq[0] * den), int(dq[1] * den))
                g = math.gcd(abs(di[0]), abs(di[1])) or 1
                di = (di[0] // g, di[1] // g)
                if di == (0, 0) or max(abs(di[0]), abs(di[1])) > 10 ** 12:
                    di = rng.choice(DIRECTIONS)
            else:
                di = rng.choice(DIRECTIONS + [(1, 0), (-1, 0), (0, 1), (0, -1)])
            qreqs.append(f"pipq {C.f2h(atol)} {pm} {tm} {di[0]} {di[1]}")
            qinfo.append(({**case, "direction": list(di)}, bits(got), farq))
        # the model in SIMULATED binary64 arithmetic (every + - * / rounded to 53 bits by `rnd53`, exact rationals
        # underneath) and the decided hypotheses of the rounding theorems (rounded_inside_eq_evenOdd via
        # sim53_inside_eq_evenOdd, rounded_rectilinear_exact via sim53_rectilinear_exact)
        if ip < nr and len(poly) >= 1 and math.isfinite(atol):
            rreqs.append(f"pipr {C.f2h(atol)} {pm} {tm}")
            rinfo.append((case, bits(got), far, exact))
        if allow_invariance and in_quantifier(poly, atol) and far is not None and rng.random() < 0.35:
            n = len(poly)
            tr = rng.choice(["rotate", "reverse", "close", "translate", "scale"])
            poly2, pts2 = poly, pts
            if tr == "rotate":
                k = rng.randrange(1, n)
                poly2 = poly[k:] + poly[:k]
            elif tr == "reverse":
                poly2 = poly[::-1]
            elif tr == "close":
                poly2 = poly + [poly[0]]
            elif tr == "translate":
                sz = float(Fraction(ep.size, ep.den))
                dx = rng.choice([1.0, -7.0, 0.1, 1e3, math.pi, 1e5, -7e5]) * sz
                dy = rng.choice([0.0, 2.0, -0.3, 1e3, -2e5, 6e5]) * sz
                poly2 = [(x + dx, y + dy) for x, y in poly]
                pts2 = [(x + dx, y + dy) for x, y in pts]
            else:
                c = rng.choice([2.0, 0.5, 3.0, 0.1, 1e3, 7.3])
                poly2 = [(x * c, y * c) for x, y in poly]
                pts2 = [(x * c, y * c) for x, y in pts]
            impl2, got2 = call_pip(pts2, poly2)
            add(f"pipf {C.f2h(ATOL)} {C.fmat(poly2)} {C.fmat(pts2)} -1", impl2,
                {"family": fam, "polygon": poly2, "points": pts2, "atol": ATOL, "mode": "invariance:" + tr})
            ctx.count(("inv", tr, pm, tm), nontrivial, "invariance:" + tr)
            if got2 is not None and in_quantifier(poly2, ATOL):
                ep2 = ExactPolygon(poly2, pts2) if tr in ("translate", "scale") else None
                far2 = far_mask(ep2, poly2, len(pts2)) if ep2 is not None else far
                for i in range(len(pts)):
                    if far[i] and far2[i] and int(got[i]) != int(got2[i]):
                        ctx.finding(f"points_inside_polygon/invariance/{tr}",
                                    f"answer changes when polygon (and points) are transformed: {tr}",
                                    {"family": fam, "polygon": poly, "point": pts[i], "transform": tr,
                                     "polygon2": poly2, "point2": pts2[i], "before": int(got[i]), "after": int(got2[i])})
                if ep2 is not None:
                    oracle_points("points_inside_polygon", fam, poly2, pts2, kinds, got2, ATOL, ep=ep2, far=far2)

    # corpus first: fixed configurations on which ray casting classically fails (ray through a vertex, horizontal
    # edge on the ray, local extrema level with the point) and minimised past failures
    cdir = C.ROOT / "corpus" / PID
    if cdir.is_dir():
        for f in sorted(cdir.glob("*.json")):
            for ent in json.loads(f.read_text()).get("cases", []):
                poly = [tuple(map(float, p)) for p in ent["polygon"]]
                pts = [tuple(map(float, p)) for p in ent["points"]]
                run_case("corpus:" + f.stem, poly, False, pts, ["corpus"] * len(pts), float(ent.get("atol", ATOL)),
                         "default", allow_invariance=False)
                # every rotation, the reversal and the closed form of a corpus polygon
                for k in range(1, len(poly)):
                    run_case("corpus:" + f.stem, poly[k:] + poly[:k], False, pts, ["corpus"] * len(pts), ATOL,
                             "default", allow_invariance=False)
                run_case("corpus:" + f.stem, poly[::-1], False, pts, ["corpus"] * len(pts), ATOL, "default",
                         allow_invariance=False)
                run_case("corpus:" + f.stem, poly + [poly[0]], True, pts, ["corpus"] * len(pts), ATOL, "default",
                         allow_invariance=False)

    npoly = ctx.scale(2000, 40000)
    nmax = ctx.scale(12, 40)
    npts = 60
    for _ip in range(npoly):
        fam, poly, closed = gen_polygon(rng, nmax if rng.random() < 0.5 else min(nmax, 8))
        pts, kinds = gen_points(rng, poly, npts)
        # other tolerances: the guards of the kernel at work (0.3, 1.5 against lattice steps of 1), switched off (0, negative:
        # the excluded side of the hypothesis 0 <= atol, see far_needs_atol_nonneg), not a number / infinite (every
        # comparison with NaN is false, in the kernel and in the Float instance of the model alike)
        atol = ATOL if rng.random() < 0.75 else rng.choice([0.0, 1e-3, 0.3, 1.5, 1e-12, -1e-3, -2.0, math.inf, math.nan])
        mode = rng.choice(["default", "default", "atol", "prefilled", "int_input"] + (["nprint"] if _ip % 40 == 0 else []))
        run_case(fam, poly, closed, pts, kinds, atol, mode)
    # a few large point sets (answers must not depend on how many points are asked at once)
    for _ in range(ctx.scale(4, 30)):
        fam, poly, closed = gen_polygon(rng, nmax)
        pts, kinds = gen_points(rng, poly, rng.choice([1000, 2500, 4097]))
        run_case(fam, poly, closed, pts, kinds, ATOL, rng.choice(["default", "prefilled"]), allow_invariance=False)

    # ---------------------------------------------------------------- malformed stream (the wrapper's guards, by name)
    for _ in range(ctx.scale(60, 400)):
        fam, poly, _c = gen_polygon(rng, 6)
        pts, _k = gen_points(rng, poly, rng.randint(0, 5))
        kind = rng.choice(["empty_polygon", "inside_length", "inside_dtype", "points_width", "polygon_width",
                           "several", "several", "no_points", "well_formed", "nprint_range"])
        pw, tw, ilen, i32 = 2, 2, -1, 1
        nprint = rng.choice([0, 0, -3, -2 ** 31])            # in range and silent (logging starts at nprint > 0)
        use_poly = poly
        if kind == "empty_polygon":
            use_poly = []
        elif kind == "inside_length":
            ilen = len(pts) + rng.choice([1, 2, -1]) if len(pts) else 1
        elif kind == "inside_dtype":
            ilen, i32 = rng.choice([len(pts), len(pts) + 1]), 0
        elif kind == "points_width":
            tw = rng.choice([1, 3, 4])
        elif kind == "polygon_width":
            pw = rng.choice([1, 3])
        elif kind == "nprint_range":
            nprint = rng.choice([2 ** 31, -2 ** 31 - 1, 2 ** 40, -10 ** 12])
        elif kind == "several":
            # several guards at once: the FIRST one in the code's order decides
            if rng.random() < 0.3:
                nprint = rng.choice([2 ** 31, -2 ** 31 - 1, 2 ** 63])
            if rng.random() < 0.5:
                ilen, i32 = rng.choice([len(pts), len(pts) + 2]), rng.choice([0, 1])
            if rng.random() < 0.5:
                tw = rng.choice([1, 3])
            if rng.random() < 0.5:
                pw = rng.choice([1, 3])
            if rng.random() < 0.4:
                use_poly = []
        elif kind == "no_points":
            pts = []
        elif kind == "well_formed":
            ilen = rng.choice([-1, len(pts)])
        ilen = max(ilen, -1)

        def widen(rows, wd):
            a2 = np.array(rows, dtype=np.float64).reshape(-1, 2)
            if wd == 2:
                return a2
            if wd == 1:
                return np.ascontiguousarray(a2[:, :1])
            return np.ascontiguousarray(np.hstack([a2, np.zeros((len(a2), wd - 2))]))
        pa, ya = widen(pts, tw), widen(use_poly, pw)
        kw = {}
        if ilen >= 0:
            kw["inside"] = np.ones(ilen, dtype=np.int32 if i32 else rng.choice([np.int64, np.float64, bool, np.uint8]))
        try:
            r = gutils.points_inside_polygon(pa, ya, nprint=nprint, **kw)
            impl = "ok " + bits(r)
        except Exception as e:  # noqa
            impl = err_name(e)
        # the model receives the first two columns (a missing second column as zeros; unused when the width is wrong)
        m_pts = [(float(r_[0]), float(r_[1]) if tw >= 2 else 0.0) for r_ in pa]
        m_poly = [(float(r_[0]), float(r_[1]) if pw >= 2 else 0.0) for r_ in ya]
        # which exception type reports a wrong shape / an empty polygon, and which of the two is reported first, is
        # incidental (moving a guard between Cython and Python changes it): both are compared as "rejected"; the
        # dtype and length guards of the caller's answer vector are compared by name and must come first
        if impl.startswith("err") and impl not in ("err insideDtype", "err insideLength", "err nprintRange"):
            impl = "err rejected"
        add(f"pipcalln {nprint} {C.f2h(ATOL)} {pw} {C.fmat(m_poly)} {tw} {C.fmat(m_pts)} {ilen} {i32}", impl,
            {"malformed": kind, "points": m_pts, "polygon": m_poly, "points_width": tw, "polygon_width": pw,
             "inside_len": ilen, "inside_int32": bool(i32), "nprint": nprint})
        ctx.count(("malformed", kind, pw, tw, ilen, i32, nprint, repr(m_poly), repr(m_pts)), False,
                  "malformed:" + kind + ":" + impl.split()[1 if impl.startswith("err") else 0])

    # ---------------------------------------------------------------- histories on one set of arguments
    # call -> (edit the polygon / the points array in place | scribble on the returned vector | other arguments |
    # toggle / re-use the caller's `inside` buffer | other tolerance) -> call again ...; EVERY answer is compared with
    # the model and the oracle evaluated on the arrays' CURRENT content.
    #   {"op": "call", "inside": "buffer" | "none"}      {"op": "polygon", "values": [...]}  (in place when same shape)
    #   {"op": "points", "values": [...]}  (in place when same shape)   {"op": "scribble", "value": v}  {"op": "atol", "value": a}
    def run_pip_history(steps, label):
        # "Pv" / "Yv": the coordinates the CALLER put into its arrays (the arrays "P" / "Y" must still hold them after
        # any call, answered or rejected: the library has no business writing into its inputs); every answer is judged
        # - model and oracle - on the caller's values, so a call that leaves the arrays altered shows in the next answer
        st = {"P": None, "Y": None, "Pv": None, "Yv": None, "buf": None, "atol": ATOL, "last": None, "after": "fresh",
              "ncalls": 0, "rejected": False, "altered": False}
        done = []
        mops, mexp = [], []          # the same history for the stateful model (request `piphist`) and what the code did

        def check_unaltered(what_call):
            if st["altered"]:
                return
            for key, name in (("P", "points"), ("Y", "polygon")):
                want = np.array(st[key + "v"], dtype=np.float64).reshape(-1, 2)
                if st[key].shape != want.shape or st[key].tobytes() != want.tobytes():
                    st["altered"] = True
                    ctx.disagree(f"C15: the caller's {name} array was modified by {what_call} (the model reads its arguments only)",
                                 {"family": label, "array": name, "caller_values": st[key + "v"][:6],
                                  "array_now": [list(map(float, q)) for q in st[key][:6]],
                                  "history": [dict(d) for d in done]})
                    return

        for stp in steps:
            done.append(stp)
            op = stp["op"]
            if op in ("polygon", "points"):
                key = "Y" if op == "polygon" else "P"
                new = np.array(stp["values"], dtype=np.float64).reshape(-1, 2)
                if st[key] is not None and st[key].shape == new.shape and stp.get("inplace", True):
                    st[key][:] = new                       # same array object, same size, new content
                    st["after"] = op + "_edited_in_place"
                else:
                    st[key] = new
                    st["after"] = "new_" + op
                st[key + "v"] = [tuple(map(float, q)) for q in new]
                mops.append(("Y:" if op == "polygon" else "P:") + C.fmat(st[key + "v"]))
                if op == "points" and st["buf"] is not None and len(st["buf"]) != len(new):
                    st["buf"] = None
                    mops.append("D")
            elif op == "scribble":
                if st["last"] is not None:
                    try:
                        st["last"][:] = stp["value"]
                        if st["last"] is st["buf"]:
                            mops.append(f"S:{int(stp['value'])}")      # the returned vector IS the caller's buffer
                    except Exception:  # noqa  (read-only result: nothing to scribble on)
                        pass
                    st["after"] = "result_scribbled"
            elif op == "atol":
                st["atol"] = float(stp["value"])
                st["after"] = "other_atol"
                mops.append("A:" + C.f2h(st["atol"]))
            else:
                kw = {}
                how = stp.get("inside", "none")
                if st["atol"] != ATOL or stp.get("explicit_atol"):
                    kw["atol"] = st["atol"]
                npt = len(st["P"])
                if how == "buffer":
                    if st["buf"] is None or len(st["buf"]) != npt:
                        st["buf"] = np.full(npt, rng.choice([0, 1, 5]), dtype=np.int32)
                        mops.append("B:" + C.ilist(st["buf"]))
                    kw["inside"] = st["buf"]
                elif how == "bad_length":
                    # a call the wrapper must refuse: answer vector of another length ...
                    blen = max(npt + int(stp.get("delta", -1)), 0)
                    kw["inside"] = np.zeros(blen if blen != npt else npt + 1, dtype=np.int32)
                elif how == "bad_dtype":
                    # ... or of another dtype
                    kw["inside"] = np.zeros(npt, dtype={"int64": np.int64, "float64": np.float64, "bool": bool,
                                                        "uint8": np.uint8}[stp.get("dtype", "int64")])
                elif how == "noncontiguous":
                    # an int32 view of the right length with a stride (refused by the extension layer, after the
                    # Python wrapper has done its part); whether it is refused is not constrained - if it is
                    # answered, the answers are judged like any other
                    kw["inside"] = np.full(2 * npt, 3, dtype=np.int32)[::2]
                pts, poly = st["Pv"], st["Yv"]
                try:
                    r = gutils.points_inside_polygon(st["P"], st["Y"], **kw)
                    impl = "ok " + bits(r)
                except Exception as e:  # noqa
                    r, impl = None, err_name(e)
                st["last"] = r
                if how != "noncontiguous" or r is not None:
                    mops.append({"none": "Cn", "buffer": "Cb"}.get(how) or
                                f"Cf:{0 if how == 'bad_dtype' else 1}:{len(kw['inside'])}")
                    mexp.append(impl.replace(" ", ":", 1))
                before = ("rejected_call+" if st["rejected"] else "") + st["after"]
                tag = "points_inside_polygon" if st["ncalls"] == 0 else "points_inside_polygon/history/after_" + before
                if how == "buffer":
                    tag += "+buffer" if st["ncalls"] else ""
                case = {"family": label, "polygon": poly, "points": pts, "atol": st["atol"],
                        "history": [dict(d) for d in done]}
                if how in ("bad_length", "bad_dtype"):
                    add(f"pipcall {C.f2h(st['atol'])} 2 {C.fmat(poly)} 2 {C.fmat(pts)} {len(kw['inside'])} {1 if how == 'bad_length' else 0}",
                        impl, case)
                elif how != "noncontiguous" or r is not None:
                    add(f"pipf {C.f2h(st['atol'])} {C.fmat(poly)} {C.fmat(pts)} {len(kw['inside']) if 'inside' in kw else -1}",
                        impl, case)
                ctx.count(("piph", st["ncalls"], repr(done)), r is not None and 0 < int(np.sum(r)) < len(pts),
                          "pip_history:" + (before if st["ncalls"] else "first") + ("" if r is not None else ":refused"))
                check_unaltered("a refused call" if r is None else "a call")
                if r is not None:
                    far, exact = oracle_points(tag, label, poly, pts, ["point"] * len(pts), r, st["atol"])
                    # re-state the finding with the history attached (the oracle's case has no history)
                    for f_ in ctx.findings:
                        if f_["signature"].startswith(tag + "/") and isinstance(f_["case"], dict) and "history" not in f_["case"]:
                            f_["case"]["history"] = [dict(d) for d in done]
                    st["rejected"] = False
                    st["after"] = "call"
                else:
                    # a refused call is an event of the history: what follows is judged as coming after it
                    st["rejected"] = True
                    st["after"] = "nothing"
                st["ncalls"] += 1
        # the whole history through the STATEFUL model (pipRun: caller's arrays, tolerance, answer buffer) and the
        # memoryless specification it is proved to refine (pipAbsRun): every outcome and the buffer's final content
        hreqs.append(f"piphist {C.f2h(ATOL)} [] [] - " + " ".join(mops))
        hexp.append(("|".join(mexp) if mexp else "-") + " " + (C.ilist(st["buf"]) if st["buf"] is not None else "-")
                    + " " + ("|".join(mexp) if mexp else "-"))
        hcases.append({"family": label, "history": [dict(d) for d in done]})

    def gen_pip_history():
        nmax_ = ctx.scale(10, 16)
        fam, poly, _c = gen_polygon(rng, nmax_)
        npts_ = rng.choice([8, 20, 40])
        pts, _k = gen_points(rng, poly, npts_)
        def refused_call():
            how = rng.choice(["bad_length", "bad_length", "bad_dtype", "noncontiguous"])
            stp = {"op": "call", "inside": how}
            if how == "bad_length":
                stp["delta"] = rng.choice([-1, 1, 2, len(pts)])
            elif how == "bad_dtype":
                stp["dtype"] = rng.choice(["int64", "float64", "bool", "uint8"])
            return stp

        steps = [{"op": "polygon", "values": poly}, {"op": "points", "values": pts}]
        if rng.random() < 0.1:
            steps.append(refused_call())           # the very first call on these arrays is a refused one
        steps.append({"op": "call", "inside": rng.choice(["none", "buffer"])})
        for _ in range(rng.randint(1, 3)):
            act = rng.choice(["polygon_inplace", "polygon_inplace", "points_inplace", "scribble", "scribble",
                              "new_polygon", "other_polygon", "new_points", "atol", "same", "refused", "refused",
                              "refused"])
            if act == "refused":
                # fault path: a call the wrapper refuses (answer vector of the wrong length / dtype / layout), then the
                # caller carries on with the same arrays, with one of them replaced / re-filled, or with both as they are
                steps.append(refused_call())
                act = rng.choice(["other_polygon", "new_points", "new_points", "polygon_inplace", "points_inplace", "same",
                                  "other_polygon", "new_polygon"])
            if act == "polygon_inplace":
                # same number of vertices, other content: shuffled, one vertex moved, translated, or a fresh
                # polygon of the same family cut / padded to the same length
                how = rng.choice(["shuffle", "move", "translate", "fresh"])
                q = [tuple(p) for p in poly]
                if how == "shuffle":
                    rng.shuffle(q)
                elif how == "move":
                    i = rng.randrange(len(q))
                    w = max(max(p[0] for p in q) - min(p[0] for p in q), max(p[1] for p in q) - min(p[1] for p in q)) or 1.0
                    q[i] = (q[i][0] + rng.choice([-0.5, 0.25, 1.0]) * w, q[i][1] + rng.choice([0.5, -0.25, 1.0]) * w)
                elif how == "translate":
                    w = max(max(p[0] for p in q) - min(p[0] for p in q), max(p[1] for p in q) - min(p[1] for p in q)) or 1.0
                    dx, dy = rng.choice([0.5, -0.25, 2.0]) * w, rng.choice([0.0, 0.5, -1.0]) * w
                    q = [(x + dx, y + dy) for x, y in q]
                else:
                    _f, q2, _c2 = gen_polygon(rng, nmax_)
                    q = (q2 * (len(q) // len(q2) + 1))[:len(q)]
                poly = q
                steps.append({"op": "polygon", "values": poly})
            elif act == "points_inplace":
                pts, _k = gen_points(rng, poly, len(pts))
                steps.append({"op": "points", "values": pts})
            elif act == "scribble":
                steps.append({"op": "scribble", "value": rng.choice([1, 1, 7, -1])})
            elif act == "new_polygon":
                fam, poly, _c = gen_polygon(rng, nmax_)
                steps.append({"op": "polygon", "values": poly, "inplace": False})
            elif act == "other_polygon":
                # one set of points, several polygons: another polygon (a new array) laid over the place of the
                # current one, so that the same points are again partly inside and partly outside
                fam, q2, _c = gen_polygon(rng, nmax_)
                x0, y0 = min(p[0] for p in poly), min(p[1] for p in poly)
                w = max(max(p[0] for p in poly) - x0, max(p[1] for p in poly) - y0)
                u0, v0 = min(p[0] for p in q2), min(p[1] for p in q2)
                wn = max(max(p[0] for p in q2) - u0, max(p[1] for p in q2) - v0)
                f_ = (w / wn) if (w > 0 and wn > 0) else 1.0
                poly = [(x0 + (x - u0) * f_, y0 + (y - v0) * f_) for x, y in q2]
                steps.append({"op": "polygon", "values": poly, "inplace": False})
            elif act == "new_points":
                pts, _k = gen_points(rng, poly, rng.choice([len(pts), len(pts), 5, 33]))
                steps.append({"op": "points", "values": pts, "inplace": False})
            elif act == "atol":
                steps.append({"op": "atol", "value": rng.choice([ATOL, 1e-3, 0.0, 0.3])})
            steps.append({"op": "call", "inside": rng.choice(["none", "buffer", "buffer"])})
        return fam, steps

    pdir = C.ROOT / "corpus" / PID
    if pdir.is_dir():
        for f in sorted(pdir.glob("*.json")):
            for ent in json.loads(f.read_text()).get("pip_histories", []):
                run_pip_history(ent["steps"], "corpus:" + f.stem)
    for _ in range(ctx.scale(250, 3000)):
        fam, steps = gen_pip_history()
        run_pip_history(steps, "history:" + fam)

    # ---------------------------------------------------------------- cells_inside_polygon
    def place_polygon(geom, nmax_, on_centres=False):
        """a polygon of a random family brought over the grid of geometry (nrows, ncols, xll, yll, csz);
        on_centres: a lattice-rich family with its vertices on cell centres (edges level with rows of centres)"""
        nrows, ncols, xll, yll, csz = geom
        fam, poly, _closed = gen_polygon(rng, nmax_)
        while on_centres and fam not in ("lattice", "rectilinear", "collinear", "comb"):
            fam, poly, _closed = gen_polygon(rng, nmax_)
        xs = [p[0] for p in poly]
        ys = [p[1] for p in poly]
        w = max(max(xs) - min(xs), max(ys) - min(ys)) or 1.0
        kind = "lattice_aligned" if on_centres else rng.choice(["lattice_aligned", "lattice_aligned", "free"])
        if kind == "lattice_aligned" and fam in ("lattice", "rectilinear", "collinear", "comb"):
            # vertices on cell corners or cell centres: many centres level with vertices / on edges
            unit = w / 6.0 if w > 0 else 1.0
            half = 0.5 if on_centres else rng.choice([0.0, 0.0, 0.5])
            poly = [(xll + csz * (round((x - min(xs)) / unit * ncols / 6.0) + half),
                     yll + csz * (round((y - min(ys)) / unit * nrows / 6.0) + half)) for x, y in poly]
        else:
            f = rng.uniform(0.4, 1.3) * max(ncols, nrows) * csz / w
            ox = xll + rng.uniform(-0.2, 0.3) * ncols * csz
            oy = yll + rng.uniform(-0.2, 0.3) * nrows * csz
            poly = [(ox + (x - min(xs)) * f, oy + (y - min(ys)) * f) for x, y in poly]
        return fam, kind, poly

    last_outcome = [None]

    def query_cells(gr, geom, poly, fam, kind, user_atol, tag, extra, pa=None):
        """one call of cells_inside_polygon on the Grid object `gr` whose CURRENT geometry is `geom`:
        correspondence request (model evaluated on the current geometry) + independent oracle"""
        nrows, ncols, xll, yll, csz = geom
        if pa is None:
            pa = np.array(poly, dtype=np.float64).reshape(-1, 2)
        try:
            df = gr.cells_inside_polygon(pa) if user_atol is None else gr.cells_inside_polygon(pa, atol=user_atol)
            cells = [int(c) for c in df["cell"].values]
            rows = sorted(zip(cells, df["x"].values, df["y"].values))      # listing order is not constrained
            impl = "ok " + C.ilist(sorted(cells)) + " [" + ",".join(f"{C.f2h(x)}:{C.f2h(y)}:{c}" for c, x, y in rows) + "]"
        except Exception as e:  # noqa
            df, cells = None, None
            impl = f"err other:{type(e).__name__}"
        last_outcome[0] = ("ok/" + C.ilist(sorted(cells)) + "/[" + ",".join(f"{C.f2h(x)}:{C.f2h(y)}:{c}" for c, x, y in rows) + "]"
                           if cells is not None else "err/" + impl.split(None, 1)[1])
        case = {"grid": [nrows, ncols, xll, yll, csz], "polygon": poly, "family": fam, "atol_argument": user_atol, **extra}
        add(f"cells {nrows} {ncols} {C.f2h(xll)} {C.f2h(yll)} {C.f2h(csz)} {C.f2h(ATOL)} {C.fmat(poly)}", impl, case)
        ctx.count(("cells", tag, nrows, ncols, xll, yll, csz, repr(poly), repr(extra)),
                  cells is not None and 0 < len(cells) < nrows * ncols, "cells:" + kind,
                  sample={"grid": [nrows, ncols, xll, yll, csz], "polygon": poly[:6], "cells": (cells or [])[:10]})
        if cells is None:
            return None
        # oracle: listed once, in range, coordinates are the centres, and (far centres) listed <=> inside
        ncell = nrows * ncols
        if len(set(cells)) != len(cells) or any(c < 0 or c >= ncell for c in cells):
            ctx.finding(f"{tag}/not_a_set_of_cells", "cell list has repeats or cells outside the grid", case)
            return df
        centres = [(xll + csz * ((c % ncols) + 0.5), yll + csz * ((nrows - 1 - c // ncols) + 0.5)) for c in range(ncell)]
        for x, y, c in zip(df["x"].values, df["y"].values, cells):
            if (float(x), float(y)) != centres[c]:
                ctx.finding(f"{tag}/xy_not_centre", "x, y of a listed cell are not its centre (current grid geometry)",
                            {**case, "cell": c, "xy": [float(x), float(y)], "centre": centres[c]})
                break
        # the oracle judges only calls made with the documented tolerance (the property's quantifier: coordinates
        # differ by much more than the absolute tolerance 1e-8); a caller-supplied larger atol is compared with the
        # model (correspondence) but is not a violation whatever the code does with it
        if in_quantifier(poly, ATOL) and (user_atol is None or user_atol <= ATOL):
            ep = ExactPolygon(poly, centres)
            if ep.size > 0:
                far = far_mask(ep, poly, ncell)
                listed = set(cells)
                for c in range(ncell):
                    if not far[c]:
                        continue
                    want = exact_inside(ep, ep.P[c], rng)
                    if want is None:
                        continue
                    ctx.hist["oracle_cells_judged"] = ctx.hist.get("oracle_cells_judged", 0) + 1
                    if (c in listed) != bool(want):
                        ctx.finding(f"{tag}/far_centre/differs_from_even_odd",
                                    "a cell whose centre is farther than 1e-6 x size from every edge is listed although its centre is outside, or missing although inside",
                                    {**case, "cell": c, "centre": centres[c], "listed": c in listed, "even_odd": want})
        return df

    CSZS = [1.0, 0.5, 2.0, 0.25, 0.1, 30.0, 1.0]
    XLLS = [0.0, -3.0, 0.5, 100.0, 0.3]
    YLLS = [0.0, 2.0, -0.5, 1e3, 0.7]

    # (a) one query on a freshly built grid
    for ig in range(ctx.scale(250, 4000)):
        ncols, nrows = rng.randint(1, 12), rng.randint(1, 12)
        if ig % 50 == 7:
            ncols, nrows = rng.randint(25, 45), rng.randint(25, 45)      # a mid-size grid now and then
        csz = rng.choice(CSZS)
        xll = rng.choice(XLLS) * csz
        yll = rng.choice(YLLS) * csz
        projected = ig % 4 == 1
        if projected:
            # a grid in projected coordinates (|x|, |y| ~ 1e5..1e7, cells of 0.05 .. 250 units)
            csz = rng.choice([0.05, 1.0, 25.0, 250.0])
            xll, yll = rng.choice([3e5, -2e6, 1.5e6]), rng.choice([6.2e6, -4e6, -3.9e6])
        geom = (nrows, ncols, xll, yll, csz)
        tilted = projected and rng.random() < 0.7
        fam, kind, poly = place_polygon(geom, ctx.scale(10, 20), on_centres=tilted)
        if tilted:
            poly = gentle_tilt(rng, poly)
            kind += "+tilted"
        gr = Grid("g", ncols, nrows, csz, xll, yll)
        user_atol = rng.choice([None, None, 1e-8, 0.5, 10.0])     # not forwarded by the code
        query_cells(gr, geom, poly, fam, kind, user_atol, "cells_inside_polygon", {})

    # (b) histories on ONE Grid object and its clones: query, re-assign the public geometry attributes
    # (xllcorner / yllcorner / cellsize, as the library's own tests do) or clone (a deepcopy) and re-assign, query
    # again ... every answer is judged against the geometry the object has AT THAT MOMENT.
    # A history is (grid0, steps); steps refer to objects by index (0 = the grid built first, clones appended):
    #   {"op": "query", "on": i, "polygon": [...]}   {"op": "set", "on": i, "attrs": {...}}   {"op": "clone", "of": i}
    def run_history(grid0, steps, label):
        import copy
        import pickle
        nrows, ncols, xll, yll, csz = grid0
        objs = [Grid("g", ncols, nrows, csz, xll, yll)]
        geoms = [tuple(grid0)]
        arrs = [None]        # the polygon array last handed to each object (re-used in place when asked)
        dfs = [None]         # the table last returned by each object
        done = []
        last = ["fresh"]
        mops, mexp = [], []          # the same history for the stateful model (request `gridhist`)
        for st in steps:
            done.append(st)
            if st["op"] in ("clone", "roundtrip"):
                j = st["of"]
                mops.append(f"K:{j}")
                how = st.get("how", "clone")
                objs.append(objs[j].clone() if how == "clone" else copy.deepcopy(objs[j]) if how == "deepcopy"
                            else pickle.loads(pickle.dumps(objs[j])))
                geoms.append(geoms[j])
                arrs.append(arrs[j])
                dfs.append(None)
                last.append(how)
            elif st["op"] == "set":
                i = st["on"]
                g = list(geoms[i])
                for k, v in st["attrs"].items():
                    setattr(objs[i], k, v)
                    g[{"xllcorner": 2, "yllcorner": 3, "cellsize": 4}[k]] = float(v)
                    mops.append(f"{ {'xllcorner': 'X', 'yllcorner': 'Yl', 'cellsize': 'Z'}[k] }:{i}:{C.f2h(float(v))}")
                geoms[i] = tuple(g)
                last[i] = (last[i] + "+" if last[i] in ("clone", "deepcopy", "pickle") else "") + "set_" + "_".join(sorted(st["attrs"]))
            elif st["op"] == "badquery":
                # fault path: a query the object must refuse (empty polygon, polygon array without exactly two columns);
                # whatever follows on the same object is judged as usual
                i = st["on"]
                kind = st["kind"]
                base = np.array(st["polygon"], dtype=np.float64).reshape(-1, 2)
                bad = (base[:0] if kind == "empty" else np.ascontiguousarray(base[:, :1]) if kind == "width1"
                       else np.ascontiguousarray(np.hstack([base, np.ones((len(base), 1))])))
                try:
                    objs[i].cells_inside_polygon(bad)
                    refused = False
                except Exception:  # noqa
                    refused = True
                add(f"cells {geoms[i][0]} {geoms[i][1]} {C.f2h(geoms[i][2])} {C.f2h(geoms[i][3])} {C.f2h(geoms[i][4])} {C.f2h(ATOL)} []",
                    "err rejected" if refused else "ok accepted",
                    {"grid": list(geoms[i]), "bad_polygon": kind, "history": [dict(d) for d in done]})
                ctx.count(("cellsbad", repr(done)), False, "cells_history:refused_query:" + kind)
                mops.append(f"Q:{i}:{ {'empty': 2, 'width1': 1, 'width3': 3}[kind] }:" +
                            ("[]" if kind == "empty" else C.fmat([tuple(map(float, q)) for q in base])))
                mexp.append("err/rejected" if refused else "ok/accepted")
                last[i] = "refused_query" if last[i] in ("fresh", "query") else last[i] + "+refused_query"
            elif st["op"] == "scribble":
                i = st["on"]
                if dfs[i] is not None:
                    for col, val in (("x", 1e9), ("y", -1e9), ("cell", -7)):
                        try:
                            dfs[i][col].values[:] = val          # in place, through the column's buffer
                        except Exception:  # noqa  (read-only buffer)
                            try:
                                dfs[i].loc[:, col] = val
                            except Exception:  # noqa
                                pass
                last[i] = "result_scribbled"
            else:
                i = st["on"]
                poly = [tuple(map(float, p)) for p in st["polygon"]]
                new = np.array(poly, dtype=np.float64).reshape(-1, 2)
                if st.get("inplace") and arrs[i] is not None and arrs[i].shape == new.shape:
                    arrs[i][:] = new                              # same array object, new vertices
                    last[i] = last[i] + "+polygon_edited_in_place" if last[i] != "query" else "polygon_edited_in_place"
                else:
                    arrs[i] = new
                nq_before = sum(1 for d in done[:-1] if d["op"] == "query")
                tag = "cells_inside_polygon" if nq_before == 0 else "cells_inside_polygon/history/after_" + last[i]
                dfs[i] = query_cells(objs[i], geoms[i], poly, st.get("family", label), st.get("kind", "history"), None, tag,
                                     {"grid0": list(grid0), "history": [dict(d) for d in done]}, pa=arrs[i])
                mops.append(f"Q:{i}:2:{C.fmat(poly)}")
                mexp.append(last_outcome[0])
                if arrs[i].tobytes() != new.tobytes():
                    ctx.disagree("C15: the caller's polygon array was modified by cells_inside_polygon (the model reads its arguments only)",
                                 {"grid": list(geoms[i]), "caller_values": poly[:6],
                                  "array_now": [list(map(float, q)) for q in arrs[i][:6]], "history": [dict(d) for d in done]})
                    arrs[i] = new.copy()
                ctx.hist["history:" + last[i]] = ctx.hist.get("history:" + last[i], 0) + 1
                last[i] = "query"
        # the whole history through the STATEFUL model (gridRun: list of live objects, clones appended)
        hreqs.append(f"gridhist {C.f2h(ATOL)} {nrows} {ncols} {C.f2h(xll)} {C.f2h(yll)} {C.f2h(csz)} " + " ".join(mops))
        hexp.append(("|".join(mexp) if mexp else "-") + f" {len(objs)}")
        hcases.append({"family": label, "grid0": list(grid0), "history": [dict(d) for d in done]})

    def gen_history():
        ncols, nrows = rng.randint(1, 10), rng.randint(1, 10)
        csz = rng.choice(CSZS)
        grid0 = (nrows, ncols, rng.choice(XLLS) * csz, rng.choice(YLLS) * csz, csz)
        geoms = [grid0]
        polys = [None]
        steps = []
        nmax_ = ctx.scale(10, 16)

        def query(i, poly=None):
            if poly is None:
                fam, kind, poly = place_polygon(geoms[i], nmax_)
            else:
                fam, kind = "translated", "history"
            polys[i] = poly
            steps.append({"op": "query", "on": i, "polygon": [list(p) for p in poly], "family": fam, "kind": kind})

        query(0)
        for _ in range(rng.randint(1, 3)):
            i = rng.randrange(len(geoms))
            act = rng.choice(["set", "set", "clone_set", "clone_set", "together", "clone_together", "same", "clone_same",
                              "scribble", "inplace", "inplace", "clone_roundtrip_set", "refused"])
            if act == "refused":
                # a query the object refuses, then the same polygon again or another one
                steps.append({"op": "badquery", "on": i, "kind": rng.choice(["empty", "width1", "width3"]),
                              "polygon": [list(p) for p in (polys[i] or [(0.0, 0.0), (1.0, 0.0), (0.0, 1.0)])]})
                if rng.random() < 0.6 and polys[i] is not None:
                    query(i, polys[i])
                else:
                    query(i)
                continue
            if act == "scribble":
                # the caller edits the returned table in place, then asks again (same or another polygon)
                steps.append({"op": "scribble", "on": i})
                if rng.random() < 0.5 and polys[i] is not None:
                    query(i, polys[i])
                else:
                    query(i)
                continue
            if act == "inplace" and polys[i] is not None:
                # the caller re-uses its polygon array: same number of vertices, other coordinates
                q = [tuple(p) for p in polys[i]]
                how = rng.choice(["shuffle", "move", "translate"])
                nr, nc, xll, yll, csz = geoms[i]
                if how == "shuffle":
                    rng.shuffle(q)
                elif how == "move":
                    k = rng.randrange(len(q))
                    q[k] = (q[k][0] + rng.choice([-2, 1, 3]) * csz, q[k][1] + rng.choice([2, -1, 3]) * csz)
                else:
                    dx, dy = rng.choice([1, -2, 0.5]) * csz, rng.choice([0, 1, -1.5]) * csz
                    q = [(x + dx, y + dy) for x, y in q]
                polys[i] = q
                steps.append({"op": "query", "on": i, "polygon": [list(p) for p in q], "family": "edited", "kind": "history",
                              "inplace": True})
                continue
            if act.startswith("clone"):
                steps.append({"op": "roundtrip", "of": i, "how": rng.choice(["pickle", "deepcopy"])}
                             if "roundtrip" in act else {"op": "clone", "of": i})
                geoms.append(geoms[i])
                polys.append(polys[i])
                if rng.random() < 0.3 and polys[i] is not None:
                    query(i)                         # the original keeps working after having been cloned
                i = len(geoms) - 1
            nr, nc, xll, yll, csz = geoms[i]
            if act.endswith("same"):
                query(i)                             # legitimate reuse: same geometry, another polygon
                continue
            if act.endswith("together") and polys[i] is not None:
                # grid and polygon translated together: same cells expected
                dx = rng.choice([130.0, -7.0, 0.5, 2.0, 1e3, 0.0]) * csz
                dy = rng.choice([-20.0, 3.0, 0.25, 0.0, -1e3]) * csz
                if dx == 0.0 and dy == 0.0:
                    dx = 5.0 * csz
                attrs = {}
                if dx != 0.0:
                    attrs["xllcorner"] = xll + dx
                if dy != 0.0:
                    attrs["yllcorner"] = yll + dy
                steps.append({"op": "set", "on": i, "attrs": attrs})
                geoms[i] = (nr, nc, xll + dx, yll + dy, csz)
                query(i, [(x + dx, y + dy) for x, y in polys[i]])
                continue
            attrs = {}
            which = rng.choice(["x", "y", "xy", "c", "xyc", "c"])
            if "x" in which:
                attrs["xllcorner"] = rng.choice([v * csz for v in XLLS if v * csz != xll] + [xll + 0.5 * csz, xll + nc * csz])
            if "y" in which:
                attrs["yllcorner"] = rng.choice([v * csz for v in YLLS if v * csz != yll] + [yll - 0.5 * csz, yll + nr * csz])
            if "c" in which:
                attrs["cellsize"] = rng.choice([v for v in CSZS if v != csz])
            steps.append({"op": "set", "on": i, "attrs": attrs})
            geoms[i] = (nr, nc, attrs.get("xllcorner", xll), attrs.get("yllcorner", yll), attrs.get("cellsize", csz))
            if rng.random() < 0.5 and polys[i] is not None:
                query(i, polys[i])                   # the old polygon against the new geometry
            else:
                query(i)
        return grid0, steps

    hdir = C.ROOT / "corpus" / PID
    if hdir.is_dir():
        for f in sorted(hdir.glob("*.json")):
            for ent in json.loads(f.read_text()).get("histories", []):
                run_history(tuple(ent["grid0"]), ent["steps"], "corpus:" + f.stem)
    for _ in range(ctx.scale(150, 2000)):
        grid0, steps = gen_history()
        run_history(grid0, steps, "history")

    # ---------------------------------------------------------------- correspondence
    replies = lean.ask(reqs)
    for req, impl, rep, case in zip(reqs, impls, replies, cases):
        if req.startswith("pipcall") and rep in ("err shapeAssert", "err emptyPolygon"):
            rep = "err rejected"
        if req.startswith("cells") and impl in ("err rejected", "ok accepted") and rep.startswith("err"):
            rep = "err rejected"           # a refused query: which guard refuses it is incidental
        ctx.compare("C15", {"request": req[:2000], **case}, impl, rep)
    for req, exp, rep, case in zip(hreqs, hexp, lean.ask(hreqs), hcases):
        # a refused Grid query: which guard refuses it (shape assertion, empty polygon) is incidental
        rep = "|".join("err/rejected" if o in ("err/shapeAssert", "err/emptyPolygon") and "err/rejected" in exp else o
                       for o in rep.split(" ")[0].split("|")) + rep[len(rep.split(" ")[0]):] if req.startswith("gridhist") else rep
        ctx.compare("C15 history (stateful model)", {"request": req[:3000], **case}, exp, rep)
        ctx.hist["histories_through_stateful_model"] = ctx.hist.get("histories_through_stateful_model", 0) + 1
    qrep = lean.ask(qreqs)
    njudged = 0
    for req, rep, (case, gotbits, farq) in zip(qreqs, qrep, qinfo):
        parts = rep.split()
        if len(parts) != 6 or parts[0] != "ok":
            ctx.disagree("C15: exact model gives no answer", {"request": req[:2000], "model": rep, **case})
            continue
        _, mq, eo, eol, eole, eod = parts
        for i, f in enumerate(farq):
            if not f:
                continue
            njudged += 1
            if not (gotbits[i] == mq[i] == eo[i] == eol[i] == eole[i] == eod[i]):
                ctx.disagree("C15: code, exact model and even-odd specification differ on a point farther than the tolerance from the boundary",
                             {"point": case["points"][i], "code": gotbits[i], "model_rat": mq[i], "evenOdd": eo[i],
                              "evenOddLeft": eol[i], "evenOddLe": eole[i], "evenOddDir": eod[i], **case})
    ctx.hist["exact_model_points_judged"] = njudged
    nsim = napply = ncovered = noracle = nrect = 0
    for req, rep, (case, gotbits, far, exact) in zip(rreqs, lean.ask(rreqs), rinfo):
        parts = rep.split()
        if len(parts) != 8 or parts[0] != "ok":
            ctx.disagree("C15: simulated-binary64 model gives no answer", {"request": req[:2000], "model": rep, **case})
            continue
        _, rb, sep, gap, rect, eo, eole, absok = parts
        if absok != "1":
            # instance of rounded_abscissa_error at rnd53: cannot fail unless model and theorem have drifted apart
            ctx.disagree("C15: |xintersR rnd53 - xint| exceeds u53 (|p1x| + 8 |p2x - p1x|) on a straddling edge", {"request": req[:2000], **case})
        for i in range(len(gotbits)):
            nsim += 1
            if rb[i] != gotbits[i]:
                ctx.disagree("C15: the model run in simulated binary64 arithmetic (rnd53) differs from the real kernel",
                             {"point": case["points"][i], "code": gotbits[i], "simulated": rb[i], **case})
            applies = sep == "1" and gap[i] == "1"
            if applies:
                napply += 1
                if not (rb[i] == eo[i] == gotbits[i]):
                    ctx.disagree("C15: hypotheses of rounded_inside_eq_evenOdd hold (decided) but simulated kernel, real kernel and exact even-odd rule differ",
                                 {"point": case["points"][i], "code": gotbits[i], "simulated": rb[i], "evenOdd": eo[i], **case})
            if rect == "1":
                nrect += 1
                if not (rb[i] == eole[i] == gotbits[i]):
                    ctx.disagree("C15: rectilinear polygon with binary64 vertices: simulated kernel, real kernel and exact closed-ray rule differ",
                                 {"point": case["points"][i], "code": gotbits[i], "simulated": rb[i], "evenOddLe": eole[i], **case})
            if far is not None and far[i] and exact[i] is not None:
                noracle += 1
                ncovered += 1 if applies else 0
    ctx.hist["simulated_binary64_points"] = nsim
    ctx.hist["rounding_theorem_hypotheses_hold_points"] = napply
    ctx.hist["rectilinear_exactness_points"] = nrect
    ctx.hist["oracle_judged_points_in_simulated_stream"] = noracle
    ctx.hist["oracle_judged_points_covered_by_rounding_theorem"] = ncovered
    ctx.extra["rule"] = __doc__.split("Cases:")[1].strip()
    ctx.assumptions += [
        "floating point: rounded_inside_eq_evenOdd / rounded_rectilinear_exact are proved for every arithmetic whose + - * / results have relative error <= u <= 1/100 (resp. that keeps 0 and the vertex abscissae); that IEEE binary64 meets this standard model with u = 2^-53 (no overflow / underflow) is classical and not proved here - the simulated binary64 instance (rnd53, proved to meet it) is compared with the real kernel at every generated point",
        "NaN / infinite coordinates are outside the model and the generators (NaN / infinite / negative TOLERANCES are generated and compared bit for bit with the Float instance)",
        "oracle applies to polygons with >= 3 vertices, non-zero coordinate steps >= 1e-6, default atol, and to points at exact distance > 1e-6 x size from every edge",
        "Grid.cells_inside_polygon does not forward its atol argument (the default 1e-8 reaches the kernel); modelled as such",
    ]


def main(tier, replay=None):
    return C.run_check(PID, tier, body, needs_native=True, replay=replay,
                       trusted=["numpy astype/min/max/boolean indexing and pandas.DataFrame construction (external, compared by result)",
                                "Grid.cell2coord kernel (cell centres recomputed with plain arithmetic and compared)",
                                "IEEE binary64 arithmetic meets the standard model |fl(x op y) - (x op y)| <= 2^-53 |x op y| barring overflow / underflow (classical; the proved simulation rnd53 is compared with the real kernel on every run)",
                                "not formalised: the Jordan curve theorem; the even-odd rule is the crossing parity of a ray with the half-open vertex rule, proved independent of the ray direction, constant along every path that misses the boundary and 0 wherever such a path leaves the bounding box"])
