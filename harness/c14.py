"""C14 — variable-to-fixed time-step conversion is the exact period average of the data.

Model: lean/HydroVerif/Model/C14.lean (c_var2h pointer walk + the wrapper's origin/size arithmetic);
theorems: lean/HydroVerif/Props/C14.lean.
Correspondence: (a) the kernel is called through ctypes on libhykern.so (rebuilt from the working tree) and
the Float instance of the model is run on the same (P, rainfall, maxgapsec, hstartsec, nvalh, varsec,
varvalues): same error guard or same missing pattern and values within 4 ulp / 1e-12 (bit-equal in
practice, counted); the exact-rational instance bounds the rounding on small cases; hvalues[nvalh-1] (the
final period) is missing in the model: untouched or NaN in the code agrees. (b) dutils.var2h is called on Series whose DatetimeIndex holds the same wall-clock seconds
in units s/ms/us/ns, naive or time-zone aware; the returned values and the returned index (origin, size, the model's
labels: wrapperSeries / seriesIdx) are compared with the model's wrapper. Nothing is taken from the wrapper's call into
c_hydrodiy_data.var2h (it only passes through a proxy that pads the arrays with a sentinel so that a start scan running
off the end stays inside the allocation): how, and whether, the wrapper calls the kernel is not observed. The model's
conversion of the stored index (wallSec) is compared with the wall-clock seconds the index was built from. (c) c_hydrodiy_data.var2h (the Cython entry point) is called directly on
the caller's own arrays with a stale output buffer: the buffer afterwards and the return code are compared with the model's
pyxVar2h (cells the kernel must not write keep their stale value), whole call histories with the model's run. (d) for
every kernel case the driver runs the control skeleton kernelMiss on the Float marks, the Float kernel and the
exact-rational kernel on stand-in values: the three missing patterns must be the NaN pattern of the real kernel.
Oracle (real code only, independent of the model): exact rational integration (fractions.Fraction) of the
piecewise-linear interpolant / of the prorated rainfall increments over every period; a period that is
not covered by the data or has an invalid interval with positive overlap must be missing; a period all of
whose touching intervals are valid must not be missing; every non-missing value must equal the exact
period average; runs of consecutive non-missing periods conserve the integral; the result of dutils.var2h
must be identical for every index unit and time zone holding the same wall-clock stamps. The final period of the
output may always be missing; a value returned there is judged like any other (exact average of a covered, valid period).
Cases: series of 2..400 observations with integer-second stamps, spacing seconds / minutes / 10 min / hours /
days / mixed, duplicates, stamps exactly on period boundaries, first stamp at offsets 0, 1, 1799, 1800,
1801, 3599 ... of the hour, gaps of maxgapsec-1 / maxgapsec / maxgapsec+1; values constant, ramp, random,
with NaN, negative, tiny negative entries; P in {1800, 3600}; rainfall flag; maxgapsec in {3600 .. 5 days};
kernel called with the wrapper's origin/size and with other origins (on a stamp, first stamp, past the
last stamp, before the first stamp) and sizes (0, 1, periods past the data); malformed stream: decreasing
stamps, rainfall flag 2 / -1, period 900, fewer than 2 observations, maxgapsec < 3600.
Glue stream: defaults, positional arguments, numpy scalars, int / float32 value dtypes, maxgapsec as a non-integer float
(series with gaps of trunc(maxgapsec) and +-1; the oracle compares with the number passed), display=True / display in
{1, 2, -1} at the kernel (C stdout silenced). Stored-index stream: for every
unit / zone variant the index as stored (unit, raw int64, UTC offsets from zoneinfo) goes to the model's wrapperIdx.
History streams: 2-4 calls on ONE Series object (in-place edit of the returned series, in-place / equal-size edits of
values and index, other period / arguments, copy / deepcopy / pickle) and on ONE set of kernel buffers (stale
output buffer, in-place edits), every answer judged against the current state; the oracle reads the periods off
the returned index, so an answer produced without calling the kernel is judged too.
Several-records histories: 2-4 calls in one process on DIFFERENT Series objects, each the sibling of the one before: same
origin and number of periods with the other period length (span halved / doubled) or with other stamps and values, same
stamps with other values, same values with other stamps, same first and last stamp, same record with another argument /
storage unit / zone, same length; sometimes the first record again at the end. Each answer is judged against its own
record, so anything kept between calls under a key that does not capture the whole input shows; the earlier calls are
stored in the case (`prior`) and replayed first. The same records also go through the kernel one after the other.
Cython entry point: single calls (origin of the wrapper / a stamp / arbitrary, nvalh = length of a buffer pre-filled with
stale values), value array of another length, int32 / float32 / strided arrays (must be rejected without a write),
histories of 3-7 operations on one set of arrays (set a stamp - sometimes out of order -, set a value, scribble over the
output, call with other period / flag / maxgapsec / origin, rejected calls: origin before the data, period 900, flag 2);
every accepted call on a well-formed state is judged by the exact oracle, inputs must be unchanged after every call.
Long-span stream: 2-20 observations over 69-142 years (and short series in 1890 / 2100): 6e5 .. 1.3e6 periods, so that
i*P and hstartsec + i*P pass 2^31 and 2^32; exact oracle on sampled period indices (ends, both sides of each crossing,
random) + a float pre-screen of all periods, model compared on slices around the crossings (oracle-only elsewhere).
A case is non-trivial when at least one period is returned non-missing (distinct input).
"""
import bisect
import ctypes
import datetime as dt
import json
import math
import re
from fractions import Fraction

from . import common as C

PID = "C14"
EPS = 1e-8
INT64_MAX = 2 ** 63 - 1
SENT = -777.25          # pre-fill of hvalues: a value the kernel can never produce from our inputs
HOUR = 3600
# whole-hour epoch bases (1968, 1970, 1989, 2000, 2024-06-13, 2031-07-01)
BASES = [-63158400, 0, 607392000, 946684800, 1718236800, 1940716800]
SUMMER_BASES = [1718236800, 1940716800, 960854400]   # June/July: no DST transition within weeks
UNITS = ["s", "ms", "us", "ns"]
FIXED_TZ = [None, "UTC", "Australia/Brisbane", "Australia/Darwin", "Asia/Kathmandu", "-03:30", "+10:00"]
DST_TZ = ["Australia/Sydney", "Europe/Paris", "America/St_Johns"]


def isnan(x):
    return x != x


def enc_vals(vals):
    return [None if isnan(v) else v for v in vals]


def dec_vals(vals):
    return [float("nan") if v is None else float(v) for v in vals]


# ------------------------------------------------------------------------------------------------
# generators
def gen_secs(rng, maxgap, kind=None, n=None):
    kind = kind or rng.choice(["sec", "min", "tenmin", "fivemin", "hour", "halfhour", "day", "mixed", "mixed",
                               "dups", "boundary", "gapedge"])
    base = rng.choice(BASES)
    off = rng.choice([0, 0, 1, 2, 59, 600, 1799, 1800, 1801, 3599, rng.randrange(3600)])
    t = base + rng.randrange(0, 48) * HOUR + off
    if n is None:
        n = rng.choice([2, 2, 3, 3, 4, 5, 6, 8, 12, 20, 40])
    secs = [t]

    def step():
        if kind == "sec":
            return rng.randint(1, 59)
        if kind == "min":
            return rng.randint(60, 3599)
        if kind == "tenmin":
            return 600
        if kind == "fivemin":
            return 300
        if kind == "hour":
            return rng.choice([3600, 3600, 7200, 3600 * rng.randint(1, 5)])
        if kind == "halfhour":
            return 1800
        if kind == "day":
            return rng.randint(1, 3) * 86400 + rng.choice([0, 0, 1, -1, 1800, rng.randrange(3600)])
        if kind == "dups":
            return rng.choice([0, 0, rng.randint(1, 4000), 1800, 600])
        if kind == "gapedge":
            return rng.choice([maxgap - 1, maxgap, maxgap + 1, maxgap + 1, 600, 1800, rng.randint(1, 4000)])
        if kind == "boundary":
            # land exactly on the next multiple of 1800 / 3600, or somewhere before it
            cur = secs[-1]
            nxt = (cur // 1800 + 1) * 1800
            return rng.choice([nxt - cur, nxt - cur, nxt - cur + 1800, max(1, (nxt - cur) // 2), 0])
        # mixed
        return rng.choice([0, 1, rng.randint(1, 59), rng.randint(60, 3599), 600, 1800, 3600, 7200,
                           rng.randint(3600, 20000), maxgap, maxgap + 1])
    for _ in range(n - 1):
        secs.append(secs[-1] + step())
    # the property is about series spanning at least two periods: usually extend short ones
    if secs[-1] - secs[0] < 2 * HOUR and rng.random() < 0.9:
        while secs[-1] - secs[0] < 2 * HOUR + rng.randrange(0, 3 * HOUR):
            secs.append(secs[-1] + rng.choice([600, 1800, 3600, rng.randint(1, 3599)]))
    return secs, kind, off


def gen_vals(rng, n):
    kind = rng.choice(["const", "ramp", "uniform", "uniform", "exp", "zeros_mixed", "dyadic"])
    if kind == "const":
        c = rng.choice([10.0, 1.0, 0.0, 3.5])
        v = [c] * n
    elif kind == "ramp":
        a, b = rng.choice([0.0, 1.0, 100.0]), rng.choice([0.5, 1.0, 7.0])
        v = [a + b * i for i in range(n)]
    elif kind == "uniform":
        top = rng.choice([1.0, 100.0, 1e4])
        v = [rng.uniform(0, top) for _ in range(n)]
    elif kind == "exp":
        v = [rng.expovariate(0.1) for _ in range(n)]
    elif kind == "zeros_mixed":
        v = [rng.choice([0.0, 0.0, rng.uniform(0, 20)]) for _ in range(n)]
    else:
        v = [rng.randrange(0, 800) / 8.0 for _ in range(n)]
    flags = []
    r = rng.random()
    if r < 0.35:
        for _ in range(rng.randint(1, max(1, n // 6))):
            v[rng.randrange(n)] = float("nan")
        flags.append("nan")
    r = rng.random()
    if r < 0.3:
        for _ in range(rng.randint(1, max(1, n // 8))):
            v[rng.randrange(n)] = rng.choice([-1.0, -0.5, -1e-3, -2e-8, -rng.uniform(0, 50)])
        flags.append("neg")
    if rng.random() < 0.05:
        v[rng.randrange(n)] = rng.choice([-1e-9, -9e-9, -0.0])
        flags.append("tinyneg")
    return v, kind + ("+" + "+".join(flags) if flags else "")


def origin_of(first):
    return (first // HOUR) * HOUR + HOUR


# ------------------------------------------------------------------------------------------------
# independent oracle: exact integration
class Exact:
    def __init__(self, secs, vals, P, rain, maxgap):
        self.secs, self.P, self.rain, self.maxgap = secs, P, rain, maxgap
        self.vals = vals
        self.fv = [None if isnan(v) else Fraction(v) for v in vals]
        n = len(secs)
        self.strict_bad = []   # invalid for sure (the code's thresholds)
        self.loose_bad = []    # invalid in the widest reading (any negative value)
        for j in range(n - 1):
            v1, v2 = vals[j], vals[j + 1]
            gap = secs[j + 1] - secs[j] > maxgap
            nanv = isnan(v1) or isnan(v2)
            self.strict_bad.append(nanv or gap or v1 < -1e-8 or v2 < -1e-8)
            self.loose_bad.append(nanv or gap or v1 < 0 or v2 < 0 or (v1 == 0 and math.copysign(1, v1) < 0)
                                  or (v2 == 0 and math.copysign(1, v2) < 0))

    def interval_range(self, s, e):
        """indices j of intervals [t_j, t_j+1] that intersect the closed period [s, e]"""
        secs = self.secs
        n = len(secs)
        # first j with t_{j+1} >= s ; last j with t_j <= e
        j0 = max(bisect.bisect_left(secs, s) - 1, 0)
        j1 = min(bisect.bisect_right(secs, e) - 1, n - 2)
        return range(j0, j1 + 1)

    def period(self, s, e):
        """-> (covered, must_miss, may_miss, exact_total or None)
        exact_total = integral of the interpolant over [s,e] (trapezoid) or prorated increments (rainfall)"""
        secs = self.secs
        covered = secs[0] <= s and e <= secs[-1]
        must, may = False, False
        total = Fraction(0)
        defined = True
        for j in self.interval_range(s, e):
            t1, t2 = secs[j], secs[j + 1]
            if t1 <= e and t2 >= s:
                if self.loose_bad[j]:
                    may = True
            lo, hi = max(t1, s), min(t2, e)
            if hi - lo > 0:
                if self.strict_bad[j]:
                    must = True
                v1, v2 = self.fv[j], self.fv[j + 1]
                if v1 is None or v2 is None:
                    defined = False
                    continue
                if self.rain:
                    total += v2 * (hi - lo) / (t2 - t1)
                else:
                    sl = (v2 - v1) / (t2 - t1)
                    total += (v1 + sl * (lo - t1) + v1 + sl * (hi - t1)) / 2 * (hi - lo)
        return covered, must, may, (total if defined else None)


def period_verdicts(ex, s, e, h, scale):
    """the property for ONE period on the value `h` returned by the real code -> (list of (suffix, what, info), exact or None)"""
    covered, must, may, total = ex.period(s, e)
    # "open": only a merely touching interval is invalid - the property leaves the period unconstrained (missing or average)
    ex.last_open = bool(covered and may and not must)
    kind = "rain" if ex.rain else "trapz"
    out = []
    if not covered:
        if not isnan(h):
            out.append(("missing_expected/past_last_stamp",
                        "a period that extends past the last observation is returned non-missing "
                        "(partial integral divided by the full period)", {"last_stamp": ex.secs[-1]}))
    elif must:
        if not isnan(h):
            out.append(("missing_expected/invalid_overlap",
                        "a period overlapped by an invalid interval (NaN / negative end value / gap > maxgapsec) "
                        "is returned non-missing", {}))
    elif not may:
        if isnan(h):
            out.append(("unexpected_missing",
                        "a period covered by the data, all of whose touching intervals are valid, is missing", {}))
    want = None
    if not isnan(h) and covered and total is not None:
        want = total if ex.rain else total / ex.P
        tol = 1e-10 * (scale + abs(float(want)))
        if not abs(Fraction(h) - want) <= tol:
            out.append((f"value_not_period_average/{kind}",
                        "a non-missing value differs from the exact period " +
                        ("total of the prorated increments" if ex.rain else "average of the piecewise-linear interpolant"),
                        {"exact": float(want)}))
    return out, want


def check_periods(ctx, entry, case, ex, hstart, outs, tag, shrinker=None, final=None, open_out=None):
    """the property, period by period, on values returned by the real code (`outs` = periods 0..len-1).
    `final` = index of the final period of the output: the property exempts it from "missing exactly when",
    so a missing value is always accepted there; a returned value is judged like any other."""
    P, rain = ex.P, ex.rain
    scale = max([abs(v) for v in ex.vals if not isnan(v)] + [1.0])
    kind = "rain" if rain else "trapz"
    run_sum, run_exact, run_len = 0.0, Fraction(0), 0
    nontrivial = False
    shrunk = set()
    for i, h in enumerate(outs):
        s = hstart + i * P
        e = s + P
        verdicts, want = period_verdicts(ex, s, e, h, scale)
        if open_out is not None and ex.last_open:
            open_out.append(i)
        if i == final:
            verdicts = [v for v in verdicts if v[0] != "unexpected_missing"]
        for suffix, what, extra in verdicts:
            info = {"period": i, "start": s, "end": e, "returned": None if isnan(h) else h, **extra}
            rcase = {**case, **info}
            if shrinker is not None and suffix not in shrunk:
                shrunk.add(suffix)
                small = shrinker(i, suffix)
                if small is not None:
                    rcase = small
            ctx.finding(f"{entry}/{suffix}", what, rcase)
        if want is not None:
            nontrivial = True
            run_sum += h
            run_exact += want
            run_len += 1
        else:
            if run_len > 1:
                _conservation(ctx, entry, case, run_sum, run_exact, run_len, scale, i, kind)
            run_sum, run_exact, run_len = 0.0, Fraction(0), 0
    if run_len > 1:
        _conservation(ctx, entry, case, run_sum, run_exact, run_len, scale, len(outs), kind)
    return nontrivial


def _conservation(ctx, entry, case, run_sum, run_exact, run_len, scale, iend, kind):
    tol = 1e-10 * run_len * (scale + abs(float(run_exact)))
    if not abs(Fraction(run_sum) - run_exact) <= tol:
        ctx.finding(f"{entry}/not_conserved/{kind}",
                    "the sum over a run of consecutive non-missing periods differs from the integral over their span",
                    {**case, "run_end": iend, "run_len": run_len, "sum": run_sum, "exact": float(run_exact)})


# ------------------------------------------------------------------------------------------------
def guard_table(repo):
    """error code -> guard name, resolved against the *current* source (codes written as
    `VAR2H_ERROR + __LINE__` or as named constants of c_var2h.h); never raises"""
    table = {}
    try:
        d = repo / "src" / "hydrodiy" / "data"
        defs = dict(re.findall(r"^[ \t]*#define[ \t]+(VAR2H_ERROR\w*)[ \t]+(.+?)[ \t]*(?:/\*.*)?$",
                               (d / "c_var2h.h").read_text(), re.M))

        def value(name, depth=0):
            expr = defs[name]
            for other in sorted(defs, key=len, reverse=True):
                if other != name and re.search(r"\b" + other + r"\b", expr) and depth < 5:
                    expr = re.sub(r"\b" + other + r"\b", str(value(other, depth + 1)), expr)
            if not re.fullmatch(r"[\d\s()+\-*]+", expr):
                raise ValueError(expr)
            return int(eval(expr, {"__builtins__": {}}))     # digits, + - * and parentheses only
        lines = (d / "c_var2h.c").read_text().splitlines()
        for ln, text in enumerate(lines, 1):
            m = re.search(r"\breturn\s+\(?\s*(VAR2H_ERROR\w*)\s*(\+\s*__LINE__)?", text)
            if not m or m.group(1) not in defs:
                continue
            code = value(m.group(1)) + (ln if m.group(2) else 0)
            cond = ""
            for k in range(ln - 2, max(ln - 14, -1), -1):
                mm = re.search(r"\bif\s*\((.*)", lines[k])
                if mm and "display" not in mm.group(1):
                    cond = mm.group(1).replace(" ", "")
                    break
            if "rainfall" in cond:
                name = "badRainfall"
            elif "nbsec_per_period" in cond:
                name = "badPeriod"
            elif "varindex<0" in cond or "nvalvar<2" in cond:
                name = "startBeforeData"
            elif "t2<t1" in cond or "t1>t2" in cond:
                name = "decreasing"
            else:
                name = "unknown-guard:" + cond[:40]
            table[code] = name
    except Exception:
        pass
    return table


def fmt_out(vals):
    return "ok [" + ",".join(C.f2h(v) for v in vals) + "]"


def compare_lists(impl, model, scale, skip=()):
    """(agree, bit_equal). NaN is compared by isnan (never by sign bit / payload), numbers within 4 ulp or 1e-12 of
    the data scale; indices in `skip` (periods the property leaves open: only a touching interval is invalid, where
    "missing" and "the exact average" are both right and the oracle decides) are not compared."""
    if len(impl) != len(model):
        return False, False
    bit = True
    skip = set(skip)
    for i, (a, b) in enumerate(zip(impl, model)):
        if i in skip:
            continue
        if isnan(a) != isnan(b):
            return False, False
        if isnan(a):
            continue
        if C.f2h(a) != C.f2h(b):
            bit = False
            if not C.close(a, b, rel=1e-12, abs_=1e-12 * scale, ulps=4):
                return False, False
    return True, bit


def body(ctx):
    import warnings
    warnings.simplefilter("ignore")
    import numpy as np
    import pandas as pd
    from hydrodiy.data import dutils
    rng = ctx.rng
    lean = ctx.lean
    lib = ctypes.CDLL(str(ctx.native / "libhykern.so"))
    lib.c_var2h.restype = ctypes.c_int
    lib.c_var2h.argtypes = [ctypes.c_int] * 6 + [ctypes.c_void_p, ctypes.c_void_p, ctypes.c_longlong, ctypes.c_void_p]
    guards = guard_table(C.REPO)
    stats = {"kernel_bit_equal": 0, "kernel_within_tol": 0, "wrapper_bit_equal": 0, "wrapper_within_tol": 0,
             "rat_cases": 0, "variants": 0, "periods_checked": 0, "periods_nonmissing": 0, "final_period_returned": 0, "malformed_differences": 0,
             "stored_index_cases": 0, "stored_index_skipped": 0, "history_steps": 0,
             "long_prescreened": 0, "long_model_slices": 0, "labels_compared": 0, "pyx_calls": 0, "pyx_rejections": 0,
             "pyx_histories": 0, "display_cases": 0, "missing_patterns_compared": 0}

    # ---- the Cython boundary: the arrays are padded with a sentinel so that a start scan running off the end stays
    # inside the allocation. Nothing the oracle or the correspondence uses is taken from this call: HOW (and whether) the
    # wrapper calls the kernel - absolute or relative seconds, keywords, a memo that skips the call - is its own business;
    # the wrapper is judged on the series it returns.
    class Proxy:
        NAMES = ["maxgapsec", "hstartsec", "nbsec_per_period", "rainfall", "display", "varsec", "varvalues", "hvalues"]

        def __init__(self, real):
            self._real = real
            self.calls = []

        def __getattr__(self, k):
            return getattr(self._real, k)

        def var2h(self, *args, **kw):
            self.calls.append(1)
            try:
                b = dict(zip(self.NAMES, args))
                b.update(kw)
                varsec, varvalues = b["varsec"], b["varvalues"]
                if not (isinstance(varsec, np.ndarray) and isinstance(varvalues, np.ndarray) and varsec.dtype == np.int64
                        and varvalues.dtype == np.float64 and varsec.ndim == 1 and varvalues.ndim == 1
                        and len(varsec) == len(varvalues) and set(b) == set(self.NAMES)):
                    raise TypeError
                n = len(varsec)
                ps = np.empty(n + 1, dtype=np.int64)
                ps[:n] = varsec
                ps[n] = INT64_MAX
                pv = np.empty(n + 1, dtype=np.float64)
                pv[:n] = varvalues
                pv[n] = np.nan
                b["varsec"], b["varvalues"] = ps[:n], pv[:n]
                call = [b[k] for k in self.NAMES]
            except Exception:
                return self._real.var2h(*args, **kw)        # a call we do not understand goes through untouched
            return self._real.var2h(*call)

    proxy = Proxy(dutils.c_hydrodiy_data)
    dutils.c_hydrodiy_data = proxy

    import os as _os
    import sys as _sys
    libc = ctypes.CDLL(None)

    def quiet_c(fn):
        """run fn() with the C-level stdout (fd 1) sent to /dev/null: the kernel prints its progress when display == 1"""
        _sys.stdout.flush()
        libc.fflush(None)
        saved, sink = _os.dup(1), _os.open(_os.devnull, _os.O_WRONLY)
        _os.dup2(sink, 1)
        try:
            return fn()
        finally:
            libc.fflush(None)
            _os.dup2(saved, 1)
            _os.close(saved)
            _os.close(sink)

    def same_floats(a, b):
        return len(a) == len(b) and all((isnan(x) and isnan(y)) or C.f2h(float(x)) == C.f2h(float(y)) for x, y in zip(a, b))

    def inputs_kept(ps, pv, secs, vals, where, case):
        """the model says a call never writes to varsec / varvalues (`call_keeps_inputs`)"""
        n = len(secs)
        if [int(x) for x in ps[:n]] != [int(x) for x in secs] or not same_floats(pv[:n], vals):
            ctx.disagree(f"C14/{where}: the call modified its input arrays (varsec / varvalues)",
                         {"gen": case.get("gen"), "secs": list(secs)[:20], "after": [int(x) for x in ps[:n]][:20]})
            ps[:n] = secs
            pv[:n] = vals

    def call_kernel(P, rain, maxgap, hstart, nvalh, secs, vals, bufs=None, display=0, case=None):
        """bufs = {"ps","pv","hv"}: the SAME arrays as in earlier calls of a history (already holding secs / vals,
        hvalues[0..nvalh-2] still holding whatever an earlier call left there)"""
        n = len(secs)
        if bufs is not None:
            ps, pv, hv = bufs["ps"], bufs["pv"], bufs["hv"]
            assert len(ps) == n + 1 and len(hv) >= max(nvalh, 0) + 1
            hv[max(nvalh - 1, 0):] = SENT          # the part the kernel is not obliged to write
        else:
            ps = np.empty(n + 1, dtype=np.int64)
            ps[:n] = secs
            ps[n] = INT64_MAX
            pv = np.empty(n + 1, dtype=np.float64)
            pv[:n] = vals
            pv[n] = np.nan
            hv = np.full(max(nvalh, 0) + 1, SENT, dtype=np.float64)

        def go():
            return lib.c_var2h(n, nvalh, P, rain, display, maxgap, ps.ctypes.data, pv.ctypes.data, hstart, hv.ctypes.data)
        ierr = quiet_c(go) if display == 1 else go()
        inputs_kept(ps, pv, secs, vals, "kernel", case or {})
        if bufs is not None:
            return ierr, hv[:max(nvalh, 0) + 1].copy()
        return ierr, hv

    reqs, pend = [], []    # pend: (kind, impl, case, scale)

    def run_kernel_case(case, tag, bufs=None):
        secs, vals = case["secs"], dec_vals(case["vals"])
        P, rain, maxgap, hstart, nvalh = case["P"], case["rain"], case["maxgap"], case["hstart"], case["nvalh"]
        ierr, hv = call_kernel(P, rain, maxgap, hstart, nvalh, secs, vals, bufs, display=case.get("display", 0), case=case)
        scale = max([abs(v) for v in vals if not isnan(v)] + [1.0])
        wellformed = (rain in (0, 1) and P in (1800, 3600) and len(secs) >= 2 and maxgap >= 3600
                      and all(a <= b for a, b in zip(secs, secs[1:])) and secs[0] <= hstart)
        nontrivial = False
        if ierr != 0:
            impl = "err " + guards.get(ierr, f"code{ierr}")
            if wellformed:
                ctx.finding("kernel/error_on_sorted_input", "c_var2h returns an error code on a non-decreasing series "
                            "whose first stamp is not later than the origin", {**case, "ierr": ierr, "guard": impl})
        else:
            outs = [float(x) for x in hv[:max(nvalh - 1, 0)]]
            # final period: untouched (the caller's pre-fill) counts as missing
            last = [] if nvalh < 1 else [float("nan") if hv[nvalh - 1] == SENT else float(hv[nvalh - 1])]
            impl = outs + last
            if hv[max(nvalh, 0)] != SENT:
                ctx.finding("kernel/write_past_hvalues", "c_var2h wrote past hvalues", dict(case))
            if wellformed:
                if SENT in outs:
                    ctx.finding("kernel/period_not_written", "a period below nvalh-1 was not written", dict(case))
                ex = Exact(secs, vals, P, rain, maxgap)

                def shrinker(i, suffix):
                    """the observations around period i only, origin = start of the period, one period"""
                    s0 = hstart + i * P
                    j0 = max(bisect.bisect_right(secs, s0) - 2, 0)
                    j1 = min(bisect.bisect_left(secs, s0 + P) + 1, len(secs) - 1)
                    sub, subv = secs[j0:j1 + 1], vals[j0:j1 + 1]
                    if len(sub) < 2 or sub[0] > s0 or len(sub) >= len(secs) and i == 0:
                        return None
                    ierr2, hv2 = call_kernel(P, rain, maxgap, s0, 2, sub, subv)
                    if ierr2 != 0:
                        return None
                    h2 = float(hv2[0])
                    v2, _ = period_verdicts(Exact(sub, subv, P, rain, maxgap), s0, s0 + P, h2, scale)
                    for suf2, _, extra in v2:
                        if suf2 == suffix:
                            return {"kind": "kernel", "secs": sub, "vals": enc_vals(subv), "P": P, "rain": rain,
                                    "maxgap": maxgap, "hstart": s0, "nvalh": 2, "period": 0, "start": s0,
                                    "end": s0 + P, "returned": None if isnan(h2) else h2, **extra,
                                    "shrunk_from": {"n": len(secs), "period": i, "gen": case.get("gen")}}
                    return None
                open_idx = []
                nontrivial = check_periods(ctx, "kernel", case, ex, hstart, outs + last, tag, shrinker,
                                           final=(nvalh - 1 if last else None), open_out=open_idx)
                case = {**case, "_open": open_idx}
                stats["periods_checked"] += len(outs) + len(last)
                stats["periods_nonmissing"] += sum(1 for x in outs + last if not isnan(x))
                stats["final_period_returned"] += sum(1 for x in last if not isnan(x))
        reqs.append(f"kernel {P} {rain} {maxgap} {C.f2h(EPS)} {hstart} {nvalh} {C.ilist(secs)} {C.flist(vals)}")
        case = {**case, "_wellformed": wellformed}
        pend.append(("kernel", impl, case, scale))
        # which periods are missing: the control skeleton on the marks, the Float kernel and the exact kernel on stand-in
        # values must all give the pattern of the real kernel (missing_pattern_is_skeleton / _same_as_exact)
        reqs.append(f"kmiss {P} {rain} {maxgap} {C.f2h(EPS)} {hstart} {nvalh} {C.ilist(secs)} {C.flist(vals)}")
        pend.append(("kmiss", impl if isinstance(impl, str) else [isnan(x) for x in impl[:max(nvalh - 1, 0)]], case, scale))
        if case.get("rat"):
            rv = "[" + ",".join("nan" if isnan(v) else C.rat(v) for v in vals) + "]"
            reqs.append(f"kernelq {P} {rain} {maxgap} 1/100000000 {hstart} {nvalh} {C.ilist(secs)} {rv}")
            pend.append(("kernelq", impl, case, scale))
            stats["rat_cases"] += 1
        ctx.count(("k", P, rain, maxgap, hstart, nvalh, tuple(secs), tuple(case["vals"])), nontrivial,
                  f"kernel/{tag.split('/')[0]}/P={P}/rain={rain}" + ("" if ierr == 0 else "/" + impl.replace(" ", "=")),
                  sample={"entry": "c_var2h", "P": P, "rainfall": rain, "maxgapsec": maxgap, "hstartsec": hstart,
                          "nvalh": nvalh, "varsec": secs[:8], "varvalues": case["vals"][:8],
                          "returned": (impl if isinstance(impl, str) else enc_vals(impl[:6]))}
                  if len(secs) <= 8 and nontrivial else None)

    def make_index(secs, unit, tz):
        idx = pd.DatetimeIndex(np.array(secs, dtype="int64").astype("datetime64[s]")).as_unit(unit)
        if tz is not None:
            if tz[0] in "+-":
                sign = 1 if tz[0] == "+" else -1
                hh, mm = tz[1:].split(":")
                tzo = dt.timezone(sign * dt.timedelta(hours=int(hh), minutes=int(mm)))
            else:
                tzo = tz
            idx = idx.tz_localize(tzo)
        return idx

    live = {"r": None, "se": None}

    def utc_offsets(raw, unit, tz):
        """UTC offset (s) of every stored instant, from the zone database directly (not through pandas)"""
        if tz is None:
            return [0] * len(raw)
        if tz[0] in "+-":
            sign = 1 if tz[0] == "+" else -1
            hh, mm = tz[1:].split(":")
            return [sign * (int(hh) * 3600 + int(mm) * 60)] * len(raw)
        if tz == "UTC":
            return [0] * len(raw)
        import zoneinfo
        z = zoneinfo.ZoneInfo(tz)
        per = {"s": 1, "ms": 10 ** 3, "us": 10 ** 6, "ns": 10 ** 9}[unit]
        epoch = dt.datetime(1970, 1, 1, tzinfo=dt.timezone.utc)
        return [int((epoch + dt.timedelta(seconds=int(x) // per)).astimezone(z).utcoffset().total_seconds()) for x in raw]

    def call_wrapper(secs, vals, P, rain, maxgap, unit, tz, se=None, style="explicit"):
        """-> (canonical result, recorded call or None). `se`: an existing Series object (history streams)"""
        if se is None:
            idx = make_index(secs, unit, tz)
            if style == "int_values":
                se = pd.Series(np.array(vals, dtype=np.int64), index=idx)
            elif style == "float32_values":
                se = pd.Series(np.array(vals, dtype=np.float32), index=idx)
            else:
                se = pd.Series(np.array(vals, dtype=np.float64), index=idx)
        live["se"], live["r"] = se, None
        proxy.calls.clear()
        try:
            if style == "defaults":
                r = dutils.var2h(se)
            elif style == "positional":
                r = dutils.var2h(se, P, maxgap, bool(rain), False)
            elif style == "numpy_scalars":
                r = dutils.var2h(se, nbsec_per_period=np.int64(P), maxgapsec=np.int64(maxgap), rainfall=np.bool_(rain))
            elif style == "int_flag":
                r = dutils.var2h(se, nbsec_per_period=P, maxgapsec=float(maxgap), rainfall=int(rain))
            elif style == "display":
                r = quiet_c(lambda: dutils.var2h(se, P, maxgap, bool(rain), True))
            else:
                r = dutils.var2h(se, nbsec_per_period=P, maxgapsec=maxgap, rainfall=bool(rain))
            live["r"] = r
        except Exception as exc:      # whatever class the wrapper raises (ValueError, RuntimeError, TypeError, ...)
            msg = str(exc)
            m = re.search(r"\b(1[0-9]{5})\b", msg)
            if "nbsec_per_period" in msg:
                name = "badPeriod"
            elif "maxgapsec" in msg:
                name = "badMaxgap"
            elif m:
                name = guards.get(int(m.group(1)), "code" + m.group(1))
            else:
                name = type(exc).__name__ + ":" + msg[:60]
            return ("err", name), None
        rec = None          # nothing is taken from the kernel call
        try:
            ridx = r.index
            if getattr(ridx, "tz", None) is not None:
                ridx = ridx.tz_localize(None)
            isecs = [int(x) for x in ridx.values.astype("datetime64[s]").astype("int64")]
            exact_idx = bool(np.all(ridx.values == ridx.values.astype("datetime64[s]")))
            return ("ok", [float(x) for x in r.values], isecs, exact_idx), rec
        except Exception as exc:      # a result that is not a float series on a DatetimeIndex
            return ("err", "bad-result:" + type(exc).__name__), rec

    def run_wrapper_case(case, tag, se=None):
        secs, vals = case["secs"], dec_vals(case["vals"])
        P, rain, maxgap = case["P"], case["rain"], case["maxgap"]
        variants = [tuple(v) for v in case["variants"]]
        style = case.get("style", "explicit")
        scale = max([abs(v) for v in vals if not isnan(v)] + [1.0])
        wellformed = (P in (1800, 3600) and len(secs) >= 2 and maxgap >= 3600
                      and all(a <= b for a, b in zip(secs, secs[1:])))
        ref = None
        nontrivial = False
        open_idx = []       # filled by the oracle on the first variant, shared by every request of this case
        for vi, (unit, tz) in enumerate(variants):
            res, rec = call_wrapper(secs, vals, P, rain, maxgap, unit, tz, se=(se if vi == 0 else None), style=style)
            stats["variants"] += 1
            vcase = {**case, "unit": unit, "tz": tz}
            vcase.pop("variants", None)
            # the index as stored (raw int64 count of its unit, UTC instant when tz-aware) + the zone's UTC offsets
            # -> the model's own conversion to wall-clock seconds, origin, size and values
            if wellformed and (vi > 0 or se is not None or style != "explicit"):
                try:
                    sidx = live["se"].index
                    raw = [int(x) for x in sidx.asi8]
                    offs = utc_offsets(raw, sidx.unit, tz)
                    reqs.append(f"wrapperidx {P} {rain} {int(maxgap)} {C.f2h(EPS)} {sidx.unit} {C.ilist(raw)} {C.ilist(offs)} "
                                f"{C.flist(vals)}")
                    impl_i = ("err " + res[1]) if res[0] == "err" else ((res[2][0] if res[2] else None), res[1])
                    # the model's conversion of the stored index (wallSec) must give the wall-clock seconds the index was
                    # built from; what the wrapper makes of the index is judged through the values it returns
                    pend.append(("wrapperidx", impl_i, {**vcase, "_wellformed": True, "_open": open_idx,
                                                        "_varsec": [int(t) for t in secs],
                                                        "_labels": (res[2] if res[0] == "ok" and res[3] else None)}, scale))
                    stats["stored_index_cases"] += 1
                except Exception as exc:       # an index pandas cannot describe this way: nothing to compare
                    stats["stored_index_skipped"] += 1
            if vi == 0:
                ref = res
                # correspondence on the first variant (the others must equal it, see below)
                if res[0] == "err":
                    impl = "err " + res[1]
                    if wellformed:
                        ctx.finding("var2h/error_on_sorted_input", "dutils.var2h raises on a non-decreasing series",
                                    {**vcase, "error": res[1]})
                else:
                    # the periods are read off the RETURNED index (the oracle must not depend on the kernel having
                    # been called: a cached or recycled answer is judged against the current series all the same)
                    hstart = res[2][0] if res[2] else None
                    impl = (hstart, res[1])
                    if wellformed and res[1]:
                        h0 = res[2][0]
                        want_idx = [h0 + i * P for i in range(len(res[1]))]
                        if res[2] != want_idx or not res[3]:
                            ctx.finding("var2h/index_not_periods", "the returned index is not origin + i*period",
                                        {**vcase, "index": res[2][:5], "origin": h0})
                        ex = Exact(secs, vals, P, rain, maxgap)
                        outs = res[1]
                        nontrivial = check_periods(ctx, "var2h", vcase, ex, h0, outs, tag,
                                                   final=len(outs) - 1, open_out=open_idx)
                        stats["periods_checked"] += len(outs)
                        stats["periods_nonmissing"] += sum(1 for x in outs if not isnan(x))
                        stats["final_period_returned"] += sum(1 for x in outs[-1:] if not isnan(x))
                if isinstance(maxgap, float):
                    # maxgapsec passed as a float: the model casts it like np.int32 (maxgapOfArg); the oracle above
                    # compares interval lengths with the number that was passed
                    reqs.append(f"wrapperarg {P} {rain} {C.rat(maxgap)} {C.f2h(EPS)} {C.ilist(secs)} {C.flist(vals)}")
                else:
                    reqs.append(f"wrapper {P} {rain} {maxgap} {C.f2h(EPS)} {C.ilist(secs)} {C.flist(vals)}")
                pend.append(("wrapper", impl, {**vcase, "_wellformed": wellformed, "_open": open_idx,
                                               "_labels": (res[2] if res[0] == "ok" and res[3] else None)}, scale))
            else:
                same = (res[0] == ref[0]) and (
                    res[1] == ref[1] if res[0] == "err" else
                    (len(res[1]) == len(ref[1]) and all(C.f2h(a) == C.f2h(b) for a, b in zip(res[1], ref[1]))
                     and res[2] == ref[2]))
                if not same and wellformed:
                    u0, z0 = variants[0]
                    what = f"unit={unit}" if unit != u0 else "tz"
                    if unit != u0 and tz != z0:
                        # which of the two is responsible: same unit, reference zone
                        res2, _ = call_wrapper(secs, vals, P, rain, maxgap, unit, z0)
                        same2 = (res2[0] == ref[0]) and (
                            res2[1] == ref[1] if res2[0] == "err" else
                            (len(res2[1]) == len(ref[1]) and all(C.f2h(a) == C.f2h(b) for a, b in zip(res2[1], ref[1]))
                             and res2[2] == ref[2]))
                        what = "tz" if same2 else f"unit={unit}"
                    ctx.finding("var2h/depends_on_index/" + what,
                                f"dutils.var2h returns a different result for the same wall-clock stamps stored as "
                                f"datetime64[{unit}] tz={tz} than as datetime64[{u0}] tz={z0}",
                                {**vcase, "ref_unit": u0, "ref_tz": z0,
                                 "got": (res[1] if res[0] == "err" else enc_vals(res[1][:6])),
                                 "ref": (ref[1] if ref[0] == "err" else enc_vals(ref[1][:6]))})
        ctx.count(("w", P, rain, maxgap, tuple(secs), tuple(case["vals"]), tuple(variants)), nontrivial,
                  f"var2h/{tag}/P={P}/rain={rain}",
                  sample={"entry": "dutils.var2h", "P": P, "rainfall": rain, "maxgapsec": maxgap, "secs": secs[:8],
                          "values": case["vals"][:8], "variants": variants,
                          "returned": (ref[1] if ref[0] == "err" else enc_vals(ref[1][:6]))}
                  if len(secs) <= 8 and nontrivial else None)

    I64 = np.int64

    def run_long_case(case, tag):
        """few observations over decades: several 10^5 .. 10^6 periods, so that i*P and hstartsec + i*P pass 2^31 and
        2^32 (and, for stamps before 1970, -2^31 and 0). The kernel is called directly (and dutils.var2h when
        case["wrapper"]); the oracle is exact on a sample of period indices (ends, both sides of every power-of-two
        crossing, random) and a float pre-screen of ALL periods lying strictly inside one interval picks further
        indices for the exact oracle; the model is asked for slices around the crossings (origin moved to period k)."""
        secs, vals = case["secs"], dec_vals(case["vals"])
        P, rain, maxgap, hstart, nvalh = case["P"], case["rain"], case["maxgap"], case["hstart"], case["nvalh"]
        scale = max([abs(v) for v in vals if not isnan(v)] + [1.0])
        ex = Exact(secs, vals, P, rain, maxgap)
        sources = []
        ierr, hv = call_kernel(P, rain, maxgap, hstart, nvalh, secs, vals)
        if ierr != 0:
            ctx.finding("kernel/error_on_sorted_input", "c_var2h returns an error code on a non-decreasing series "
                        "whose first stamp is not later than the origin", {**case, "ierr": ierr})
        else:
            arr = np.array(hv[:max(nvalh, 0)], dtype=np.float64)
            if nvalh >= 1 and arr[-1] == SENT:
                arr[-1] = np.nan
            if hv[max(nvalh, 0)] != SENT:
                ctx.finding("kernel/write_past_hvalues", "c_var2h wrote past hvalues", dict(case))
            if np.any(arr == SENT):
                ctx.finding("kernel/period_not_written", "a period below nvalh-1 was not written",
                            {**case, "period": int(np.argmax(arr == SENT))})
            sources.append(("kernel", hstart, arr))
        if case.get("wrapper"):
            res, rec = call_wrapper(secs, vals, P, rain, maxgap, case.get("unit", "us"), case.get("tz"))
            if res[0] == "err":
                ctx.finding("var2h/error_on_sorted_input", "dutils.var2h raises on a non-decreasing series",
                            {**case, "error": res[1]})
            elif res[1]:
                h0 = res[2][0]
                if res[2][-1] != h0 + (len(res[1]) - 1) * P or res[2][len(res[1]) // 2] != h0 + (len(res[1]) // 2) * P \
                        or not res[3]:
                    ctx.finding("var2h/index_not_periods", "the returned index is not origin + i*period",
                                {**case, "index": res[2][:3], "origin": h0})
                sources.append(("var2h", h0, np.array(res[1], dtype=np.float64)))
        nontrivial = False
        sa = np.array(secs, dtype=I64)
        loose = np.array(ex.loose_bad, dtype=bool)
        for entry, h0, arr in sources:
            n = len(arr)
            if n == 0:
                continue
            marks = [0, n - 1, (2 ** 31 - 1) // P, (2 ** 32 - 1) // P]
            for X in (2 ** 31, 2 ** 32, 0, -2 ** 31):
                marks.append(-((h0 - X) // P))          # first i with h0 + i*P >= X
            idxs = set()
            for t in marks:
                idxs.update(range(t - 5, t + 14))
            idxs.update(rng.randrange(n) for _ in range(120))
            t1 = (2 ** 31 - 1) // P
            if n > t1 + 1:
                idxs.update(rng.randrange(t1, n) for _ in range(120))
            # float pre-screen of every period strictly inside one valid interval, and of every period past the data
            starts = I64(h0) + np.arange(n, dtype=I64) * I64(P)
            ends = starts + I64(P)
            j = np.searchsorted(sa, starts, side="right") - 1
            inside = (j >= 0) & (j < len(sa) - 1)
            jj = np.clip(j, 0, len(sa) - 2)
            inside &= (starts > sa[jj]) & (ends < sa[jj + 1]) & ~loose[jj]
            va = np.array(vals, dtype=np.float64)
            with np.errstate(all="ignore"):
                ln = (sa[jj + 1] - sa[jj]).astype(np.float64)
                if rain:
                    want = va[jj + 1] * P / ln
                else:
                    mid = (starts - sa[jj]).astype(np.float64) + P / 2.0
                    want = va[jj] + (va[jj + 1] - va[jj]) / ln * mid
                bad = inside & ~(np.abs(arr - want) <= 1e-7 * (scale + np.abs(want)))
                past = (ends > sa[-1]) & ~np.isnan(arr)
            for mask in (bad, past):
                hit = np.flatnonzero(mask)
                idxs.update(int(x) for x in hit[:3])
                idxs.update(int(x) for x in hit[-2:])
            stats["long_prescreened"] += int(n)
            reported = set()
            for i in sorted(x for x in idxs if 0 <= x < n):
                h = float(arr[i])
                s0 = h0 + i * P
                verdicts, want_i = period_verdicts(ex, s0, s0 + P, h, scale)
                if i == n - 1:
                    verdicts = [v for v in verdicts if v[0] != "unexpected_missing"]
                if want_i is not None:
                    nontrivial = True
                stats["periods_checked"] += 1
                for suffix, what, extra in verdicts:
                    if suffix in reported:
                        continue
                    reported.add(suffix)
                    ctx.finding(f"{entry}/{suffix}", what,
                                {**case, "kind": "long", "period": i, "start": s0, "end": s0 + P,
                                 "i_times_P": i * P, "returned": None if isnan(h) else h, **extra})
        # model slices around the crossings: the kernel with its origin moved to period k computes the same periods
        if sources and sources[0][0] == "kernel":
            arr = sources[0][2]
            m = 10
            ks = {(2 ** 31 - 1) // P - 3, (2 ** 32 - 1) // P - 3, 0, max(len(arr) - m - 2, 0)}
            for X in (2 ** 31, 2 ** 32, 0, -2 ** 31):
                ks.add(-((hstart - X) // P) - 3)
            for k in sorted(ks):
                if 0 <= k and k + m <= nvalh - 1:
                    reqs.append(f"kernel {P} {rain} {maxgap} {C.f2h(EPS)} {hstart + k * P} {m + 1} {C.ilist(secs)} {C.flist(vals)}")
                    opn = []
                    for q in range(m - 1):
                        cov, must, may, _ = ex.period(hstart + (k + 1 + q) * P, hstart + (k + 2 + q) * P)
                        if cov and may and not must:
                            opn.append(q)
                    pend.append(("kslice", [float(x) for x in arr[k + 1:k + m]],
                                 {**case, "slice_from_period": k, "_wellformed": True, "_open": opn}, scale))
                    stats["long_model_slices"] += 1
        ctx.count(("long", P, rain, maxgap, hstart, nvalh, tuple(secs), tuple(case["vals"])), nontrivial,
                  f"long/{tag}/P={P}/rain={rain}" + ("/wrapper" if case.get("wrapper") else ""),
                  sample={"entry": "c_var2h (long span)", "P": P, "rainfall": rain, "maxgapsec": maxgap, "hstartsec": hstart,
                          "nvalh": nvalh, "varsec": secs[:8], "varvalues": case["vals"][:8]} if nontrivial else None)

    def run_case(case, tag):
        if case.get("kind") == "wrapper":
            run_wrapper_case(case, tag)
        elif case.get("kind") == "long":
            run_long_case(case, tag)
        else:
            run_kernel_case(case, tag)

    # ---------------- replay of a recorded case, then the corpus
    rp = getattr(ctx, "replay", None)
    if rp and isinstance(rp.get("case"), dict) and "secs" in rp["case"]:
        c = dict(rp["case"])
        if "hstart" in c and "nvalh" in c and c.get("kind") != "wrapper":
            c.setdefault("kind", "kernel")
        else:
            c["kind"] = "wrapper"
            c.setdefault("variants", [[c.get("unit", "ns"), c.get("tz")], ["ns", None], ["us", None], ["s", "UTC"]])
            # a failing input found by the several-records history stream is the whole history: earlier calls first
            for p in c.get("prior") or []:
                if isinstance(p, dict) and "secs" in p:
                    run_case({**p, "kind": "wrapper", "gen": "replay/prior"}, "replay/prior")
        run_case(c, "replay")
    for f in sorted((C.ROOT / "corpus" / PID).glob("*.json")):
        c = json.loads(f.read_text())
        c = c["case"] if "case" in c else c
        for p in c.get("prior") or []:          # a history of several records: the earlier calls first
            run_case({**p, "kind": "wrapper", "gen": "corpus/prior"}, "corpus/prior")
        run_case(c, "corpus")

    # ---------------- structured stream
    def pick_variants(secs, k):
        out = [("ns", None)]
        summer = any(b <= secs[0] and secs[-1] < b + 60 * 86400 for b in SUMMER_BASES)
        tzs = FIXED_TZ + (DST_TZ if summer else [])
        units = UNITS[:]
        rng.shuffle(units)
        for u in units[:k]:
            out.append((u, rng.choice(tzs)))
        return out

    nser = ctx.scale(3000, 30000)
    for it in range(nser):
        maxgap = rng.choice([3600, 3600, 3601, 5400, 7200, 86400, 432000])
        big = rng.random() < 0.04
        secs, skind, off = gen_secs(rng, maxgap, n=(rng.randint(100, 400) if big else None),
                                    kind=("sec" if big and rng.random() < 0.5 else None))
        if secs[-1] - secs[0] > 3000 * 1800:
            continue
        vals, vkind = gen_vals(rng, len(secs))
        P = rng.choice([1800, 3600])
        rain = rng.choice([0, 0, 1])
        base = {"secs": secs, "vals": enc_vals(vals), "P": P, "rain": rain, "maxgap": maxgap,
                "gen": f"{skind}/off={off}/{vkind}"}
        first, last = secs[0], secs[-1]
        # (a) kernel with the wrapper's origin and size
        h0 = origin_of(first)
        nv0 = int((last - first) / P)
        small = len(secs) <= 16 and nv0 <= 40 and vkind.startswith(("dyadic", "const", "ramp"))
        run_kernel_case({**base, "kind": "kernel", "hstart": h0, "nvalh": nv0, "rat": small}, skind)
        # (b) kernel with another origin / size
        hk = rng.choice(["first", "stamp", "arbitrary", "arbitrary", "atlast", "afterlast", "halfhour"])
        if hk == "first":
            hs = first
        elif hk == "stamp":
            hs = rng.choice(secs)
        elif hk == "arbitrary":
            hs = first + rng.randint(0, max(last - first, 1))
        elif hk == "atlast":
            hs = last
        elif hk == "afterlast":
            hs = last + rng.randint(1, 4000)
        else:
            hs = (first // 1800 + 1) * 1800
        nfit = max((last - hs) // P, 0)
        nvk = rng.choice([0, 1, 2, nfit, nfit + 1, nfit + 1, nfit + 2, nfit + 4, max(nfit - 1, 0)])
        run_kernel_case({**base, "kind": "kernel", "hstart": hs, "nvalh": int(nvk), "rat": small and rng.random() < 0.5,
                         "origin": hk}, skind + "/" + hk)
        # (c) the wrapper on the same series, several index units / time zones
        if it % 2 == 0 or ctx.thorough:
            run_wrapper_case({**base, "kind": "wrapper", "variants": pick_variants(secs, rng.choice([1, 2, 3]))}, skind)

    # regular series of the kind the pinned tests use (5 min / 10 min / 30 min / hourly), every offset class
    for freq in (300, 600, 1800, 3600):
        for off in (0, 1, 1799, 1800, 1801):
            for P in (1800, 3600):
                n = rng.randint(8, 40) * (3600 // freq if freq < 3600 else 1) + rng.randint(0, 5)
                first = rng.choice(BASES) + off
                secs = [first + i * freq for i in range(n)]
                vals = [rng.uniform(0, 10) for _ in range(n)]
                rain = rng.choice([0, 1])
                base = {"secs": secs, "vals": enc_vals(vals), "P": P, "rain": rain, "maxgap": 432000,
                        "gen": f"regular{freq}/off={off}"}
                run_kernel_case({**base, "kind": "kernel", "hstart": origin_of(first), "nvalh": int((secs[-1] - first) / P)},
                                f"regular{freq}")
                run_wrapper_case({**base, "kind": "wrapper", "variants": pick_variants(secs, 2)}, f"regular{freq}")

    # series whose wall-clock stamps span a daylight-saving "spring forward" (the local hour 02:00-03:00 does not
    # exist that day; wall-clock stamps stay non-decreasing): the result must be that of the naive wall-clock index
    import calendar as _cal
    SPRING = [("Australia/Sydney", (2024, 10, 6)), ("America/New_York", (2024, 3, 10)), ("Europe/Paris", (2024, 3, 31)),
              ("Australia/Sydney", (2021, 10, 3)), ("America/New_York", (2022, 3, 13))]
    for it in range(ctx.scale(60, 600)):
        tzname, (yy, mm, dd) = rng.choice(SPRING)
        midnight = _cal.timegm((yy, mm, dd, 0, 0, 0))
        t = midnight - rng.randint(1, 6) * 3600 + rng.randint(0, 3599)
        end = midnight + rng.randint(4, 10) * 3600
        secs = []
        while t < end:
            if not (midnight + 2 * 3600 <= t < midnight + 3 * 3600):
                secs.append(t)
            t += rng.choice([300, 600, 900, 1800, rng.randint(1, 4000)])
        if len(secs) < 3:
            continue
        vals = [rng.uniform(0, 10) for _ in secs]
        P, rain = rng.choice([1800, 3600]), rng.choice([0, 1])
        base = {"secs": secs, "vals": enc_vals(vals), "P": P, "rain": rain, "maxgap": 432000, "gen": "dst_spring_forward/" + tzname}
        run_wrapper_case({**base, "kind": "wrapper", "variants": [("ns", None), (rng.choice(UNITS), tzname), ("us", "UTC")]},
                         "dst_spring_forward")

    # ---------------- glue: defaults, positional arguments, numpy scalars, value dtypes
    for it in range(ctx.scale(150, 1500)):
        style = rng.choice(["defaults", "positional", "numpy_scalars", "int_flag", "int_values", "float32_values",
                            "float_maxgap", "float_maxgap"])
        maxgap = 432000 if style == "defaults" else rng.choice([3600, 7200, 86400, 432000])
        if style == "float_maxgap":
            maxgap = rng.choice([3600, 3601, 5400, 7200, 86400]) + rng.choice([0.5, 0.9, 0.25, 0.999, 0.0625])
        secs, skind, off = gen_secs(rng, int(maxgap), kind=("gapedge" if style == "float_maxgap" and rng.random() < 0.7 else None))
        if secs[-1] - secs[0] > 3000 * 1800:
            continue
        vals, vkind = gen_vals(rng, len(secs))
        if style == "int_values":
            vals = [float(rng.randint(-2, 30)) for _ in secs]
        elif style == "float32_values":
            vals = [float(np.float32(v)) for v in vals]
        P = 3600 if style == "defaults" else rng.choice([1800, 3600])
        rain = 0 if style == "defaults" else rng.choice([0, 1])
        run_wrapper_case({"secs": secs, "vals": enc_vals(vals), "P": P, "rain": rain, "maxgap": maxgap, "style": style,
                          "gen": f"glue/{style}/{skind}", "kind": "wrapper",
                          "variants": [(rng.choice(UNITS), rng.choice(FIXED_TZ))]}, "glue/" + style)

    # ---------------- histories on ONE Series object / ONE set of kernel buffers: call -> edit -> call again
    import copy as _copy
    import pickle as _pickle

    def edit_values(vals):
        """equal-size in-place edit of some values (stays inside the quantifier: finite or NaN)"""
        n = len(vals)
        ks = sorted(set(rng.randrange(n) for _ in range(rng.randint(1, max(1, n // 3)))))
        return [(k, rng.choice([float("nan"), -1.0, 0.0, rng.uniform(0, 50), vals[k] + 1.0 if not isnan(vals[k]) else 2.0]))
                for k in ks]

    def edit_secs(secs, maxgap):
        """equal-size replacement of the stamps: shift, re-space, or move one stamp (kept non-decreasing)"""
        how = rng.choice(["shift", "shift_hour", "respace", "move_one"])
        if how == "shift":
            d = rng.choice([1, 17, 600, 1799, 1800, 1801, -1, -600])
            return [t + d for t in secs]
        if how == "shift_hour":
            d = 3600 * rng.randint(1, 30)
            return [t + d for t in secs]
        if how == "respace":
            new, _, _ = gen_secs(rng, maxgap, n=len(secs))
            return new[:len(secs)] if len(new) >= len(secs) else secs
        k = rng.randrange(len(secs))
        lo = secs[k - 1] if k > 0 else secs[0] - 3000
        hi = secs[k + 1] if k + 1 < len(secs) else secs[-1] + 3000
        out = secs[:]
        out[k] = rng.randint(lo, hi)
        return out

    for it in range(ctx.scale(250, 2500)):
        maxgap = rng.choice([3600, 7200, 86400, 432000])
        secs, skind, off = gen_secs(rng, maxgap, n=rng.choice([3, 4, 6, 9, 15, 30]))
        if secs[-1] - secs[0] > 2000 * 1800:
            continue
        vals, vkind = gen_vals(rng, len(secs))
        P, rain = rng.choice([1800, 3600]), rng.choice([0, 0, 1])
        unit, tz = rng.choice(UNITS), rng.choice(FIXED_TZ)
        se = pd.Series(np.array(vals, dtype=np.float64), index=make_index(secs, unit, tz))
        trail = []
        for step in range(rng.randint(2, 4)):
            if step > 0:
                act = rng.choice(["same", "edit_result", "edit_result", "edit_input", "edit_input", "reassign_index",
                                  "other_period", "other_args", "copy", "deepcopy", "pickle", "reassign_values"])
                trail.append(act)
                if act == "edit_result" and live["r"] is not None and len(live["r"]) > 0:
                    r = live["r"]
                    try:
                        r.iloc[:] = rng.choice([0.0, -5.0, 1e6])
                    except Exception:
                        pass
                    try:
                        arr = r.values
                        arr.flags.writeable = True
                        arr[:] = 7777.0
                    except Exception:
                        pass
                    try:
                        r.index.values.flags.writeable = True
                        r.index.values[:] = r.index.values[::-1]
                    except Exception:
                        pass
                elif act == "edit_input":
                    for k, v in edit_values(vals):
                        se.iloc[k] = v
                        vals[k] = v
                elif act == "reassign_values":
                    nv, _ = gen_vals(rng, len(secs))
                    se[:] = np.array(nv, dtype=np.float64)
                    vals = list(nv)
                elif act == "reassign_index":
                    secs = edit_secs(secs, maxgap)
                    if rng.random() < 0.5:
                        unit, tz = rng.choice(UNITS), rng.choice(FIXED_TZ)
                    se.index = make_index(secs, unit, tz)
                elif act == "other_period":
                    P = 5400 - P
                elif act == "other_args":
                    rain = 1 - rain if rng.random() < 0.6 else rain
                    maxgap = rng.choice([3600, 7200, 86400, 432000])
                elif act == "copy":
                    se = se.copy()
                elif act == "deepcopy":
                    se = _copy.deepcopy(se)
                elif act == "pickle":
                    se = _pickle.loads(_pickle.dumps(se))
            if secs[-1] - secs[0] > 2000 * 1800:
                break
            run_wrapper_case({"secs": list(secs), "vals": enc_vals(vals), "P": P, "rain": rain, "maxgap": maxgap,
                              "kind": "wrapper", "variants": [(unit, tz)],
                              "gen": f"history/{skind}/" + ">".join(trail)}, "history", se=se)
            stats["history_steps"] += 1

    for it in range(ctx.scale(250, 2500)):
        maxgap = rng.choice([3600, 7200, 86400, 432000])
        secs, skind, off = gen_secs(rng, maxgap, n=rng.choice([2, 3, 5, 8, 14, 30]))
        if secs[-1] - secs[0] > 2000 * 1800:
            continue
        n = len(secs)
        vals, vkind = gen_vals(rng, n)
        P, rain = rng.choice([1800, 3600]), rng.choice([0, 0, 1])
        cap = (secs[-1] - secs[0]) // 1800 + 80
        bufs = {"ps": np.empty(n + 1, dtype=np.int64), "pv": np.empty(n + 1, dtype=np.float64),
                "hv": np.full(cap + 2, 4321.0, dtype=np.float64)}
        bufs["ps"][:n], bufs["ps"][n] = secs, INT64_MAX
        bufs["pv"][:n], bufs["pv"][n] = vals, np.nan
        hs = origin_of(secs[0])
        nv = int((secs[-1] - secs[0]) / P)
        trail = []
        for step in range(rng.randint(2, 4)):
            if step > 0:
                act = rng.choice(["same", "edit_values", "edit_values", "edit_secs", "other_period", "other_origin",
                                  "other_size", "other_args", "scribble_output"])
                trail.append(act)
                if act == "edit_values":
                    for k, v in edit_values(vals):
                        bufs["pv"][k] = v
                        vals[k] = v
                elif act == "edit_secs":
                    secs = edit_secs(secs, maxgap)
                    bufs["ps"][:n] = secs
                    if secs[0] > hs or rng.random() < 0.5:
                        hs = origin_of(secs[0])
                elif act == "other_period":
                    P = 5400 - P
                elif act == "other_origin":
                    hs = rng.choice([secs[0], rng.choice(secs), secs[0] + rng.randint(0, max(secs[-1] - secs[0], 1)),
                                     origin_of(secs[0])])
                elif act == "other_size":
                    nfit = max((secs[-1] - hs) // P, 0)
                    nv = int(rng.choice([0, 1, 2, nfit, nfit + 1, nfit + 3, max(nfit - 1, 0)]))
                elif act == "other_args":
                    rain = 1 - rain if rng.random() < 0.6 else rain
                    maxgap = rng.choice([3600, 7200, 86400, 432000])
                elif act == "scribble_output":
                    bufs["hv"][:] = rng.choice([0.0, -3.0, 99.0])
            nv = min(nv, cap)
            if secs[0] > hs:
                hs = origin_of(secs[0])
            run_kernel_case({"secs": list(secs), "vals": enc_vals(vals), "P": P, "rain": rain, "maxgap": maxgap,
                             "kind": "kernel", "hstart": int(hs), "nvalh": int(nv),
                             "gen": f"history/{skind}/" + ">".join(trail)}, "history", bufs=bufs)
            stats["history_steps"] += 1

    # ---------------- histories over SEVERAL records in one process: call(A) -> call(B) -> call(A or C), where B is a
    # *sibling* of A: another Series object that agrees with A on some of the quantities the wrapper derives (origin,
    # number of periods, first / last stamp, the stamps, the values, the length, the arguments) and differs in the
    # others. Anything the code keeps between calls under a key that does not capture the whole input (an output index
    # shared per (origin, size), converted stamps kept per index, a result kept per object id ...) answers B with a
    # piece of A. Every answer is judged against its own record (periods read off the returned index).
    def stamps_between(first, span, n):
        out = [first]
        for _ in range(max(n - 2, 0)):
            t = first + rng.randrange(0, span + 1)
            if rng.random() < 0.3:
                t = min(max((t // 1800) * 1800, first), first + span)       # on a period boundary
            out.append(t)
        out.append(first + span)
        return sorted(out)

    SIB_MODES = ["origin_size/other_period", "origin_size/other_period", "origin_size/same_period", "same_stamps/other_values",
                 "same_values/other_stamps", "same_ends/other_interior", "same_record/other_args",
                 "same_wallclock/other_storage", "same_length/other_record"]

    def sibling(rec, mode):
        secs, vals = rec["secs"], dec_vals(rec["vals"])
        P, rain, maxgap = rec["P"], rec["rain"], rec["maxgap"]
        unit, tz = rec["variants"][0]
        first, last = secs[0], secs[-1]
        nv = int((last - first) / P)
        hour0 = first // HOUR * HOUR
        if mode.startswith("origin_size"):
            P2 = 5400 - P if mode.endswith("other_period") else P
            f2 = hour0 + rng.choice([first - hour0, first - hour0, 0, 1, 1799, 1800, 3599, rng.randrange(HOUR)])
            span2 = max(nv * P2 + rng.choice([0, 1, P2 - 1, rng.randrange(P2)]), 1)
            secs2 = stamps_between(f2, span2, rng.choice([2, 3, 4, 6, 9, 15]))
            vals2, _ = gen_vals(rng, len(secs2))
            P = P2
            secs, vals = secs2, vals2
        elif mode == "same_stamps/other_values":
            vals, _ = gen_vals(rng, len(secs))
        elif mode == "same_values/other_stamps":
            how = rng.choice(["hours", "within_hour", "respace"])
            if how == "hours":
                d = HOUR * rng.randint(1, 30)
                secs = [t + d for t in secs]
            elif how == "within_hour":
                d = rng.choice([1, -1, 600, 1799, 1800, 1801])
                secs = [t + d for t in secs]
            else:
                secs = stamps_between(first, max(last - first, 1), len(secs))
        elif mode == "same_ends/other_interior":
            secs = stamps_between(first, max(last - first, 1), rng.choice([2, 3, 5, 8, len(secs)]))
            vals, _ = gen_vals(rng, len(secs))
        elif mode == "same_record/other_args":
            what = rng.choice(["rain", "maxgap", "period"])
            if what == "rain":
                rain = 1 - rain
            elif what == "maxgap":
                maxgap = rng.choice([g for g in (3600, 7200, 86400, 432000) if g != maxgap])
            else:
                P = 5400 - P
        elif mode == "same_wallclock/other_storage":
            unit = rng.choice([u for u in UNITS if u != unit])
            tz = rng.choice(FIXED_TZ)
        else:   # same_length/other_record
            n = len(secs)
            secs, _, _ = gen_secs(rng, maxgap, n=n)
            secs = secs[:n] if rng.random() < 0.7 else secs
            vals, _ = gen_vals(rng, len(secs))
        return {"secs": list(secs), "vals": enc_vals(vals), "P": P, "rain": rain, "maxgap": maxgap, "kind": "wrapper",
                "variants": [(unit, tz)]}

    def brief(rec):
        return {k: rec[k] for k in ("secs", "vals", "P", "rain", "maxgap", "variants")}

    def run_sibling_history(recs, tag):
        """recs = the records in call order (each judged on its own); the earlier calls are kept in the case
        (`prior`) so that a failing input is the whole history"""
        for k, rec in enumerate(recs):
            run_wrapper_case({**rec, "prior": [brief(r) for r in recs[:k]]}, tag)
            stats["history_steps"] += 1

    for it in range(ctx.scale(220, 2200)):
        maxgap = rng.choice([3600, 86400, 432000, 432000])
        secs, skind, off = gen_secs(rng, maxgap, n=rng.choice([2, 3, 4, 6, 9, 15]))
        if secs[-1] - secs[0] > 400 * 1800:
            continue
        vals, vkind = gen_vals(rng, len(secs))
        recA = {"secs": secs, "vals": enc_vals(vals), "P": rng.choice([1800, 3600]), "rain": rng.choice([0, 0, 1]),
                "maxgap": maxgap, "kind": "wrapper", "variants": [(rng.choice(UNITS), rng.choice(FIXED_TZ))],
                "gen": f"siblings/{skind}/A"}
        recs, trail = [recA], []
        for step in range(rng.randint(1, 3)):
            if step > 0 and rng.random() < 0.3:
                trail.append("again:" + str(0))
                recs.append({**recs[0], "gen": f"siblings/{skind}/" + ">".join(trail)})
                continue
            mode = rng.choice(SIB_MODES)
            trail.append(mode)
            nxt = sibling(recs[-1], mode)
            if nxt["secs"][-1] - nxt["secs"][0] > 400 * 1800:
                break
            recs.append({**nxt, "gen": f"siblings/{skind}/" + ">".join(trail)})
        run_sibling_history(recs, "siblings")
        # the same records through the kernel, one call after the other (fresh arrays, the wrapper's origin and size)
        if it % 2 == 0:
            for rec in recs:
                f0, l0 = rec["secs"][0], rec["secs"][-1]
                run_kernel_case({"secs": rec["secs"], "vals": rec["vals"], "P": rec["P"], "rain": rec["rain"],
                                 "maxgap": rec["maxgap"], "kind": "kernel", "hstart": origin_of(f0),
                                 "nvalh": int((l0 - f0) / rec["P"]), "gen": rec["gen"]}, "siblings")

    # ---------------- the display flag: progress is printed, the answer must be the same (C stdout silenced meanwhile)
    for it in range(ctx.scale(60, 400)):
        maxgap = rng.choice([3600, 86400, 432000])
        secs, skind, off = gen_secs(rng, maxgap)
        if secs[-1] - secs[0] > 3000 * 1800:
            continue
        vals, vkind = gen_vals(rng, len(secs))
        P, rain = rng.choice([1800, 3600]), rng.choice([0, 1])
        base = {"secs": secs, "vals": enc_vals(vals), "P": P, "rain": rain, "maxgap": maxgap, "gen": f"display/{skind}/{vkind}"}
        run_kernel_case({**base, "kind": "kernel", "hstart": origin_of(secs[0]), "nvalh": int((secs[-1] - secs[0]) / P),
                         "display": rng.choice([1, 1, 2, -1])}, "display")
        if it % 2 == 0:
            run_wrapper_case({**base, "kind": "wrapper", "style": "display", "variants": [(rng.choice(UNITS), None)]}, "display")
        stats["display_cases"] += 1

    # ---------------- the Cython entry point c_hydrodiy_data.var2h called directly on the caller's own arrays: nvalh is
    # the length of hvalues, which holds stale values; single calls, then histories (edit / scribble / call / rejected call)
    real = proxy._real
    STALE = [SENT, 4321.0, -3.0, float("nan"), 1e300]

    def pyx_call(P, rain, maxgap, hstart, ps, pv, hv, display=0):
        """-> 0 | guard name | 'lengthMismatch' | 'raise:<exception type>'"""
        try:
            def go():
                return real.var2h(maxgap, hstart, P, rain, display, ps, pv, hv)
            ierr = quiet_c(go) if display == 1 else go()
        except AssertionError:
            return "lengthMismatch"
        except Exception as exc:
            return "raise:" + type(exc).__name__
        return 0 if ierr == 0 else guards.get(int(ierr), f"code{ierr}")

    def judge_pyx_call(case, pre, post, code, tag):
        """one direct call: oracle on the values written (inside the quantifier only) + request to the model's pyxVar2h;
        -> indices of the periods the property leaves open"""
        secs, vals = case["secs"], dec_vals(case["vals"])
        P, rain, maxgap, hstart = case["P"], case["rain"], case["maxgap"], case["hstart"]
        nvalh = len(pre)
        nvals = case.get("nvals", len(secs))
        scale = max([abs(v) for v in vals if not isnan(v)] + [1.0])
        wellformed = (rain in (0, 1) and P in (1800, 3600) and len(secs) >= 2 and maxgap >= 3600 and nvals == len(secs)
                      and all(a <= b for a, b in zip(secs, secs[1:])) and secs[0] <= hstart)
        open_idx = []
        nontrivial = False
        stats["pyx_calls"] += 1
        if wellformed and code != 0:
            ctx.finding("kernel/error_on_sorted_input", "c_hydrodiy_data.var2h returns an error code / raises on a "
                        "non-decreasing series whose first stamp is not later than the origin", {**case, "guard": str(code)})
        elif wellformed and nvalh >= 1:
            outs = [float(x) for x in post[:nvalh - 1]]
            last = float("nan") if same_floats(post[-1:], pre[-1:]) else float(post[-1])
            ex = Exact(secs, vals, P, rain, maxgap)
            nontrivial = check_periods(ctx, "kernel", {**case, "kind": "kernel", "nvalh": nvalh}, ex, hstart, outs + [last], tag,
                                       final=nvalh - 1, open_out=open_idx)
            stats["periods_checked"] += nvalh
            stats["periods_nonmissing"] += sum(1 for x in outs if not isnan(x))
        if not str(code).startswith("raise:"):
            vv = vals[:nvals] if nvals <= len(vals) else vals + [1.0] * (nvals - len(vals))
            reqs.append(f"pyx {P} {rain} {maxgap} {C.f2h(EPS)} {hstart} {C.ilist(secs)} {C.flist(vv)} {C.flist(pre)}")
            pend.append(("pyx", (code, [float(x) for x in post]), {**case, "_wellformed": wellformed, "_open": open_idx,
                                                                    "_stale": [float(x) for x in pre[-1:]]}, scale))
        ctx.count(("pyx", P, rain, maxgap, hstart, nvalh, tuple(secs), tuple(case["vals"])), nontrivial,
                  f"pyx/{tag}/P={P}/rain={rain}" + ("" if code == 0 else "/" + str(code)))
        return open_idx, wellformed

    for it in range(ctx.scale(300, 3000)):
        maxgap = rng.choice([3600, 7200, 86400, 432000])
        secs, skind, off = gen_secs(rng, maxgap, n=rng.choice([2, 3, 4, 6, 9, 15, 30]))
        if secs[-1] - secs[0] > 400 * 1800:
            continue
        n = len(secs)
        vals, vkind = gen_vals(rng, n)
        P, rain = rng.choice([1800, 3600]), rng.choice([0, 0, 1])
        hstart = rng.choice([origin_of(secs[0]), origin_of(secs[0]), secs[0], rng.choice(secs),
                             secs[0] + rng.randint(0, max(secs[-1] - secs[0], 1))])
        nvalh = max(int((secs[-1] - hstart) // P) + rng.choice([0, 1, 1, 2]), 0)
        ps = np.empty(n + 1, dtype=np.int64)
        ps[:n], ps[n] = secs, INT64_MAX
        pv = np.empty(n + 1, dtype=np.float64)
        pv[:n], pv[n] = vals, np.nan
        hv = np.array([rng.choice(STALE) for _ in range(nvalh)], dtype=np.float64)
        pre = [float(x) for x in hv]
        case = {"secs": secs, "vals": enc_vals(vals), "P": P, "rain": rain, "maxgap": maxgap, "hstart": int(hstart),
                "gen": f"pyx/{skind}/{vkind}"}
        mode = rng.choice(["plain"] * 8 + ["mismatch", "dtype", "strided", "display"])
        if mode == "plain" or mode == "display":
            code = pyx_call(P, rain, maxgap, hstart, ps[:n], pv[:n], hv, display=1 if mode == "display" else 0)
            inputs_kept(ps, pv, secs, vals, "pyx", case)
            judge_pyx_call(case, pre, hv, code, "direct")
        elif mode == "mismatch":
            m = rng.choice([n - 1, n + 1, 0]) if n > 1 else n + 1
            pv2 = np.ones(m, dtype=np.float64)
            pv2[:min(m, n)] = pv[:min(m, n)]
            code = pyx_call(P, rain, maxgap, hstart, ps[:n], pv2, hv)
            judge_pyx_call({**case, "nvals": m}, pre, hv, code, "mismatch")
        else:
            # arrays the typed signature does not take (int32 stamps, float32 values, strided output): rejected by
            # Cython before the kernel is reached - whatever is raised, nothing may have been written
            if mode == "dtype":
                a1, a2, a3 = (ps[:n].astype(np.int32), pv[:n], hv) if rng.random() < 0.5 else (ps[:n], pv[:n].astype(np.float32), hv)
            else:
                big = np.repeat(hv, 2)
                a1, a2, a3 = ps[:n], pv[:n], big[::2]
            code = pyx_call(P, rain, maxgap, hstart, a1, a2, a3)
            stats["pyx_rejections"] += 1
            if str(code).startswith("raise:") and not same_floats(hv, pre):
                ctx.disagree("C14/pyx: a call rejected at the Cython boundary wrote into hvalues",
                             {"gen": case["gen"], "mode": mode, "raised": code})

    for it in range(ctx.scale(150, 1500)):
        maxgap = rng.choice([3600, 86400, 432000])
        secs, skind, off = gen_secs(rng, maxgap, n=rng.choice([2, 3, 5, 8, 14]))
        if secs[-1] - secs[0] > 200 * 1800:
            continue
        n = len(secs)
        vals, vkind = gen_vals(rng, n)
        P, rain = rng.choice([1800, 3600]), rng.choice([0, 0, 1])
        hstart = origin_of(secs[0])
        nvalh = max(int((secs[-1] - secs[0]) / P), 1)
        ps = np.empty(n + 1, dtype=np.int64)
        ps[:n], ps[n] = secs, INT64_MAX
        pv = np.empty(n + 1, dtype=np.float64)
        pv[:n], pv[n] = vals, np.nan
        hv = np.array([rng.choice(STALE) for _ in range(nvalh)], dtype=np.float64)
        init = (list(secs), list(vals), [float(x) for x in hv])
        ops, codes, all_open, all_wellformed = [], [], set(), True
        nops = rng.randint(2, 6)
        for k in range(nops + 1):
            act = "C" if k == nops else rng.choice(["C", "C", "S", "V", "V", "X"])
            if act == "S":
                j = rng.randrange(n)
                lo = secs[j - 1] if j > 0 else secs[0] - 3000
                hi = secs[j + 1] if j + 1 < n else secs[-1] + 3000
                if lo > hi:
                    # an earlier edit of this history put a stamp out of order: the neighbours no longer bracket an interval
                    lo, hi = hi, lo
                t = rng.randint(lo, hi) if rng.random() < 0.9 else rng.choice([lo - rng.randint(1, 4000), hi + rng.randint(1, 4000)])
                secs[j] = t
                ps[j] = t
                ops.append(f"S:{j}:{t}")
                codes.append(0)
            elif act == "V":
                j = rng.randrange(n)
                v = rng.choice([float("nan"), -1.0, 0.0, rng.uniform(0, 50)])
                vals[j] = v
                pv[j] = v
                ops.append(f"V:{j}:{C.f2h(v)}")
                codes.append(0)
            elif act == "X":
                v = rng.choice(STALE)
                hv[:] = v
                ops.append(f"X:{C.f2h(v)}")
                codes.append(0)
            else:
                r = rng.random()
                if r < 0.5:
                    hstart = origin_of(secs[0])
                elif r < 0.9:
                    hstart = rng.choice([secs[0], rng.choice(secs), secs[0] + rng.randint(0, max(secs[-1] - secs[0], 1))])
                else:
                    hstart = secs[0] - rng.randint(1, 5000)          # rejected: origin before the first stamp
                if rng.random() < 0.3:
                    P = 5400 - P
                Pc = P if rng.random() < 0.95 else 900                  # rejected: period
                rc = rain if rng.random() < 0.95 else 2                 # rejected: rainfall flag
                if rng.random() < 0.3:
                    rain = 1 - rain
                    maxgap = rng.choice([3600, 86400, 432000])
                pre = [float(x) for x in hv]
                code = pyx_call(Pc, rc, maxgap, int(hstart), ps[:n], pv[:n], hv)
                inputs_kept(ps, pv, secs, vals, "pyx-history", {"gen": "pyxhist"})
                case = {"secs": list(secs), "vals": enc_vals(vals), "P": Pc, "rain": rc, "maxgap": maxgap, "hstart": int(hstart),
                        "gen": f"pyxhist/{skind}/" + ">".join(o[0] for o in ops)}
                opn, wf = judge_pyx_call(case, pre, hv, code, "history")
                all_open.update(opn)
                all_wellformed = all_wellformed and wf
                ops.append(f"C:{Pc}:{rc}:{maxgap}:{C.f2h(EPS)}:{int(hstart)}")
                codes.append(code)
        reqs.append(f"hist {C.ilist(init[0])} {C.flist(init[1])} {C.flist(init[2])} " + ";".join(ops))
        pend.append(("hist", (codes, [float(x) for x in hv]),
                     {"gen": f"pyxhist/{skind}", "_wellformed": all_wellformed, "_open": sorted(all_open), "_stale": STALE},
                     max([abs(v) for v in vals if not isnan(v)] + [1.0])))
        stats["pyx_histories"] += 1
        stats["history_steps"] += len(ops)

    # ---------------- long spans: i*P and hstartsec + i*P beyond 32 bits
    YEAR = 31557600
    long_cfgs = [("epoch70", 0, (69, 75), 3600), ("epoch70", 0, (69, 75), 1800), ("y2040", 2208988800, (69, 75), 3600),
                 ("y1900", -2208988800, (69, 75), 3600), ("y1900x140", -2208988800, (137, 142), 3600),
                 ("y2100short", 4102444800, (0, 0), rng.choice([1800, 3600])),
                 ("y1890short", -2524521600, (0, 0), rng.choice([1800, 3600])),
                 ("y2030x12", 1893456000, (9, 14), 1800)]
    for rep in range(ctx.scale(1, 4)):
        for name, base, (y0, y1), P in long_cfgs:
            first = base + rng.randrange(0, 30) * 86400 + rng.choice([0, 0, 1, 1799, 1800, rng.randrange(3600)])
            span = rng.randint(y0 * YEAR, y1 * YEAR + 86400) if y1 else rng.randint(3, 40) * 3600 + rng.randrange(3600)
            n = rng.choice([2, 3, 4, 6, 12, 20])
            while span / (n - 1) > 0.8 * (2 ** 31 - 1):
                n += 1
            cuts = sorted(rng.randrange(1, span) for _ in range(n - 2))
            secs = [first] + [first + c for c in cuts] + [first + span]
            gaps = [b - a for a, b in zip(secs, secs[1:])]
            if max(gaps) > 2 ** 31 - 1:
                secs = [first + (span * k) // (n - 1) for k in range(n)]
                gaps = [b - a for a, b in zip(secs, secs[1:])]
            maxgap = max(max(gaps), 3600)
            if rng.random() < 0.25 and len(gaps) > 2:
                maxgap = max(sorted(gaps)[-2], 3600)        # the longest interval is invalid
            vals = [rng.uniform(0.5, 100) for _ in secs]
            if rng.random() < 0.2 and n > 3:
                vals[rng.randrange(1, n - 1)] = float("nan")
            rain = rng.choice([0, 0, 1])
            hs = rng.choice([origin_of(first), origin_of(first), first])
            nv = int((secs[-1] - first) / P) + rng.choice([0, 0, 1])
            wr = name in ("epoch70", "y2040", "y1900", "y2100short", "y1890short", "y2030x12") and (rep == 0 or rng.random() < 0.5)
            unit = rng.choice(["s", "ms", "us"] + (["ns"] if -9e9 < secs[0] and secs[-1] < 9.2e9 else []))
            run_long_case({"kind": "long", "secs": secs, "vals": enc_vals(vals), "P": P, "rain": rain, "maxgap": int(maxgap),
                           "hstart": int(hs), "nvalh": nv, "wrapper": wr, "unit": unit,
                           "tz": rng.choice([None, None, "UTC", "+10:00"]), "gen": "long/" + name}, name)

    # ---------------- malformed stream
    for it in range(ctx.scale(300, 3000)):
        maxgap = rng.choice([3600, 86400])
        secs, skind, off = gen_secs(rng, maxgap)
        vals, vkind = gen_vals(rng, len(secs))
        P, rain = rng.choice([1800, 3600]), rng.choice([0, 1])
        mk = rng.choice(["decreasing", "decreasing", "rain", "period", "before", "short", "maxgap"])
        hs, nv = origin_of(secs[0]), int((secs[-1] - secs[0]) / P)
        wrapper_too = False
        if mk == "decreasing":
            k = rng.randrange(1, len(secs))
            secs = secs[:]
            secs[k] = secs[k - 1] - rng.randint(1, 5000)
            if secs[0] > hs:
                continue
        elif mk == "rain":
            rain = rng.choice([2, -1, 7])
        elif mk == "period":
            P = rng.choice([900, 0 + 1801, 7200, 60])
            wrapper_too = True
        elif mk == "before":
            hs = secs[0] - rng.randint(1, 5000)
        elif mk == "short":
            secs, vals = secs[:1], vals[:1]
            nv = rng.choice([0, 1, 3])
        else:
            wrapper_too = True
        base = {"secs": secs, "vals": enc_vals(vals), "P": P, "rain": rain, "maxgap": maxgap, "gen": "malformed/" + mk}
        if mk != "maxgap":
            run_kernel_case({**base, "kind": "kernel", "hstart": hs, "nvalh": nv}, "malformed/" + mk)
        if wrapper_too or (mk == "decreasing" and secs[-1] >= secs[0] and rng.random() < 0.5):
            mg = rng.choice([0, 3599, 1800]) if mk == "maxgap" else maxgap
            run_wrapper_case({**base, "maxgap": mg, "kind": "wrapper", "variants": [("ns", None)]}, "malformed/" + mk)

    # ---------------- correspondence
    def final_cell(buf, case):
        """hvalues[nvalh-1] is the final period, which the property lets be missing: a stale value left there (what the
        model says) and a NaN written there are the same answer; a number written there is compared (and judged by the oracle)"""
        if buf and (isnan(buf[-1]) or any(same_floats([buf[-1]], [x]) for x in case.get("_stale", ()))):
            return list(buf[:-1]) + [float("nan")]
        return list(buf)

    replies = lean.ask(reqs)
    for req, rep, (kind, impl, case, scale) in zip(reqs, replies, pend):
        ok = False
        if kind in ("kernel", "kernelq"):
            if isinstance(impl, str):
                ok = rep == impl
            elif rep.startswith("ok "):
                toks = C.parse_list(rep[3:])
                nlast = 1 if case["nvalh"] >= 1 else 0     # hvalues[nvalh-1]: never written by the model
                if kind == "kernel":
                    mv = [C.h2f(t) for t in toks] + [float("nan")] * nlast
                    ok, bit = compare_lists(impl, mv, scale, case.get("_open", ()))
                    if ok:
                        stats["kernel_bit_equal" if bit else "kernel_within_tol"] += 1
                else:
                    toks = toks + ["nan"] * nlast
                    opn = set(case.get("_open", ()))
                    ok = len(toks) == len(impl) and all(
                        k in opn or ((t == "nan") == isnan(a) and (
                            t == "nan" or abs(Fraction(a) - Fraction(t)) <= 1e-12 * len(case["secs"]) * (scale + abs(a))))
                        for k, (t, a) in enumerate(zip(toks, impl)))
        elif kind == "kslice":
            if rep.startswith("ok "):
                mv = [C.h2f(t) for t in C.parse_list(rep[3:])]
                ok, bit = compare_lists(impl, mv[1:], scale, case.get("_open", ()))
        elif kind == "kmiss":
            if isinstance(impl, str):
                ok = rep == impl
            elif rep.startswith("ok "):
                pats = [[t == "1" for t in C.parse_list(x)] for x in rep.split(" ")[1:]]
                opn = set(case.get("_open", ()))
                ok = len(pats) == 3 and all(len(pt) == len(impl) and all(k in opn or a == b for k, (a, b) in enumerate(zip(pt, impl)))
                                            for pt in pats)
                if ok:
                    stats["missing_patterns_compared"] += 1
        elif kind == "pyx":
            code, post = impl
            parts = rep.split(" ")
            if code == 0:
                ok = parts[0] == "ok" and len(parts) == 2
            else:
                ok = parts[0] == "err" and len(parts) == 3 and parts[1] == code
            if ok:
                ok, bit = compare_lists(final_cell(post, case), final_cell([C.h2f(t) for t in C.parse_list(parts[-1])], case),
                                        scale, case.get("_open", ()))
        elif kind == "hist":
            codes, post = impl
            parts = rep.split(" ")
            if len(parts) == 2 and C.parse_list(parts[1]) == [str(x) for x in codes]:
                ok, bit = compare_lists(final_cell(post, case), final_cell([C.h2f(t) for t in C.parse_list(parts[0])], case),
                                        scale, case.get("_open", ()))
        elif kind == "wrapperidx":
            parts = rep.split(" ")
            msecs = ([int(t) for t in C.parse_list(parts[-1])] if len(parts) == 3 else
                     [int(t) for t in C.parse_list(parts[4])] if len(parts) == 5 else None)
            secs_ok = case.get("_varsec") is None or msecs == case["_varsec"]
            if isinstance(impl, str):
                ok = secs_ok and " ".join(parts[:2]) == impl
            elif parts[0] == "ok" and len(parts) == 5:
                mv = [C.h2f(t) for t in C.parse_list(parts[2])]
                ok, bit = compare_lists(impl[1], mv, scale, case.get("_open", ()))
                # an empty result has no origin: origin compared only when there is at least one period
                ok = ok and secs_ok and (not impl[1] or (impl[0] is not None and int(parts[1]) == impl[0]))
                # the time labels of the returned series are those of the model's seriesIdx
                if ok and case.get("_labels") is not None:
                    ok = [int(t) for t in C.parse_list(parts[3])] == case["_labels"]
        else:
            if isinstance(impl, str):
                ok = rep == impl
            elif rep.startswith("ok "):
                _, hs, lst, labs = rep.split(" ")
                mv = [C.h2f(t) for t in C.parse_list(lst)]
                ok, bit = compare_lists(impl[1], mv, scale, case.get("_open", ()))
                ok = ok and (not impl[1] or (impl[0] is not None and int(hs) == impl[0]))
                # the time labels of the returned series are those of the model's wrapperSeries
                if ok and case.get("_labels") is not None:
                    ok = [int(t) for t in C.parse_list(labs)] == case["_labels"]
                    stats["labels_compared"] += 1
                if ok:
                    stats["wrapper_bit_equal" if bit else "wrapper_within_tol"] += 1
        if not ok and not case.get("_wellformed", True):
            # outside the property's quantifier (decreasing stamps, bad flags, < 2 observations ...): which error is
            # raised, or whether one is, is not constrained; counted, not a disagreement
            stats["malformed_differences"] += 1
            continue
        if not ok:
            shown = impl if isinstance(impl, str) else (
                f"{impl[0]} " + fmt_out(impl[1])[3:] if kind in ("pyx", "hist") else
str(impl) if kind == "kmiss" else
                fmt_out(impl) if kind not in ("wrapper", "wrapperidx") else f"ok {impl[0]} " + fmt_out(impl[1])[3:])
            ctx.disagree(f"C14/{kind}: implementation and model differ",
                         {"request": req[:3000], "impl": shown[:3000], "model": rep[:3000], "gen": case.get("gen"),
                          "unit": case.get("unit"), "tz": case.get("tz")})
    dutils.c_hydrodiy_data = proxy._real
    ctx.extra.update(stats)
    ctx.extra["rule"] = __doc__.split("Cases:")[1].strip()
    ctx.assumptions += [
        "time stamps are whole seconds (the property's quantifier); sub-second stamps are truncated by the wrapper and not examined",
        "pandas DatetimeIndex construction, tz_localize, as_unit, date_range and numpy datetime64 casts are external: "
        "the epoch seconds of stamp i are a parameter of the model; the model's own conversion (wallSec) is compared with the "
        "wall-clock seconds the index was built from, the wrapper's conversion is judged through the values it returns",
        "time-zone aware indexes: fixed-offset zones everywhere, DST zones only on series that lie within June-August "
        "(no transition); wall-clock time is what the wrapper integrates over",
        "values are finite or NaN (no +/-inf); |values| <= 1e4; spans <= 3000 half-hours",
        "IEEE rounding is not modelled by the theorems: the Float instance of the model is compared with the kernel "
        "(4 ulp / 1e-12 relative to the largest value), the exact-rational instance within 1e-12 x n x scale",
    ]


def main(tier, replay=None):
    return C.run_check(PID, tier, body, needs_native=True, replay=replay,
                       trusted=["pandas DatetimeIndex storage (asi8, unit), zone offsets (zoneinfo), date_range, numpy datetime64 "
                                "casts: external — raw count and UTC offset of stamp i are parameters of the model (wrapperIdx), "
                                "its wall-clock seconds are compared with those the index was built from (nothing is read from the wrapper's kernel call)",
                                "gcc -O1 -ffp-contract=off build of c_var2h.c; ctypes call convention"])
