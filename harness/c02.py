"""C02 — the transform Jacobian is the derivative of forward, and forward is increasing.

Model: lean/HydroVerif/Model/C01.lean (`X.jac`, `X.jacobian` of the 13 classes) + Model/C02.lean (where `_jacobian`
returns a number; Softmax matrix of partial derivatives) + Model/C02Hist.lean (the transform object: Vector slots and
clipping, constructors and guards, public operations, get_transform, dutils.cast); theorems: lean/HydroVerif/Props/C02.lean
(over the reals: HasDerivAt forward jacobian on every smooth branch, 0 < jacobian, StrictMonoOn forward, Softmax determinant
for every n; over operation lists: the admissibility hypotheses follow from the code's guards after any history; over a
rounded arithmetic: forward weakly increasing and jacobian >= 0 exactly).
Correspondence: `Transform.jacobian` of the real classes (built directly and through `get_transform`) against the
Float instance of the model, element by element, on the cases of C01 (generators imported from harness.c01). The
tolerance of each element is the model's own first-order error bound (second, error-tracking instance of the same
model text: 2.3e-16 per arithmetic operation, 1e-13 per transcendental call, propagated; never tighter than 1e-12
relative), NaN must match exactly except within rounding distance of a guard edge (not compared there).
For Softmax also the finite-difference matrix of partial derivatives of the real `forward` against the model's
matrix `delta_ij/x_i + 1/(1-s)`, entry by entry (1e-4 relative).
Oracle (failing-input search, on the real code only, independent of the model):
  derivative  5-point central difference (-f(x+2h) + 8f(x+h) - 8f(x-h) + f(x-2h))/(12h) of the real `forward`;
              h is a power of two scaled to the distance L from x to the nearest edge / junction / singularity of
              its branch (h = 2^floor(log2 L) / 2^j, j in LADDER), x +- h, x +- 2h exactly representable, all five
              points inside one smooth branch. A point is judged when two neighbouring steps of the ladder agree
              to 2e-5 and the a-priori rounding noise of both quotients (from a per-class bound on the evaluation
              error of `forward`, see fwd_abs_err) is below 1e-5 of the quotient; then |jacobian - D| <= 1e-4
              max(|jacobian|, |D|) is required, and f(x-2h) < f(x-h) < f(x+h) < f(x+2h) strictly.
  positive    jacobian(x) is neither negative nor NaN at every x where `_jacobian`'s guard holds (1e-9 relative
              margin), and it is not exactly 0 wherever the judged finite difference shows a derivative above
              the underflow threshold of doubles (1e-290).
  finite      forward(x) is a finite number at every domain point where the exact transform is finite (finite_region:
              e.g. LogSinh for every w > 0, Box-Cox while |lam ln(x+nu)| < 690, Manly while |lam x/xmax| < 690).
  monotone    ordered pairs x1 < x2 of domain points (neighbours and random pairs of the sorted inputs, across
              the junctions of BoxCox2sym and Yeo-Johnson): forward(x1) <= forward(x2) + the evaluation error. The images
              are taken twice: from a call on the sorted domain points alone AND from the call on the series as given
              (unsorted, NaN / out-of-domain / edge values between the domain points); x1 = x2: the two images of one
              point may differ by the evaluation error only (signature X/monotone/same_point).
  evaluation  the stencil points reach `forward` one of three ways, chosen at random per object: one new array | one new
              array in which NaN / out-of-domain values stand between the points (first position included) | four calls
              on ONE array object overwritten in place between the calls, the returned arrays read after the last call.
  Softmax     rows n <= 6 with s <= 0.99: numpy.linalg.det of the finite-difference matrix of partial derivatives
              against jacobian(row), 1e-4 relative, where the first-order error bound of that determinant
              (sum |(J^-1)_ji| |dJ_ij|, dJ = rounding noise + step-to-step difference) is below 2e-5; jacobian > 0.
              The perturbed rows go to `forward` either as the rows of one new 2-D array or one by one through ONE (1, n)
              working array perturbed in place and restored; then jacobian(working array) is held to the determinant too.
Cases: per class, parameter vectors at declared bounds, defaults, exact branch values (lam = 0, +-1e-10, +-1.1e-10,
1e-8, 2, 2+-2.001e-5 ...), non-default mininu / minilam / base, unset constants (error expected), then random ones
(harness.c01.configs); inputs across the domain on a logarithmic grid from the edge, on the edge, outside (NaN
expected), zero and NaN (harness.c01.x_inputs), plus tails (tail_inputs below): magnitudes 2^k, k = 20..1000 and
2^-k, both signs, in the natural variable of each class (u = (x-nu) scale, w = nu + scale x, s = x + nu, x/xmax,
LogSinh's w, Logit next to its guard), with the stencil step scaled to x; ill-scaled parameter vectors (ill_scaled_configs:
a location parameter many orders of magnitude above the scale of variation - Logit |lower| = 2^20..2^45 or 1e6..1e13 with the
narrowest admissible interval that still holds 64..2^20 doubles, nu of that size for Log / Box-Cox / Reciprocal / Yeo-Johnson /
Sinh); accepted parameter vectors that the theorems exclude by hypothesis (excluded_point_configs: recorded, not judged); histories of parameter changes for the delegating classes (the
inner BoxCox2 is stale at the start of every call); dense sweeps of lam through the branch switches; for
Softmax, 2-D arrays of 1..4 rows x 1..7 columns incl. rejected ones.
History streams (every answer compared with the model at the object's CURRENT state, some judged by the oracle): on one
object and one input size, call -> (overwrite the returned array | edit the input array in place | equal-size
re-assignment through attribute / item / bulk `params.values` | reset() | rebuild a twin from constructor options +
values and re-assign the original | forward then jacobian | same call again) -> call again, 3-4 steps; Softmax the
same on one array object; `forward` is compared as well (the theorems differentiate the model's forward). Glue stream
(`dutils.cast`): 2-D float64 input keeps its shape and values; python float input must hold the value of the 1-element
array call; int64 / float32 arrays are outside the quantifier: what happens is recorded in the evidence only; Softmax arrays of 3 / 4 dimensions are rejected (ndimGt2).
Store stream (Model/C02Hist): one real object per case, built by its constructor or by get_transform with requested options
(valid and rejected: minilam < -3, > 1 + EPS, > 3; base <= 0, = 1), then 3-8 operations with REQUESTED values (inside / on /
outside the bounds, NaN, +-inf, wrong lengths, unknown keys): t.name = v, t[name] = v, t.params.values = vs, t.reset(),
jacobian / forward. After every operation the stored parameters, constants and inner BoxCox2 parameters are compared bit for bit
with the model's state machine, the error kind of a rejected operation with the model's, a rejected operation must leave the
object unchanged, and the values of a call with the model's answer from ITS state (NaN pattern, sign, order of magnitude) and once more through the main correspondence. dutils.cast itself is called
on float64 / float32 / int64 arrays of several shapes and on python floats with 0-d / numpy-scalar / 1-d results.
A case (one element of one call) is non-trivial when the reply is a finite number.
"""
import json
import math
import warnings

from . import common as C
from . import c01 as G

PID = "C02"
EPS = 1e-10
NAN = float("nan")
INF = float("inf")
E = 2.3e-16          # unit roundoff
K = 8.0              # safety factor on the evaluation-error bounds
SUBNORMAL_FLOOR = 1e-12 * 2.2250738585072014e-308   # 1e-12 relative at the smallest normal double: below it doubles have
#                                                     no relative precision left (results around 1e-316 carry ~8 digits)
LADDER = (16, 13, 10, 8, 6, 4)      # h = 2^floor(log2 L) / 2^j, smallest step first
MS = (-2.0, -1.0, 1.0, 2.0)
fin = G.fin
SM_ERR = [("Expected ndim", "ndimGt2")] + list(G.ERRMAP)
STATEFUL = G.STATEFUL
BOXCOX = ("BoxCox2", "BoxCox1lam", "BoxCox1nu")


# ------------------------------------------------------------------------------------------------------
# where `_jacobian` must return a positive number (its np.where guard, with a margin) -> branch tag or None
def jac_domain(cls, P, x):
    if not fin(x):
        return None
    if cls == "Identity":
        return "identity"
    if cls == "Logit":
        lo = P["lower"]
        d = math.exp(P["logdelta"])
        up = lo + d
        m = 1e-3 * EPS + 8 * E * max(abs(lo), abs(up))
        return "logit" if lo + EPS + m < x < up - EPS - m else None
    if cls in ("Log",) + BOXCOX + ("BoxCox2sym",):
        nu = P["nu"]
        lam = P.get("lam", 0.0)
        if nu != nu or lam != lam:
            return None
        if cls == "BoxCox2sym":
            if not (nu > 0 or (nu == 0 and lam > EPS)):
                return None
            s = abs(x) + nu
            big = max(abs(x), abs(nu))
        else:
            s = x + nu
            big = max(abs(x), abs(nu))
        edge = max(P["mininu"], 0.0)
        if not (s > edge * (1 + 1e-9) + 8 * E * big and s > 1e-300):
            return None
        if cls == "Log":
            return "ln" if P["base"] is None else ("base>1" if P["bf"] > 0 else "base_below_one")
        return "power" if abs(lam) > EPS else "log"
    if cls == "YeoJohnson":
        w = P["nu"] + x * P["scale"]
        if not fin(w) or abs(w) > 1e300:
            return None
        lam = P["lam"]
        if w >= EPS:
            return "pos-log" if abs(lam) <= 1e-8 else "pos-power"
        return "neg-log" if abs(lam - 2) <= 1e-8 + 2e-5 else "neg-power"
    if cls == "LogSinh":
        xm = P["xmax"]
        if xm != xm:
            return None
        a, b = math.exp(P["loga"]), math.exp(P["logb"])
        xn = x / xm
        edge = -a / b + EPS
        if not xn > edge + 1e-9 * (a / b + EPS) + 8 * E * abs(xn):
            return None
        return "logsinh" if a + b * xn < 1e300 else None
    if cls == "Reciprocal":
        s = P["nu"] + x
        return "reciprocal" if (s > 1e-9 * abs(P["nu"]) + 8 * E * abs(x) and 1e-300 < s < 1e300) else None
    if cls == "Sinh":
        u = (x - P["nu"]) * P["scale"]
        return "sinh" if (fin(u) and abs(u) < 1e300) else None
    if cls == "Manly":
        lam, xm = P["lam"], P["xmax"]
        if xm != xm:
            return None
        if abs(lam) <= EPS:
            return "identity" if abs(x / xm) < 1e300 else None
        return "exp" if abs(lam * x / xm) < 700 else None
    raise KeyError(cls)


def fwd_domain(cls, P, x):
    """natural domain of the forward formula (no margin): the points that enter the ordered-pair check"""
    if not fin(x):
        return False
    if cls == "Logit":
        lo = P["lower"]
        return lo < x < lo + math.exp(P["logdelta"])
    if cls in ("Log",) + BOXCOX:
        nu = P["nu"]
        return nu == nu and P.get("lam", 0.0) == P.get("lam", 0.0) and x + nu > 1e-300
    if cls == "BoxCox2sym":
        nu, lam = P["nu"], P["lam"]
        return nu > 0 or (nu == 0 and lam > EPS)
    if cls == "LogSinh":
        xm = P["xmax"]
        if xm != xm:
            return False
        a, b = math.exp(P["loga"]), math.exp(P["logb"])
        return x / xm > -a / b + EPS and a + b * x / xm < 1e300
    if cls == "Reciprocal":
        return 1e-300 < P["nu"] + x < 1e300
    if cls == "Manly":
        xm = P["xmax"]
        return xm == xm and (abs(P["lam"]) <= EPS or abs(P["lam"] * x / xm) < 700)
    if cls == "YeoJohnson":
        return abs(P["nu"] + x * P["scale"]) < 1e300
    if cls == "Sinh":
        return abs((x - P["nu"]) * P["scale"]) < 1e300
    return True


def finite_region(cls, P, x):
    """domain points at which the EXACT forward is certainly a finite double (from the mathematics of each map, not
    from how the code evaluates it): there a non-finite forward is a defect (an overflow inside the evaluation)"""
    if not (fin(x) and fwd_domain(cls, P, x)):
        return False

    def pw(s, k):          # s^k representable with a margin
        return s > 1e-300 and abs(k * math.log(s)) < 690
    if cls in ("Identity", "Sinh"):
        return True
    if cls == "Logit":
        # inside the guard of `_jacobian` (the property's domain for this class): closer than EPS to an end of the
        # interval the formula log(1/(1 - v) - 1) cancels (v < 2^-53 gives log 0) and jacobian is NaN by design
        lo = P["lower"]
        d = math.exp(P["logdelta"])
        return x - lo > EPS and lo + d - x > EPS and x - lo > 8 * E * d and lo + d - x > 8 * E * d
    if cls in ("Log", "Reciprocal"):
        return 1e-290 < (x + P["nu"]) < 1e290 and (cls != "Log" or P["bf"] != 0)
    if cls in BOXCOX:
        s = x + P["nu"]
        return 1e-290 < s < 1e290 and (abs(P["lam"]) <= EPS or pw(s, P["lam"]))
    if cls == "BoxCox2sym":
        s, nu, lam = abs(x) + P["nu"], P["nu"], P["lam"]
        if not 1e-290 < s < 1e290:
            return False
        return abs(lam) <= EPS and nu > 1e-290 or abs(lam) > EPS and pw(s, lam) and (nu == 0 or pw(nu, lam))
    if cls == "YeoJohnson":
        w, lam = P["nu"] + x * P["scale"], P["lam"]
        if w >= EPS:
            return abs(lam) <= 1e-8 or pw(1 + w, lam)
        return abs(lam - 2) <= 1e-8 + 2e-5 or pw(1 - w, 2 - lam)
    if cls == "LogSinh":
        a, b = math.exp(P["loga"]), math.exp(P["logb"])
        w = a + b * x / P["xmax"]
        return 1e-290 < w < 1e290
    if cls == "Manly":
        return abs(P["lam"]) <= EPS or abs(P["lam"] * x / P["xmax"]) < 690
    return False


def length_scale(cls, P, x):
    """distance from x to the nearest edge / junction / singularity of the smooth branch that holds x"""
    if cls == "Identity":
        return max(abs(x), 1.0)
    if cls == "Logit":
        lo = P["lower"]
        return min(x - lo, lo + math.exp(P["logdelta"]) - x)
    if cls in ("Log",) + BOXCOX:
        return (x + P["nu"]) / 4
    if cls == "BoxCox2sym":
        return abs(x) / 2
    if cls == "YeoJohnson":
        w = P["nu"] + x * P["scale"]
        return abs(w - EPS) / P["scale"] / 2
    if cls == "LogSinh":
        a, b = math.exp(P["loga"]), math.exp(P["logb"])
        w = a + b * x / P["xmax"]
        return min(w, 1.0) * P["xmax"] / b / 2
    if cls == "Reciprocal":
        return (P["nu"] + x) / 4
    if cls == "Sinh":
        u = (x - P["nu"]) * P["scale"]
        return math.hypot(1.0, u) / P["scale"] / 2
    if cls == "Manly":
        lam, xm = P["lam"], P["xmax"]
        u = x / xm
        lu = max(abs(u), 1.0)
        if abs(lam) > EPS:
            lu = min(lu, 1.0 / abs(lam))
        return lu * xm / 2
    raise KeyError(cls)


def same_branch(np, cls, P, x, pts):
    """all stencil points inside the domain and on the smooth branch of x (boolean array over the rows of pts;
    x = column of centres)"""
    if cls in ("Identity", "Sinh", "Manly"):
        return np.ones(pts.shape[0], dtype=bool)
    if cls == "Logit":
        lo = P["lower"]
        up = lo + math.exp(P["logdelta"])
        return np.all((pts > lo) & (pts < up), axis=1)
    if cls in ("Log",) + BOXCOX:
        return np.all(pts + P["nu"] > 0, axis=1)
    if cls == "BoxCox2sym":
        return np.where(x[:, 0] > 0, np.all(pts > 0, axis=1), np.all(pts < 0, axis=1))
    if cls == "YeoJohnson":
        w = P["nu"] + pts * P["scale"]
        w0 = P["nu"] + x[:, 0] * P["scale"]
        return np.where(w0 >= EPS, np.all(w >= EPS * (1 + 1e-9), axis=1), np.all(w < EPS * (1 - 1e-9), axis=1))
    if cls == "LogSinh":
        a, b = math.exp(P["loga"]), math.exp(P["logb"])
        return np.all(pts / P["xmax"] > (-a / b + EPS) + 1e-9 * (a / b + EPS), axis=1)
    if cls == "Reciprocal":
        return np.all(P["nu"] + pts > 0, axis=1)
    raise KeyError(cls)


def near_guard(cls, P, x):
    """True when x lies within rounding distance (a few ulps of the operands) of the edge of a np.where guard: there
    the NaN / number decision depends on how the guard expression is rounded, which the property does not constrain"""
    if not fin(x):
        return False
    if cls in ("Log",) + BOXCOX + ("BoxCox2sym",):
        nu = P["nu"]
        if nu != nu:
            return False
        s = (abs(x) if cls == "BoxCox2sym" else x) + nu
        return abs(s - P["mininu"]) <= 16 * E * max(abs(x), abs(nu), abs(P["mininu"]))
    if cls == "Logit":
        lo = P["lower"]
        up = lo + math.exp(P["logdelta"])
        tol = 16 * E * max(abs(lo), abs(up), abs(x), EPS)
        return abs(x - (lo + EPS)) <= tol or abs(x - (up - EPS)) <= tol
    if cls == "LogSinh":
        xm = P["xmax"]
        if xm != xm:
            return False
        a, b = math.exp(P["loga"]), math.exp(P["logb"])
        xn = x / xm
        return abs(xn - (-a / b + EPS)) <= 16 * E * max(abs(xn), a / b, EPS)
    return False


def softmax_sum_edge(rows):
    """some row sums to 1 - EPS within the rounding of the summation: accept / reject depends on how the sum is rounded"""
    return any(abs(math.fsum(r) - (1 - EPS)) <= 16 * max(len(r), 1) * E for r in rows)


def fwd_abs_err(np, cls, P, x, f):
    """bound on |computed forward(x) - exact forward formula at x| (arrays), K times the first-order estimate"""
    x = np.asarray(x, dtype=np.float64)
    f = np.asarray(f, dtype=np.float64)
    gen = 2 * E * np.abs(f)
    with np.errstate(all="ignore"):
        if cls == "Identity":
            return gen

        def bc_err(s, lam):
            if abs(lam) > EPS:
                Pw = np.power(s, lam)
                return K * E * ((1 + abs(lam)) * Pw + np.abs(Pw - 1)) / abs(lam)
            return K * E * (1 + np.abs(np.log(s)))
        if cls == "Logit":
            # the width of the interval as a real number (exp(logdelta)) and as the double `upper - lower` that the
            # parameter vector defines: for |lower| >> width they differ; the larger of the two estimates is used
            lo, d = P["lower"], math.exp(P["logdelta"])
            est = 0.0
            for wd in (d, (lo + d) - lo):
                if wd > 0:
                    v = (x - lo) / wd
                    est = np.maximum(est, K * E * (1 / np.abs(v) + 1 / np.abs(1 - v)))
            return est + gen
        if cls == "Log":
            s = x + P["nu"]
            return K * E * (1 + np.abs(np.log(s))) / abs(P["bf"]) + gen
        if cls in BOXCOX:
            return bc_err(x + P["nu"], P["lam"]) + gen
        if cls == "BoxCox2sym":
            return bc_err(np.abs(x) + P["nu"], P["lam"]) + \
                (bc_err(np.array(P["nu"]), P["lam"]) if P["nu"] > 0 else K * E / max(abs(P["lam"]), EPS)) + gen
        if cls == "YeoJohnson":
            nu, sc, lam = P["nu"], P["scale"], P["lam"]
            w = nu + x * sc
            dw = E * (np.abs(x * sc) + np.abs(w))
            pos = w >= EPS
            s = np.where(pos, w + 1, 1 - w)
            ds = dw + E * np.abs(s)
            k = np.where(pos, lam, 2 - lam)
            islog = np.where(pos, abs(lam) <= 1e-8, abs(lam - 2) <= 1e-8 + 2e-5)
            Pw = np.power(s, k)
            kk = np.where(islog, 1.0, k)
            e_pow = K * ((E + np.abs(kk) * ds / s) * Pw + E * np.abs(Pw - 1)) / np.abs(kk)
            e_log = K * (ds / s + E * np.abs(np.log(s)))
            return np.where(islog, e_log, e_pow) + gen
        if cls == "LogSinh":
            a, b, xm = math.exp(P["loga"]), math.exp(P["logb"]), P["xmax"]
            xn = x / xm
            w = a + b * xn
            dw = 2 * E * (np.abs(b * xn) + np.abs(w))
            ex = np.exp(-2 * w)
            q = 1 - ex
            dq = ex * (E + 2 * dw) + E * np.abs(q)
            lg = np.log(q / 2)
            return K * (dw + dq / q + E * np.abs(lg) + E * np.abs(w + lg)) / b + gen
        if cls == "Reciprocal":
            return K * 2 * E * np.abs(f) + gen
        if cls == "Sinh":
            u = (x - P["nu"]) * P["scale"]
            return K * (2 * E * np.abs(u) / np.hypot(1.0, u) + E * np.abs(f)) + gen
        if cls == "Manly":
            lam, xm = P["lam"], P["xmax"]
            if abs(lam) <= EPS:
                return K * E * np.abs(f) + gen
            t = lam * (x / xm)
            Pw = np.exp(t)
            return K * ((E + 2 * E * np.abs(t)) * Pw + E * np.abs(Pw - 1)) / abs(lam) + gen
    raise KeyError(cls)



# ------------------------------------------------------------------------------------------------------
# tails: inputs at magnitudes across the float range (both signs where the domain has two sides), in the natural
# variable of each class (u, w, s = x + nu, ...), mapped back to x. Nothing here depends on the formulas under test.
TAIL_K = (20, 27, 30, 31, 40, 53, 60, 64, 100, 200, 400, 511, 513, 600, 900, 1000)


def tail_inputs(cls, P, rng, n):
    ks = list(TAIL_K[:8]) + rng.sample(TAIL_K[8:], 3) + [rng.randint(10, 70) for _ in range(max(0, n - 11))]
    mags = [math.ldexp(rng.choice([1.0, 1.0, 1 + rng.random()]), k) for k in ks]
    small = [math.ldexp(1.0, -k) for k in rng.sample(TAIL_K, 4)]
    out = []
    if cls == "Identity":
        out = [sg * m for m in mags for sg in (1, -1)]
    elif cls == "Sinh":
        out = [sg * m / P["scale"] + P["nu"] for m in mags for sg in (1, -1)]
    elif cls == "YeoJohnson":
        out = [(sg * m - P["nu"]) / P["scale"] for m in mags for sg in (1, -1)]
        for k, sg in ((P["lam"], 1), (2 - P["lam"], -1)):
            if abs(k) > 1e-3:
                out += [(sg * (math.exp(f * 690.0 / abs(k)) - 1) - P["nu"]) / P["scale"] for f in (0.5, 0.9, 0.99)
                        if f * 690.0 / abs(k) < 690]
    elif cls == "Manly":
        xm = P["xmax"]
        if xm == xm:
            if abs(P["lam"]) > EPS:
                out = [sg * f * 700.0 / abs(P["lam"]) * xm for f in (1e-3, 0.03, 0.3, 0.9, 0.999) for sg in (1, -1)]
            out += [sg * m * xm for m in mags[:8] for sg in (1, -1)]
    elif cls in ("Log", "Reciprocal") + BOXCOX:
        nu = P["nu"]
        if nu == nu:
            out = [m - nu for m in mags] + [m - nu for m in small]
            lam = P.get("lam", 0.0)
            if cls in BOXCOX and lam == lam and abs(lam) > EPS:
                # (x + nu)^lam close to the overflow / underflow of doubles while the exact transform is finite
                out += [math.exp(sg * f * 690.0 / abs(lam)) - nu for f in (0.5, 0.9, 0.99) for sg in (1, -1)
                        if f * 690.0 / abs(lam) < 690]
    elif cls == "BoxCox2sym":
        out = [sg * m for m in mags + small for sg in (1, -1)]
        if abs(P["lam"]) > EPS and P["nu"] >= 0:
            out += [sg * (math.exp(f * 690.0 / abs(P["lam"])) - P["nu"]) for f in (0.5, 0.9, 0.99) for sg in (1, -1)
                    if f * 690.0 / abs(P["lam"]) < 690]
    elif cls == "LogSinh":
        xm = P["xmax"]
        if xm == xm:
            a, b = math.exp(P["loga"]), math.exp(P["logb"])
            mid = [10 ** rng.uniform(2.5, 4.5) for _ in range(4)] + [350.0, 709.0, 711.0, 750.0, 1500.0, 1e4]
            out = [(m - a) / b * xm for m in mags + mid] + [(m - a) / b * xm for m in small]
    elif cls == "Logit":
        lo, d = P["lower"], math.exp(P["logdelta"])
        for k in (1, 3, 10, 20, 30):
            v = EPS / d * (1 + math.ldexp(1.0, -k)) + math.ldexp(1.0, -52)
            out += [lo + v * d, lo + (1 - v) * d]
    return [v for v in out if fin(v)]


# ------------------------------------------------------------------------------------------------------
# ill-scaled parameter vectors: a location parameter many orders of magnitude above the scale on which the transform
# varies (|lower| >> exp(logdelta), |nu| >> x + nu, |nu| >> 1/scale). All are inside the declared bounds (the location
# parameters are unbounded); what they exercise is every place where the code forms location + small - location: the
# quantities forward and jacobian derive from the parameters must be the SAME doubles in both methods.
ILL_K = (20, 24, 27, 30, 31, 33, 36, 40, 45)


def ill_scaled_configs(cls, rng, n):
    out = []

    def big():
        r = rng.random()
        if r < 0.5:
            return rng.choice([-1.0, 1.0]) * math.ldexp(1.0, rng.choice(ILL_K))
        if r < 0.75:
            return rng.choice([-1.0, 1.0]) * math.ldexp(1 + rng.random(), rng.choice(ILL_K))
        return rng.choice([-1.0, 1.0]) * 10 ** rng.uniform(6, 13)
    for i in range(n):
        if cls == "Logit":
            lo = big()
            ulp = math.ulp(abs(lo))
            # narrowest admissible interval that still holds N doubles (N >= 64: a stencil with steps of whole ulps
            # fits), then wider ones up to the upper bound of logdelta
            nd = rng.choice([64, 100, 200, 400, 1000, 4096, 2 ** 20])
            ldmin = max(-10.0, math.log(nd * ulp))
            if ldmin > 10.0:
                continue
            ld = ldmin if i % 3 != 2 else rng.uniform(ldmin, 10.0)
            out.append(({}, {"lower": lo, "logdelta": ld}))
        elif cls in ("Log", "Reciprocal"):
            nu = abs(big())
            ctor = {} if i % 2 else {"mininu": rng.choice([EPS, 0.0, -10.0, 1e-3])}
            if cls == "Log" and i % 3 == 0:
                ctor["base"] = rng.choice([10.0, 2.0, 1.0001])
            out.append((ctor, {"nu": nu}))
        elif cls in BOXCOX + ("BoxCox2sym",):
            ctor = rng.choice([{}, {"minilam": -3.0}, {"mininu": 0.0, "minilam": -3.0}])
            lam = rng.choice(G.lam_pool(rng, ctor.get("minilam", 0.0)))
            nu = abs(big())
            if abs(lam) > EPS and abs(lam * math.log(nu)) > 600:
                lam = 0.5
            out.append((dict(ctor), {"nu": nu, "lam": lam}))
        elif cls == "YeoJohnson":
            out.append(({}, {"nu": big(), "scale": 10 ** rng.uniform(-5, 3),
                             "lam": rng.choice([0.0, 2.0, 1.0, 0.5, 1.5, -1.0, 3.0, rng.uniform(-1, 3)])}))
        elif cls == "Sinh":
            out.append(({}, {"nu": big(), "scale": 10 ** rng.uniform(-6, 3)}))
    return out


def excluded_point_configs(cls):
    """parameter vectors the constructors accept but the theorems exclude by hypothesis (each with a counterexample
    theorem): the real code is run there, whatever it answers is compared with the model and nothing is judged"""
    if cls == "Log":
        return [({"base": 1.0}, {"nu": 0.5}),                      # log(base) = 0: Log.base_one_not_pos
                ({"mininu": -10.0}, {"nu": -5.0})]                 # guard wider than the domain: Log.guard_wider_than_domain
    if cls == "BoxCox2sym":
        return [({"mininu": 0.0}, {"nu": 0.0, "lam": 0.0}),        # BC(0) = log 0 does not exist
                ({"mininu": 0.0, "minilam": -3.0}, {"nu": 0.0, "lam": -0.5})]
    return []


def outside_values(cls, P):
    """values that are NOT points of the domain of `forward` (a missing value, and a point outside the domain where there
    is one): what a series holds next to its valid points"""
    out = [NAN]
    if cls == "Logit":
        out += [P["lower"] - 1.0 - abs(P["lower"]), P["lower"] + math.exp(P["logdelta"]) + 1.0 + abs(P["lower"])]
    elif cls in ("Log", "Reciprocal") + BOXCOX:
        if P["nu"] == P["nu"]:
            out += [-P["nu"] - 1.0 - abs(P["nu"]), -P["nu"]]
    elif cls == "LogSinh":
        if P["xmax"] == P["xmax"]:
            a, b = math.exp(P["loga"]), math.exp(P["logb"])
            out += [(-a / b - 1.0) * P["xmax"]]
    return out


def pow2_floor(v):
    m, e = math.frexp(v)          # v = m 2^e, 0.5 <= m < 1
    return e - 1


# ------------------------------------------------------------------------------------------------------
def body(ctx):
    import numpy as np
    warnings.simplefilter("ignore")
    from hydrodiy.stat import transform as T
    rng = ctx.rng
    reqs, checks = [], []
    stats = {"elements": 0, "unconstrained": 0, "outside_domain_not_compared": 0, "guard_edge_not_compared": 0, "max_diff_over_bound": 0.0,
             "stencil_judged": 0, "stencil_not_judged": 0, "stencil_no_fit": 0, "positive_checked": 0,
             "pairs_checked": 0, "finite_checked": 0, "pairs_across_junction": 0, "softmax_det_judged": 0, "softmax_det_not_judged": 0,
             "softmax_pd_entries": 0, "max_rel_jac_vs_fd": 0.0}

    def call(o, op, arr):
        st, payload = o.call(op, list(arr))
        o.after_call(st)
        return st, payload

    # ------------------------------------------------------------------ forward at the stencil points
    def stencil_forward(o, P, pts):
        """images of the stencil points `pts` (one row per centre and step, columns x-2h, x-h, x+h, x+2h) under the real
        `forward`, obtained the ways a caller obtains them:
          flat     one call on a new array holding all points;
          padded   one call on a new array in which missing values / out-of-domain values stand between the points
                   (first position included), as in a series with gaps;
          inplace  four calls on ONE array object whose content is overwritten between the calls (the usual
                   finite-difference idiom `work[...] = x + m h; f(work)`), the four returned arrays being kept and read
                   only after the last call.
        -> (array of the shape of pts | None, mode)"""
        cls = o.cls
        mode = rng.choice(["flat", "padded", "inplace"])
        ctx.count(("stencil-mode", cls, mode, ctx.evaluations), False, f"oracle/stencil-evaluation/{mode}")
        if mode == "flat":
            st, fv = call(o, "fwd", pts.ravel())
            return (np.asarray(fv, dtype=np.float64).reshape(pts.shape) if st == "ok" else None), mode
        if mode == "padded":
            flat = pts.ravel()
            bad = outside_values(cls, P)
            npad = max(1, min(len(flat) // 3, 40))
            pos = sorted([0] + [rng.randrange(len(flat) + 1) for _ in range(npad - 1)])
            vals = [rng.choice(bad) for _ in pos]
            big = np.insert(flat, pos, vals)
            where = np.array(pos) + np.arange(len(pos))
            st, fv = o.call("fwd", None, raw=big)
            o.after_call(st)
            if st != "ok":
                return None, mode
            fv = np.delete(np.asarray(fv, dtype=np.float64), where)
            return (fv.reshape(pts.shape) if fv.size == pts.size else None), mode
        work = np.array(pts[:, 0], dtype=np.float64)
        held = []
        for c in range(pts.shape[1]):
            work[...] = pts[:, c]
            try:
                with np.errstate(all="ignore"):
                    r = o.t.forward(work)
                o.after_call("ok")
            except Exception:  # noqa
                return None, mode
            held.append(r)
        try:
            fv = np.column_stack([np.asarray(r, dtype=np.float64).ravel() for r in held])
        except Exception:  # noqa
            return None, mode
        return (fv if fv.shape == pts.shape else None), mode

    # ------------------------------------------------------------------ oracle on one object
    def oracle(o, xs, jvals, note, fmixed=None):
        cls = o.cls
        P = o.P()
        case0 = {"class": cls, "ctor": o.ctor, "params": P, "note": note}
        # ---- positivity on the guard's domain
        for x, j in zip(xs, jvals):
            tag = jac_domain(cls, P, x)
            if tag is None:
                continue
            stats["positive_checked"] += 1
            ctx.count(("pos", cls, C.f2h(x), json.dumps(P, sort_keys=True, default=str)), True, f"oracle/positive/{cls}/{tag}")
            if not (j >= 0):
                ctx.finding(f"{cls}/positive/{tag}",
                            f"{cls}.jacobian is negative or NaN at a point where its own guard holds",
                            {**case0, "x": x, "jacobian": j})
        # ---- ordered pairs. The images come from two calls: one on the sorted domain points alone, and the call the
        # caller already made on the whole series `xs` as it stands (unsorted, with its NaN / out-of-domain / edge values
        # between the domain points): a domain point is a domain point whatever else the array holds
        cand = sorted({x for x in xs if fwd_domain(cls, P, x)})
        jmap = {x: j for x, j in zip(xs, jvals)}
        sources = []
        if len(cand) >= 2:
            st, fv = call(o, "fwd", cand)
            if st == "ok":
                sources.append(("sorted domain points", np.asarray(fv, dtype=np.float64).ravel()))
        if fmixed is not None and len(fmixed) == len(xs) and len(cand) >= 1:
            first = {}
            for x, f in zip(xs, fmixed):
                if x == x and x not in first:
                    first[x] = f
            sources.append(("the series as given", np.array([first[x] for x in cand], dtype=np.float64)))
        errs = [fwd_abs_err(np, cls, P, np.array(cand), fv) for _, fv in sources]
        if len(sources) == 2:
            # x1 = x2: the two images of one domain point may differ by rounding only
            for i, x in enumerate(cand):
                fa, fb = float(sources[0][1][i]), float(sources[1][1][i])
                ea, eb = float(errs[0][i]), float(errs[1][i])
                if not finite_region(cls, P, x) or jac_domain(cls, P, x) is None:
                    continue
                if not fin(fa) and not fin(fb):
                    continue          # (a non-finite image at such a point is reported by the `finite` check below)
                if not (fin(ea) and fin(eb)):
                    continue
                stats["pairs_checked"] += 1
                if (fa != fa) != (fb != fb) or not abs(fa - fb) <= ea + eb:
                    ctx.finding(f"{cls}/monotone/same_point",
                                f"{cls}.forward gives two different images of one domain point, depending on which other "
                                f"values the array holds (x1 = x2 must give equal images within rounding)",
                                {**case0, "x": x, "forward_alone_sorted": fa, "forward_in_series": fb, "slack": ea + eb,
                                 "series": [float(v) for v in xs]})
                    break
        for (src, fv), err in zip(sources, errs):
            if len(cand) < 2:
                break
            for x, f in zip(cand, fv):
                if finite_region(cls, P, x):
                    stats["finite_checked"] += 1
                    if not fin(float(f)):
                        ctx.finding(f"{cls}/finite/forward",
                                    f"{cls}.forward is not a finite number at a domain point where the exact transform is "
                                    f"finite (overflow inside the evaluation)",
                                    {**case0, "x": x, "forward": float(f), "evaluated_on": src})
            n = len(cand)
            pairs = [(i, i + 1) for i in range(n - 1)] + [(i, i + 2) for i in range(n - 2)]
            for _ in range(min(n, 12)):
                i, k = sorted(rng.sample(range(n), 2))
                pairs.append((i, k))
            for i, k in pairs:
                f1, f2 = float(fv[i]), float(fv[k])
                if not (fin(f1) and fin(f2)) or not (fin(float(err[i])) and fin(float(err[k]))):
                    continue
                stats["pairs_checked"] += 1
                junction = (cls == "BoxCox2sym" and cand[i] < 0 < cand[k]) or \
                           (cls == "YeoJohnson" and (P["nu"] + cand[i] * P["scale"] < EPS <= P["nu"] + cand[k] * P["scale"]))
                if junction:
                    stats["pairs_across_junction"] += 1
                slack = float(err[i]) + float(err[k])
                j1, j2 = jmap.get(cand[i], NAN), jmap.get(cand[k], NAN)
                if cls != "Logit" and not junction and f2 - f1 <= slack and fin(j1) and fin(j2) and j1 > 0 and j2 > 0 and \
                        min(j1, j2) * (cand[k] - cand[i]) > 8 * slack and not (cls == "Log" and P["bf"] < 0) and \
                        jac_domain(cls, P, cand[i]) is not None and jac_domain(cls, P, cand[k]) is not None and \
                        (cls != "BoxCox2sym" or cand[i] * cand[k] > 0):
                    # the Jacobian is monotone between two points of one branch (every class but Logit), so the exact
                    # images differ by at least min(j1, j2) (x2 - x1): far more than the evaluation error here
                    ctx.finding(f"{cls}/monotone/equal_images",
                                f"{cls}.forward gives (nearly) equal images at two distinct domain points whose exact "
                                f"images differ by much more than the evaluation error",
                                {**case0, "x1": cand[i], "x2": cand[k], "forward1": f1, "forward2": f2, "slack": slack,
                                 "lower_bound_of_exact_difference": min(j1, j2) * (cand[k] - cand[i]),
                                 "evaluated_on": src})
                if f1 > f2 + slack:
                    tag = "base_below_one" if (cls == "Log" and P["bf"] < 0) else ("junction" if junction else "branch")
                    ctx.finding(f"{cls}/monotone/{tag}",
                                f"{cls}.forward decreases between two ordered domain points by more than the "
                                f"evaluation error of the formula",
                                {**case0, "x1": cand[i], "x2": cand[k], "forward1": f1, "forward2": f2, "slack": slack,
                                 "evaluated_on": src, **({"series": [float(v) for v in xs]} if src != "sorted domain points" else {})})
            ctx.count(("pairs", cls, json.dumps(P, sort_keys=True, default=str), len(cand), src), True,
                      f"oracle/monotone/{cls}")
        # ---- 5-point stencil
        pts_rows, meta = [], []
        for x, j in zip(xs, jvals):
            tag = jac_domain(cls, P, x)
            if tag is None or j != j:
                continue
            if cls == "BoxCox2sym" and x == 0:
                continue
            L = length_scale(cls, P, x)
            if not (fin(L) and L > 1e-300):
                continue
            e0 = pow2_floor(L)
            for jj in LADDER:
                ex = e0 - jj
                if ex < -1070 or ex > 1000:
                    continue
                h = math.ldexp(1.0, ex)
                pts_rows.append([x + m * h for m in MS])
                meta.append((x, j, tag, h, jj))
        if not pts_rows:
            return
        pts = np.array(pts_rows, dtype=np.float64)
        xcol = np.array([m[0] for m in meta])[:, None]
        hcol = np.array([m[3] for m in meta])[:, None]
        exact = np.all((pts - xcol) == np.array(MS)[None, :] * hcol, axis=1)
        inb = same_branch(np, cls, P, xcol, pts)
        fv, how = stencil_forward(o, P, pts)
        if fv is None:
            return
        case0 = {**case0, "stencil_evaluated": how}
        err = fwd_abs_err(np, cls, P, pts.ravel(), fv.ravel()).reshape(pts.shape)
        with np.errstate(all="ignore"):
            D = (fv[:, 0] - 8 * fv[:, 1] + 8 * fv[:, 2] - fv[:, 3]) / (12 * hcol[:, 0])
            noise = (err[:, 0] + 8 * err[:, 1] + 8 * err[:, 2] + err[:, 3]) / (12 * hcol[:, 0])
        usable = exact & inb & np.isfinite(D) & np.isfinite(noise) & np.all(np.isfinite(fv), axis=1)
        for r in np.nonzero(exact & inb & ~np.all(np.isfinite(fv), axis=1))[0][:50]:
            if all(finite_region(cls, P, float(v)) for v in pts[r]):
                ctx.finding(f"{cls}/finite/forward",
                            f"{cls}.forward is not a finite number at a domain point where the exact transform is finite "
                            f"(overflow inside the evaluation): the derivative cannot even be formed there",
                            {**case0, "x": meta[r][0], "stencil": [float(v) for v in pts[r]],
                             "forward_at_stencil": [float(v) for v in fv[r]], "jacobian": meta[r][1]})
        # group rows by x (rows of one x are contiguous, ladder order = smallest step first)
        i = 0
        nrows = len(meta)
        while i < nrows:
            k = i
            while k < nrows and meta[k][0] == meta[i][0] and (k == i or meta[k][4] < meta[k - 1][4]):
                k += 1
            x, j, tag, _, _ = meta[i]
            rows = [r for r in range(i, k) if usable[r]]
            i = k
            if len(rows) < 2:
                stats["stencil_no_fit"] += 1
                ctx.count(("fd", cls, C.f2h(x)), False, f"oracle/derivative/{cls}/no-fit")
                continue
            chosen = None
            for a, b in zip(rows[1:], rows[:-1]):          # b = smaller step, a = next larger one
                Da, Db = float(D[a]), float(D[b])
                if Db == 0 or noise[a] > 1e-5 * abs(Da) or noise[b] > 1e-5 * abs(Db):
                    continue
                if abs(Da - Db) <= 2e-5 * abs(Db):
                    chosen = b
                    break
            if chosen is None:
                stats["stencil_not_judged"] += 1
                ctx.count(("fd", cls, C.f2h(x)), False, f"oracle/derivative/{cls}/not-judged")
                continue
            stats["stencil_judged"] += 1
            Db = float(D[chosen])
            h = meta[chosen][3]
            if abs(Db) < 1e-290 or (j == INF and abs(Db) > 1e290):
                # the derivative itself is below the underflow (above the overflow) threshold of doubles
                ctx.count(("fd", cls, C.f2h(x)), False, f"oracle/derivative/{cls}/beyond-double-range")
                continue
            if j == 0:
                ctx.finding(f"{cls}/positive/{tag}",
                            f"{cls}.jacobian is exactly 0 where the derivative of forward is a representable positive number",
                            {**case0, "x": x, "jacobian": j, "finite_difference": Db})
            rel = abs(j - Db) / max(abs(j), abs(Db))
            stats["max_rel_jac_vs_fd"] = max(stats["max_rel_jac_vs_fd"], rel)
            ctx.count(("fd", cls, C.f2h(x), json.dumps(P, sort_keys=True, default=str)), True,
                      f"oracle/derivative/{cls}/{tag}",
                      sample=({"oracle": "stencil", "class": cls, "params": P, "x": x, "h": h, "jacobian": j,
                               "finite_difference": Db} if stats["stencil_judged"] % 97 == 1 else None))
            if not rel <= 1e-4:
                extra = {}
                if how == "padded":
                    # a short series that shows the same thing: one non-domain value, then the four stencil points
                    ser = [outside_values(cls, P)[-1]] + [x + m * h for m in MS]
                    st_, fs_ = o.call("fwd", ser)
                    o.after_call(st_)
                    extra = {"short_series": ser, "forward_of_short_series": ([float(v) for v in fs_] if st_ == "ok" else str(fs_))}
                ctx.finding(f"{cls}/derivative/{tag}",
                            f"{cls}.jacobian(x) differs from the 5-point central difference of {cls}.forward by more "
                            f"than 1e-4 relative inside one smooth branch",
                            {**case0, "x": x, "h": h, "jacobian": j, "finite_difference": Db, "relative_difference": rel,
                             "forward_at_stencil": [float(v) for v in fv[chosen]], **extra})
            f4 = [float(v) for v in fv[chosen]]
            if not (f4[0] < f4[1] < f4[2] < f4[3]):
                ctx.finding(f"{cls}/monotone/" + ("base_below_one" if (cls == "Log" and P["bf"] < 0) else "stencil"),
                            f"{cls}.forward is not strictly increasing over the stencil x-2h < x-h < x+h < x+2h although "
                            f"the increments are far above the evaluation error",
                            {**case0, "x": x, "h": h, "forward_at_stencil": f4})

    # ------------------------------------------------------------------ one object: correspondence + oracle
    def compared(o, op, arr, note="", inside=True):
        """one call of a public method on the real object, with the same request queued for the model (evaluated on
        the object's CURRENT parameters and the model's inner state left by the previous calls).
        Returns (status, the object the real code returned)"""
        cls = o.cls
        a = arr if isinstance(arr, np.ndarray) else np.array(list(arr), dtype=np.float64)
        xs = [float(v) for v in a.ravel()]
        mp = o.mparams()
        try:
            with np.errstate(all="ignore"):
                r = o.t.jacobian(a) if op == "jac" else o.t.forward(a)
            status, payload = "ok", np.array(r, dtype=np.float64)        # a private copy: the caller may edit `r`
            if payload.shape != a.shape:
                ctx.disagree(f"{cls}.{op}: the result does not have the shape of the input",
                             {"class": cls, "op": op, "input_shape": list(a.shape), "result_shape": list(payload.shape)})
        except ValueError as e:
            r = None
            status, payload = "err", next((v for k, v in G.ERRMAP if k in str(e)), "other:" + str(e)[:60])
        except Exception as e:  # noqa
            r = None
            status, payload = "err", "exc:" + type(e).__name__ + ":" + str(e)[:60]
        o.after_call(status)
        case = {"class": cls, "ctor": o.ctor, "params": o.P(), "op": op, "inputs": xs, "note": note, "inside": inside}
        if inside and status == "err" and all(v is not None for v in o.requested.values()):
            ctx.finding(f"{cls}/{op}/raises_on_valid_setting",
                        f"{op} on a transform whose parameters and constants were all set raises " + str(payload),
                        {"class": cls, "ctor": dict(o.ctor), "requested": dict(o.requested), "actual": o.P(),
                         "via_get_transform": o.via_get, "error": payload})
        reqs.append(f"{op} {cls} {C.flist(mp)} {C.flist(xs)}")
        checks.append((status, payload, case, list(o.bc) if cls in STATEFUL else None))
        return status, r

    def exercise(o, nin, note="", xs=None, inside=True):
        cls = o.cls
        P = o.P()
        if xs is None:
            xs = G.x_inputs(cls, P, rng, nin) + tail_inputs(cls, P, rng, max(12, nin // 3))
        first = rng.random() < 0.5          # which public method touches the object first after a (re)setting
        if first:
            stf, rf = compared(o, "fwd", xs, note, inside=inside)
        status, r = compared(o, "jac", xs, note, inside=inside)
        if not first:
            stf, rf = compared(o, "fwd", xs, note, inside=inside)
        if status == "ok":
            jv = [float(v) for v in np.asarray(r, dtype=np.float64).ravel()]
            fm = None
            if stf == "ok":
                try:
                    fm = [float(v) for v in np.asarray(rf, dtype=np.float64).ravel()]
                except Exception:  # noqa
                    fm = None
            if len(jv) == len(xs):
                oracle(o, xs, jv, note, fmixed=fm)

    def reassign(o):
        """equal-size re-assignment of parameters / constants of a live object, through one of the three public ways"""
        cls = o.cls
        if cls == "Identity":
            return "none"
        cand = [pp for _, pp in G.configs(cls, rng, 8) if all(v is not None for v in pp.values())]
        newp = rng.choice(cand)
        keys = [k for k in newp if rng.random() < 0.6] or [rng.choice(list(newp))]
        how = rng.choice(["attr", "item", "bulk"])
        if how == "attr":
            o.setp(**{k: newp[k] for k in keys})
        elif how == "item":
            for k in keys:
                o.t[k] = newp[k]
                o.requested[k] = newp[k]
        else:
            names = list(o.t.params.names)
            cur = [float(v) for v in o.t.params.values]
            o.t.params.values = [newp.get(nm, cv) if nm in keys else cv for nm, cv in zip(names, cur)]
            for nm in names:
                if nm in keys and nm in newp:
                    o.requested[nm] = newp[nm]
        if cls == "BoxCox2sym":
            p = o.P()
            if p["nu"] < 0 or (p["nu"] == 0 and not p["lam"] > EPS):
                o.setp(nu=0.3)
        return how

    def history(o, nsteps, nin=10):
        """a short history on ONE object and ONE input size: every answer is compared with the model (whose inner
        state is whatever the previous calls left) and, for some steps, judged by the oracle on the current state"""
        cls = o.cls
        P = o.P()
        xs = [v for v in G.x_inputs(cls, P, rng, nin) + tail_inputs(cls, P, rng, 12)][: nin + 6]
        a = np.array(xs, dtype=np.float64)
        for k in range(nsteps):
            step = rng.choice(["edit_output", "edit_input", "reassign", "reassign", "reset", "rebuild", "fwd_then_jac", "again"])
            note = f"history step {k + 1}: {step}"
            ctx.count(("hist", cls, step, k, ctx.evaluations), True, f"history/{cls}/{step}")
            if step == "edit_output":
                st, r = compared(o, rng.choice(["jac", "fwd"]), a, note)
                if st == "ok" and isinstance(r, np.ndarray) and r.ndim > 0 and r.flags.writeable:
                    r[...] = -7.0                     # the caller scribbles over the returned array
                compared(o, "jac", a, note + " (after the returned array was overwritten)")
                compared(o, "fwd", a, note + " (after the returned array was overwritten)")
            elif step == "edit_input":
                st, r = compared(o, "jac", a, note)
                keep = None if r is None else np.array(r, dtype=np.float64)
                fresh = G.x_inputs(cls, o.P(), rng, len(a) + 8)
                fresh = [v for v in fresh if v == v][: len(a)]
                if len(fresh) == len(a):
                    a[...] = fresh                    # same array object, same size, new content
                st2, r2 = compared(o, "jac", a, note + " (input array edited in place)")
                if keep is not None and isinstance(r, np.ndarray) and r.ndim > 0:
                    same = np.array_equal(np.asarray(r, dtype=np.float64), keep, equal_nan=True)
                    if not same:
                        ctx.disagree(f"{cls}.jacobian: an array returned earlier changed when the input array was edited "
                                     f"in place and the method called again", {"class": cls, "params": o.P()})
            elif step == "reassign":
                how = reassign(o)
                if rng.random() < 0.5:
                    exercise(o, nin, note + f" via {how}", xs=[float(v) for v in a])
                else:
                    compared(o, "jac", a, note + f" via {how}")
            elif step == "reset":
                o.t.reset()
                for nm, v in zip(o.t.params.names, o.t.params.values):
                    o.requested[nm] = float(v)
                compared(o, "jac", a, note)
            elif step == "rebuild":
                # a second object built from the constructor options and the current values (the only way to clone a
                # transform: copy.deepcopy / pickle of a Transform raise inside Vector on the pinned tree)
                cur = {nm: float(v) for nm, v in zip(o.t.params.names, o.t.params.values)}
                cur.update({nm: (None if v != v else float(v)) for nm, v in zip(o.t.constants.names, o.t.constants.values)})
                o2 = G.Obj(T, cls, o.ctor, cur, via_get=rng.random() < 0.5)
                st1, r1 = compared(o, "jac", a, note + " (original)")
                st2, r2 = compared(o2, "jac", a, note + " (rebuilt twin)")
                if st1 == "ok" and st2 == "ok" and not np.array_equal(np.asarray(r1), np.asarray(r2), equal_nan=True):
                    ctx.disagree(f"{cls}.jacobian: an object rebuilt from the same constructor options and parameter values "
                                 f"answers differently from the original", {"class": cls, "params": o.P(), "twin": o2.P()})
                reassign(o)                          # the twin must not follow the original
                compared(o2, "jac", a, note + " (twin, after the original was re-assigned)")
                compared(o, "jac", a, note + " (original, re-assigned)")
            elif step == "fwd_then_jac":
                zs = G.x_inputs(cls, o.P(), rng, 6)
                compared(o, "fwd", zs, note)
                compared(o, "jac", a, note)
            else:
                compared(o, "jac", a, note)
                compared(o, "jac", a, note)

    def glue(o):
        """shape / type handling of the public method (`dutils.cast`). Everything here is OUTSIDE the property's
        quantifier (1-D float64 series): nothing raises a finding. 2-D float64 arrays and python floats are compared
        with the model's values as correspondence items; what integer and float32 arrays do (TypeError, float64
        answer, answer in the input's precision) is only recorded in the evidence histogram"""
        cls = o.cls
        P = o.P()
        xs = [v for v in G.x_inputs(cls, P, rng, 12) if v == v][:6]
        if len(xs) == 6:
            compared(o, "jac", np.array(xs, dtype=np.float64).reshape(2, 3), "glue: 2-D input", inside=False)
            compared(o, "fwd", np.array(xs, dtype=np.float64).reshape(3, 2), "glue: 2-D input", inside=False)
        good = [x for x in xs if jac_domain(cls, P, x) is not None]
        if good and cls not in G.NOCENS:
            x0 = float(good[0])
            try:
                with np.errstate(all="ignore"):
                    rs = o.t.jacobian(x0)
                    ra = o.t.jacobian(np.array([x0]))
                o.after_call("ok")
                ctx.count(("glue", cls, "scalar", C.f2h(x0)), True, f"glue/{cls}/python-float")
                av = np.asarray(ra, dtype=np.float64).ravel()
                sv = np.asarray(rs, dtype=np.float64).ravel()
                ctx.count(("glue", cls, "scalar-type", type(rs).__name__), False, f"glue/{cls}/python-float/returns-{type(rs).__name__}")
                if not (av.size == 1 and sv.size == 1 and C.f2h(float(sv[0])) == C.f2h(float(av[0]))):
                    ctx.disagree(f"{cls}.jacobian(python float) does not hold the value of the 1-element array call",
                                 {"class": cls, "params": P, "x": x0, "scalar": repr(rs), "array": repr(ra)})
            except Exception:  # noqa  (scalars are outside the quantifier: a raise is recorded, not judged)
                ctx.count(("glue", cls, "scalar-raises"), False, f"glue/{cls}/python-float/raises")
        ints = [float(v) for v in (1, 2, 3, 7)]
        if all(jac_domain(cls, P, v) is not None for v in ints):
            ref_st, ref = o.call("jac", ints)
            o.after_call(ref_st)
            for dt in (np.int64, np.float32):
                # outside the property's quantifier (float64 series): whatever the code does here - raise, answer in
                # float64, answer in the precision of the input - is recorded in the evidence and never a finding
                try:
                    with np.errstate(all="ignore"):
                        r = o.t.jacobian(np.array(ints, dtype=dt))
                    o.after_call("ok")
                    rr = np.asarray(r)
                    same = ref_st == "ok" and rr.shape == np.asarray(ref).shape and \
                        np.array_equal(rr.astype(np.float64), np.asarray(ref), equal_nan=True)
                    tag = f"answered-{rr.dtype.name}-" + ("same-values-as-float64" if same else "other-values")
                except Exception as e:  # noqa
                    tag = type(e).__name__
                ctx.count(("glue", cls, np.dtype(dt).name, json.dumps(P, sort_keys=True, default=str)), False,
                          f"glue/{cls}/{np.dtype(dt).name}/{tag}")

    # ---------------- corpus (C02's own and the parameter vectors of C01's)
    for cdir in (C.ROOT / "corpus" / PID, C.ROOT / "corpus" / "C01"):
        if cdir.exists():
            for f in sorted(cdir.glob("*.json")):
                cc = json.loads(f.read_text())
                if "class" not in cc:
                    continue
                o = G.Obj(T, cc["class"], cc.get("ctor", {}), cc.get("params", {}), cc.get("via_get", False))
                for stp in cc.get("steps", [{}]):
                    o.setp(**stp.get("set", {}))
                    exercise(o, 14, note="corpus:" + f.name)
                    if cc.get("xs"):
                        exercise(o, 14, note="corpus:" + f.name + " pinned inputs", xs=[float(v) for v in cc["xs"]])

    # ---------------- scalar classes
    ncfg = ctx.scale(120, 600)
    nin = ctx.scale(40, 56)
    scalar_classes = ["Identity", "Logit", "Log", "BoxCox2", "BoxCox1lam", "BoxCox1nu", "BoxCox2sym", "YeoJohnson",
                      "LogSinh", "Reciprocal", "Sinh", "Manly"]
    for cls in scalar_classes:
        cfgs = G.configs(cls, rng, 1 if cls == "Identity" else ncfg) + ill_scaled_configs(cls, rng, ctx.scale(16, 60))
        for ctor, params in excluded_point_configs(cls):
            # accepted by the constructor, excluded by a theorem hypothesis: run, compare, judge nothing (an equivalent
            # formula may legitimately raise there, e.g. 1/log(base) for base = 1)
            try:
                o = G.Obj(T, cls, ctor, params, via_get=False)
            except Exception as e:  # noqa  (a constructor that refuses such a vector is as good)
                ctx.count(("excluded", cls, json.dumps(params, sort_keys=True)), False,
                          f"{cls}/excluded-by-hypothesis/constructor-raises-{type(e).__name__}")
                continue
            ctx.count(("excluded", cls, json.dumps(params, sort_keys=True)), False, f"{cls}/excluded-by-hypothesis")
            exercise(o, 14, note="excluded by a theorem hypothesis", inside=False)
        for i, (ctor, params) in enumerate(cfgs):
            o = G.Obj(T, cls, ctor, params, via_get=(i % 2 == 1))
            exercise(o, nin)
            if cls in STATEFUL or (cls in ("LogSinh", "Manly") and i % 5 == 0):
                for step in range(ctx.scale(1, 3)):
                    p = o.P()
                    if cls in STATEFUL:
                        minilam = o.ctor.get("minilam", 0.0)
                        kw = {}
                        r = rng.random()
                        if r < 0.6:
                            kw["nu"] = rng.choice(G.nu_pool(rng, p["mininu"]))
                            if cls == "BoxCox2sym" and kw["nu"] <= 0:
                                kw["nu"] = 0.7 if kw["nu"] < 0 or not p["lam"] > EPS else 0.0
                        if r > 0.3:
                            kw["lam"] = rng.choice(G.lam_pool(rng, minilam))
                            if cls == "BoxCox2sym" and kw.get("nu", p["nu"]) == 0 and not kw["lam"] > EPS:
                                kw["lam"] = 0.5
                        o.setp(**kw)
                    elif cls == "LogSinh":
                        o.setp(xmax=10 ** rng.uniform(-2, 3), loga=rng.uniform(-20, 0))
                    else:
                        o.setp(xmax=10 ** rng.uniform(-2, 3), lam=rng.choice([0.0, 1e-10, 0.5, -2.0, 1e-3]))
                    exercise(o, max(12, nin // 3), note=f"history step {step + 1}")
            if cls != "Identity" and (cls in STATEFUL or i % 3 == 0):
                history(o, ctx.scale(3, 4))
            if i % 10 == 0:
                glue(o)

    # ---------------- dense sweeps of lam through the branch switches of the Jacobian formulas
    nsw = ctx.scale(40, 400)
    sweeps = []
    for k in range(nsw):
        f = 1 + rng.choice([-1, 1]) * 10 ** rng.uniform(-15, -0.3)
        sg = rng.choice([-1, 1])
        sweeps.append(("BoxCox2", {"minilam": -3.0}, {"nu": rng.choice([1e-3, 0.1, 1.0, 7.0]), "lam": sg * EPS * f}))
        sweeps.append(("Manly", {}, {"lam": sg * EPS * f, "xmax": rng.choice([1.0, 3.0, 100.0])}))
        sweeps.append(("YeoJohnson", {}, {"nu": rng.choice([0.0, 0.4, -2.0]), "scale": rng.choice([1.0, 0.1, 25.0]),
                                          "lam": sg * 1e-8 * f}))
        sweeps.append(("YeoJohnson", {}, {"nu": rng.choice([0.0, 0.4, -2.0]), "scale": rng.choice([1.0, 0.1, 25.0]),
                                          "lam": 2 + sg * (1e-8 + 2e-5) * f}))
    for k, (cls, ctor, params) in enumerate(sweeps):
        exercise(G.Obj(T, cls, ctor, params, via_get=(k % 2 == 0)), 14, note="lam sweep")

    # ---------------- Softmax
    sm = T.Softmax()
    nsm = ctx.scale(500, 5000)
    pd_reqs, pd_checks = [], []
    for it in range(nsm):
        ncol = rng.randint(1, 7)
        nrow = rng.randint(1, 4)
        kind = rng.choice(["ok", "ok", "ok", "ok", "edge", "neg", "big", "tiny"])
        rows = []
        for _ in range(nrow):
            raw = [10 ** rng.uniform(-8, 0) if rng.random() < 0.3 else rng.random() for _ in range(ncol)]
            tot = sum(raw)
            target = rng.choice([rng.random(), rng.random(), 1 - 10 ** rng.uniform(-9.5, 0), 10 ** rng.uniform(-6, 0)])
            rows.append([v / tot * target * (1 - 2e-10) for v in raw])
        if kind == "edge":
            r0 = rows[0]
            k = (1 - EPS) / sum(r0)
            rows[0] = [v * k for v in r0]
        elif kind == "neg":
            rows[rng.randrange(nrow)][rng.randrange(ncol)] = -10 ** rng.uniform(-12, 0)
            if rng.random() < 0.5:
                rows[rng.randrange(nrow)] = [0.9] * ncol if ncol > 1 else [1.5]
        elif kind == "big":
            rows[rng.randrange(nrow)] = [(1 + 10 ** rng.uniform(-11, 0)) / ncol] * ncol
        elif kind == "tiny":
            rows[0] = [1e-300] * ncol
        arr = np.array(rows, dtype=np.float64)
        try:
            with np.errstate(all="ignore"):
                r = sm.jacobian(arr)
            status, payload = "ok", np.asarray(r, dtype=np.float64)
        except ValueError as e:
            status, payload = "err", next((v for k, v in G.ERRMAP if k in str(e)), "other:" + str(e)[:40])
        reqs.append(f"jac Softmax [] {C.fmat(rows)}")
        checks.append((status, payload, {"class": "Softmax", "op": "jac", "rows": rows, "kind": kind}, None))

        def sm_call(op, a, nd="[]", kind_=kind):
            """Softmax method on array `a` (its 2-D rows are what the model gets), queued for the model"""
            try:
                with np.errstate(all="ignore"):
                    rr = sm.jacobian(a) if op == "jac" else sm.forward(a)
                st_, pl_ = "ok", np.array(rr, dtype=np.float64)
            except ValueError as e_:
                rr = None
                st_, pl_ = "err", next((v for k_, v in SM_ERR if k_ in str(e_)), "other:" + str(e_)[:40])
            rws = [[float(v) for v in r_] for r_ in a.reshape(-1, a.shape[-1])]
            reqs.append(f"{op} Softmax {nd} {C.fmat(rws)}")
            checks.append((st_, pl_, {"class": "Softmax", "op": op, "rows": rws, "kind": kind_}, None))
            return st_, rr
        sm_call("fwd", arr)
        if it % 7 == 0:
            # history on one array object: scribble over the result, edit the input in place (same shape), call again
            work = arr.copy()
            st_a, ra = sm_call("jac", work, kind_="history")
            if st_a == "ok":
                ra[...] = -3.0
                st_f, rf = sm_call("fwd", work, kind_="history: after the returned array was overwritten")
                if st_f == "ok":
                    rf[...] = 0.0
                sm_call("jac", work, kind_="history: after both returned arrays were overwritten")
                work *= 0.5                              # still a valid array of the same shape
                ctx.count(("hist", "Softmax", it), True, "history/Softmax/edit_output+edit_input")
                sm_call("jac", work, kind_="history: input array edited in place")
                sm_call("fwd", work, kind_="history: input array edited in place")
        if it % 25 == 0:
            # more than two dimensions: rejected before anything else
            ctx.count(("nd", it), True, "glue/Softmax/3-D")
            sm_call("jac", arr.reshape((1,) + arr.shape), nd="[3]", kind_="3-D")
            sm_call("fwd", arr.reshape((1, 1) + arr.shape), nd="[4]", kind_="4-D")
        valid = all(v > 0 for r in rows for v in r) and all(math.fsum(r) <= 1 - EPS - 1e-13 for r in rows)
        if valid and status != "ok":
            ctx.finding("Softmax/jac/rejects_valid", "a 2-D array with positive rows summing below 1-EPS was rejected",
                        {"rows": rows, "error": payload})
        if status != "ok":
            continue
        for r, jv in zip(rows, payload.ravel()):
            jv = float(jv)
            if min(r) >= 1e-300:
                stats["positive_checked"] += 1
                ctx.count(("pos", "Softmax", tuple(r)), True, "oracle/positive/Softmax")
                if not (jv > 0):
                    ctx.finding("Softmax/positive/row", "Softmax.jacobian is not strictly positive on an accepted row",
                                {"row": r, "jacobian": jv})
        # finite-difference matrix of partial derivatives of the first row (n <= 6)
        row = rows[0]
        n = len(row)
        s = math.fsum(row)
        if n > 6 or s > 0.99 or min(row) < 1e-9:
            continue
        jrow = float(payload.ravel()[0])
        ladder = (12, 9, 6)
        mats, noises, fits = [], [], []
        base = np.array(row, dtype=np.float64)
        # how the perturbed rows reach `forward`: all at once as the rows of one new 2-D array, or one after the other
        # through ONE (1, n) working array that is perturbed in place, evaluated and restored (the returned arrays
        # are kept and read after the last call); in that mode `jacobian` is evaluated on the restored working array too
        sm_mode = rng.choice(["fresh", "inplace"])
        work = base.copy().reshape(1, n)
        ctx.count(("smdet-mode", it, sm_mode), False, f"oracle/Softmax/determinant/evaluation/{sm_mode}")
        for jj in ladder:
            pert, hs = [], []
            fit = True
            for c in range(n):
                L = min(row[c], 1 - s) / 2
                h = math.ldexp(1.0, pow2_floor(L) - jj)
                hs.append(h)
                for m in MS:
                    pr = base.copy()
                    pr[c] = row[c] + m * h
                    if (pr[c] - row[c]) != m * h:
                        fit = False
                    pert.append(pr)
            pert = np.array(pert)
            try:
                with np.errstate(all="ignore"):
                    if sm_mode == "fresh":
                        yv = np.asarray(sm.forward(pert), dtype=np.float64)
                    else:
                        held = []
                        for pr in pert:
                            work[0, :] = pr
                            held.append(sm.forward(work))
                        work[0, :] = base
                        yv = np.vstack([np.asarray(r_, dtype=np.float64).reshape(1, n) for r_ in held])
            except ValueError:
                fit = False
                yv = None
                work[0, :] = base
            if not fit or yv is None or not np.all(np.isfinite(yv)):
                mats.append(None), noises.append(None), fits.append(False)
                continue
            Jfd = np.zeros((n, n))
            Nz = np.zeros((n, n))
            sp = pert.sum(axis=1)
            dy = K * E * (n * sp / (1 - sp) + 3)[:, None] + 3 * E * np.abs(yv)
            for c in range(n):
                blk = yv[4 * c: 4 * c + 4]
                eb = dy[4 * c: 4 * c + 4]
                Jfd[:, c] = (blk[0] - 8 * blk[1] + 8 * blk[2] - blk[3]) / (12 * hs[c])
                Nz[:, c] = (eb[0] + 8 * eb[1] + 8 * eb[2] + eb[3]) / (12 * hs[c])
            mats.append(Jfd), noises.append(Nz), fits.append(True)
        chosen = None
        for b, a in ((0, 1), (1, 2)):
            if fits[a] and fits[b]:
                # first-order bound on the relative error of det(Jfd): sum |(J^-1)_ji| |dJ_ij|, with dJ = rounding
                # noise + difference to the next larger step (an over-estimate of the truncation error)
                dJ = noises[b] + np.abs(mats[a] - mats[b])
                try:
                    est = float(np.sum(np.abs(np.linalg.inv(mats[b]).T) * dJ))
                except np.linalg.LinAlgError:
                    continue
                if est <= 2e-5:
                    chosen = b
                    reliable = dJ <= 2e-5 * np.abs(mats[b])
                    break
        if chosen is None:
            stats["softmax_det_not_judged"] += 1
            ctx.count(("smdet", tuple(row)), False, "oracle/Softmax/determinant/not-judged")
            continue
        Jfd = mats[chosen]
        det = float(np.linalg.det(Jfd))
        stats["softmax_det_judged"] += 1
        jwork = None
        if sm_mode == "inplace":
            try:
                with np.errstate(all="ignore"):
                    jwork = float(np.asarray(sm.jacobian(work), dtype=np.float64).ravel()[0])
            except ValueError:
                jwork = NAN
        rel = abs(det - jrow) / max(abs(det), abs(jrow))
        ctx.count(("smdet", tuple(row)), True, f"oracle/Softmax/determinant/n={n}",
                  sample=({"oracle": "softmax-det", "row": row, "jacobian": jrow, "det_fd": det}
                          if stats["softmax_det_judged"] % 41 == 1 else None))
        if jwork is not None:
            # the Jacobian of the working array (restored to the row after the in-place perturbations) is held to the same
            # requirement as that of a new array
            relw = abs(det - jwork) / max(abs(det), abs(jwork)) if jwork == jwork else INF
            if not (jwork > 0 and relw <= 1e-4):
                ctx.finding("Softmax/determinant/working_array",
                            "Softmax.jacobian of a working array holding the row (after in-place perturbations and calls of "
                            "forward on that same array) is not positive or differs from numpy.linalg.det of the "
                            "finite-difference matrix of partial derivatives by more than 1e-4 relative",
                            {"row": row, "jacobian_of_working_array": jwork, "jacobian_of_new_array": jrow,
                             "det_of_finite_difference_matrix": det, "relative_difference": relw, "evaluation": sm_mode})
        if not rel <= 1e-4:
            ctx.finding("Softmax/determinant/row",
                        "Softmax.jacobian(row) differs from numpy.linalg.det of the finite-difference matrix of partial "
                        "derivatives of Softmax.forward by more than 1e-4 relative",
                        {"row": row, "jacobian": jrow, "det_of_finite_difference_matrix": det, "relative_difference": rel,
                         "finite_difference_matrix": Jfd.tolist(), "evaluation": sm_mode})
        pd_reqs.append(f"pd Softmax [] {C.fmat([row])}")
        pd_checks.append((row, Jfd, jrow, reliable))

    # ---------------- store stream: ONE object, a history of public operations with REQUESTED values (in / on / outside
    # the bounds, NaN, +-inf, wrong lengths, unknown keys, unset constants), against Model/C02Hist's state machine: after
    # every operation the stored parameters / constants / inner BoxCox2 parameters (bit for bit), the error kind of a
    # rejected operation and "a rejected operation changes nothing"; calls are answered from the MODEL's state
    SLOTS = {   # (parameter names, constant names) in the order of the vectors
        "Identity": ([], []), "Logit": (["lower", "logdelta"], []), "Log": (["nu"], []), "BoxCox2": (["nu", "lam"], []),
        "BoxCox1lam": (["lam"], ["nu"]), "BoxCox1nu": (["nu"], ["lam"]), "BoxCox2sym": (["nu", "lam"], []),
        "YeoJohnson": (["nu", "scale", "lam"], []), "LogSinh": (["loga", "logb"], ["xmax"]), "Reciprocal": (["nu"], []),
        "Sinh": (["nu", "scale"], []), "Manly": (["lam"], ["xmax"])}
    STORE_ERR = [("Cannot set value to nan", "nanValue"), ("Cannot process values with NaN", "nanValue"),
                 ("Expected vector of length", "badLength"), ("Expected key in", "unknownKey"),
                 ("Expected minilam", "minilamBelowM3"), ("Expected maxs within", "maxsOutside"),
                 ("Expected defaults within", "defaultsOutside"), ("math domain error", "baseNotPositive"),
                 ("expected a positive input", "baseNotPositive")] + list(G.ERRMAP)

    def classify(e):
        msg = str(e)
        return next((v for k, v in STORE_ERR if k in msg), "other:" + msg[:50])

    def value_pool(cls, name, ctor):
        mininu, minilam = ctor.get("mininu", EPS), ctor.get("minilam", 0.0)
        bounds = {"logdelta": (-10.0, 10.0), "nu": (mininu, None), "lam": (minilam, 3.0), "scale": (1e-5, None),
                  "loga": (-20.0, 0.0), "logb": (-5.0, 5.0), "xmax": (EPS, None), "lower": (None, None)}
        if cls in ("YeoJohnson", "Sinh") and name == "nu":
            bounds["nu"] = (None, None)
        if cls == "YeoJohnson" and name == "lam":
            bounds["lam"] = (-1.0, 3.0)
        if cls == "Sinh" and name == "scale":
            bounds["scale"] = (1e-10, None)
        if cls == "Manly" and name == "lam":
            bounds["lam"] = (-5.0, 5.0)
        lo, hi = bounds.get(name, (None, None))
        pool = [rng.uniform(-3, 3), 10 ** rng.uniform(-6, 3), 0.0, 1.0, NAN, NAN, INF, -INF, -1e300, 1e300]
        if lo is not None:
            pool += [lo, lo - 1.0, lo - abs(lo) * 1e-12 - 1e-300, lo + abs(lo) * 1e-12 + 1e-12, math.nextafter(lo, -INF)]
        if hi is not None:
            pool += [hi, hi + 1.0, math.nextafter(hi, INF), hi - 1e-9]
        if lo is not None and hi is not None:
            pool += [rng.uniform(lo, hi) for _ in range(4)]
        elif lo is not None:
            pool += [lo + 10 ** rng.uniform(-9, 3) for _ in range(4)]
        return pool

    def snapshot(t):
        bc = [float(v) for v in t.BC.params.values] if hasattr(t, "BC") else None
        return ([float(v) for v in t.params.values], [float(v) for v in t.constants.values], bc)

    def tokv(v):
        return C.f2h(v)

    hist_reqs, hist_checks = [], []
    store_classes = list(SLOTS)
    nstore = ctx.scale(30, 150)
    for cls in store_classes:
        pnames, cnames = SLOTS[cls]
        for it in range(nstore):
            ctor = {}
            if cls in BOXCOX + ("BoxCox2sym",):
                ctor = rng.choice([{}, {}, {"minilam": -3.0}, {"minilam": -3.5}, {"minilam": -3.0 - 1e-12}, {"minilam": 0.5},
                                   {"minilam": 1.0}, {"minilam": 1.0 + 5e-11}, {"minilam": 1.0 + 2e-10}, {"minilam": 1.5},
                                   {"minilam": 3.5}, {"mininu": 0.5}, {"mininu": 0.0, "minilam": -3.0}, {"mininu": -10.0}])
            elif cls == "Log":
                ctor = rng.choice([{}, {"base": 10.0}, {"base": 0.5}, {"base": -1.0}, {"base": 0.0}, {"mininu": 0.5},
                                   {"mininu": 0.0, "base": 2.0}, {"mininu": -10.0}])
            elif cls == "Reciprocal":
                ctor = rng.choice([{}, {"mininu": 0.1}, {"mininu": 0.0}, {"mininu": -10.0}])
            ctor = dict(ctor)
            base = ctor.get("base")
            ctok = C.flist([ctor.get("mininu", EPS), ctor.get("minilam", 0.0), NAN if base is None else base])
            via = rng.random() < 0.4
            kw = []
            if via:
                for nm in rng.sample(pnames + cnames + ["zz_free"], rng.randint(0, len(pnames + cnames) + 1)):
                    kw.append((nm, rng.choice(value_pool(cls, nm, ctor))))
            how = "via:" + ",".join(f"{k}={tokv(v)}" for k, v in kw) if via else "direct"
            # ---- the real object
            steps = []
            t = None
            try:
                with np.errstate(all="ignore"):
                    t = T.get_transform(cls, **ctor, **dict(kw)) if via else getattr(T, cls)(**ctor)
                steps.append(("done", snapshot(t), None))
            except ValueError as e:
                steps.append(("rej:" + classify(e), None, None))
            ops = []
            if t is not None:
                for _ in range(rng.randint(3, 8)):
                    kind = rng.choice(["A", "A", "I", "I", "V", "R", "J", "J", "F"])
                    before = snapshot(t)
                    try:
                        vals = None
                        with np.errstate(all="ignore"):
                            if kind in ("A", "I"):
                                nm = rng.choice(pnames + cnames + ["zz_free"])
                                v = rng.choice(value_pool(cls, nm, ctor))
                                ops.append(f"{kind}:{nm}={tokv(v)}")
                                if kind == "A":
                                    setattr(t, nm, v)
                                else:
                                    t[nm] = v
                            elif kind == "V":
                                n = len(pnames) if rng.random() < 0.75 else rng.choice([0, 1, 2, 3, 4])
                                vs = [rng.choice(value_pool(cls, pnames[i] if i < len(pnames) else "lower", ctor)) for i in range(n)]
                                if rng.random() < 0.7:
                                    vs = [v if v == v else 0.3 for v in vs]
                                ops.append("V:" + C.flist(vs))
                                t.params.values = vs
                            elif kind == "R":
                                ops.append("R")
                                t.reset()
                            else:
                                P0 = {nm: v for nm, v in zip(pnames + cnames, before[0] + before[1])}
                                ok_state = all(fin(v) for v in before[0]) and all(fin(v) for v in before[1])
                                o_ = None
                                xs_ = [0.5, 2.0, -0.25]
                                if ok_state:
                                    try:
                                        o_ = G.Obj.wrap(G.Obj(T, cls, ctor, {}, False), t)
                                        xs_ = [v for v in G.x_inputs(cls, o_.P(), rng, 14) if fin(v)][:5] or xs_
                                    except Exception:  # noqa
                                        o_ = None
                                ops.append(f"{kind}:" + C.flist(xs_))
                                r = t.jacobian(np.array(xs_)) if kind == "J" else t.forward(np.array(xs_))
                                tame = all(abs(v) <= 1e12 for v in before[0] + before[1])
                                vals = ([float(v) for v in np.asarray(r, dtype=np.float64).ravel()], xs_,
                                        (o_.P() if (o_ is not None and tame) else None))   # None: values not compared here
                                if o_ is not None:
                                    # the same call once more through the main correspondence (condition-scaled tolerance
                                    # from the error-tracking instance, at the parameters the object holds NOW)
                                    compared(o_, "jac" if kind == "J" else "fwd", xs_, "store stream", inside=False)
                        steps.append(("values" if vals is not None else "done", snapshot(t), vals))
                    except ValueError as e:
                        after = snapshot(t)
                        same = all(a is b or (a is not None and b is not None and [C.f2h(v) for v in a] == [C.f2h(v) for v in b])
                                   for a, b in zip(before, after))
                        if not same:
                            ctx.disagree(f"{cls}: an operation that raised ValueError changed the stored parameters / constants",
                                         {"class": cls, "ctor": ctor, "op": ops[-1], "before": before, "after": after})
                        steps.append(("rej:" + classify(e), after, None))
                    except Exception as e:  # noqa
                        # not a ValueError (e.g. a TypeError out of numpy on +-inf parameters): outside what the object model
                        # describes - the history ends before this operation, which is only recorded
                        ctx.count(("store-exc", cls, it, len(ops)), False, f"store/{cls}/raised-{type(e).__name__}-not-compared")
                        ops.pop()
                        break
            hist_reqs.append(f"hist {cls} {ctok} {how} " + " ".join(ops))
            hist_checks.append((cls, ctor, how, ops, steps))
            ctx.count(("store", cls, it, how != "direct"), t is not None,
                      f"store/{cls}/" + ("get_transform" if via else "constructor") + ("" if t is not None else "/rejected"))

    # ---- dutils.cast itself, on the kinds of argument the model covers
    from hydrodiy.data import dutils as DU
    cast_reqs, cast_checks = [], []
    for it in range(ctx.scale(40, 200)):
        kind = rng.choice(["f64", "f64", "f32", "i64", "float"])
        shape = rng.choice([[3], [2, 2], [1, 4], [2, 1, 2], [1]]) if kind != "float" else rng.choice([[], [], [1], [2]])
        n = 1
        for d in shape:
            n *= d
        ys = [rng.uniform(-5, 5) for _ in range(n)]
        ydt = "f64"
        if kind == "float":
            x = 0.25
        else:
            x = np.zeros(shape, dtype={"f64": np.float64, "f32": np.float32, "i64": np.int64}[kind])
        yarr = np.array(ys, dtype=np.float64).reshape(shape)      # shape [] : a 0-d array
        if kind == "float" and shape == [] and rng.random() < 0.5:
            yarr = np.float64(ys[0])                               # a numpy scalar, as arithmetic on scalars returns
        try:
            with warnings.catch_warnings():
                warnings.simplefilter("ignore")
                r = DU.cast(x, yarr)
            if kind == "float":
                got = ("ok", "float" if type(r) is float else type(r).__name__, [], [float(r)])
            else:
                got = ("ok", {"float64": "f64", "float32": "f32", "int64": "i64"}.get(r.dtype.name, r.dtype.name),
                       list(r.shape), [float(v) for v in r.ravel()])
        except TypeError:
            got = ("err", "typeError", None, None)
        cast_reqs.append(f"cast {kind} {ydt} {C.ilist(shape)} {C.flist(ys)}")
        cast_checks.append((kind, shape, ys, got))
        ctx.count(("cast", kind, tuple(shape), it), got[0] == "ok", f"glue/cast/{kind}/" + got[0])

    # ---------------- correspondence: jacobian
    replies = ctx.lean.ask(reqs)
    for req, (status, payload, case, bcexp), rep in zip(reqs, checks, replies):
        toks = rep.split()
        cls = case["class"]
        op = case["op"]
        meth = "jacobian" if op == "jac" else "forward"
        if status == "err":
            impl = "err " + payload
            # the error KIND is compared when the ValueError's text is one the harness can classify; a reworded message
            # ("other:...") is still a ValueError: then only "the model rejects this input too" is compared
            unclassified = payload.startswith("other:")
            if not case.get("inside", True) and payload.startswith("exc:"):
                # outside the quantifier / excluded by a theorem hypothesis: an exception other than ValueError is recorded only
                ctx.count((req, "exc"), False, f"{cls}/{op}/outside-quantifier-raises-" + payload.split(":")[1])
                continue
            ctx.count((req,), False, f"{cls}/{op}/err:" + ("unclassified-ValueError" if unclassified else payload))
            if cls == "Softmax" and payload == "sumGe1" and rep.startswith("ok") and softmax_sum_edge(case["rows"]):
                stats["guard_edge_not_compared"] += 1
                ctx.count((req, "edge"), False, f"Softmax/{op}/guard-edge-rounding")
                continue
            if (not rep.startswith("err ")) if unclassified else (rep != impl):
                ctx.disagree(f"{cls}.{op}: implementation and model differ (error handling)",
                             {"request": case, "impl": impl, "model": rep})
            continue
        if cls == "Softmax" and rep == "err sumGe1" and softmax_sum_edge(case["rows"]):
            stats["guard_edge_not_compared"] += 1
            ctx.count((req, "edge"), False, f"Softmax/{op}/guard-edge-rounding")
            continue
        if toks[0] != "ok" or len(toks) != 4:
            ctx.count((req,), False, f"{cls}/{op}/model:{rep[:20]}")
            ctx.disagree(f"{cls}.{meth}: implementation returned values, model replied {rep[:60]}",
                         {"request": case, "impl": "ok", "model": rep})
            continue
        if bcexp is not None:
            # the model's inner state after the call must be the object's current parameters
            stt = C.parse_flist(toks[1])
            pcur = case["params"]
            if [C.f2h(v) for v in stt] != [C.f2h(pcur["nu"]), C.f2h(pcur["lam"])]:
                ctx.disagree(f"{cls}.{meth}: inner BoxCox2 state of the model differs from the object's parameters",
                             {"request": case, "impl": [pcur["nu"], pcur["lam"]], "model": stt})
        if cls == "Softmax":
            mv = [C.h2f(t) for rw in toks[2].strip("[]").split(";") for t in rw.split(",") if t]
            me = [C.h2f(t) for rw in toks[3].strip("[]").split(";") for t in rw.split(",") if t]
        else:
            mv, me = C.parse_flist(toks[2]), C.parse_flist(toks[3])
        iv = [float(v) for v in np.asarray(payload).ravel()]
        if len(iv) != len(mv):
            ctx.disagree(f"{cls}.{meth}: result shapes differ", {"request": case, "impl": len(iv), "model": len(mv)})
            continue
        bad = None
        pb = G.param_branch(cls, case["params"]) if "params" in case else ""
        ins = case.get("inputs")
        for k, (a, m, e) in enumerate(zip(iv, mv, me)):
            stats["elements"] += 1
            nontriv = fin(a)
            dom = G.in_domain(cls, op, case["params"], ins[k]) if ins is not None else True
            if ins is not None and ins[k] != ins[k]:
                dom = False          # a NaN input is not a point of the domain (e.g. Yeo-Johnson's nan**0 = 1 at lam = 1)
            if dom and ins is not None and op == "jac" and cls in ("Log",) + BOXCOX + ("BoxCox2sym",):
                # inside the guard (x + nu > mininu, mininu < 0) but outside the domain of the formula (x + nu <= 0):
                # whatever np.power / division give there is not constrained by the property
                pp = case["params"]
                sdom = (abs(ins[k]) if cls == "BoxCox2sym" else ins[k]) + pp["nu"]
                if fin(ins[k]) and pp["nu"] == pp["nu"] and not sdom > 0:
                    dom = False
            if dom is False:
                stats["outside_domain_not_compared"] += 1
                ctx.count((req, k), False, f"{cls}/{op}/outside-domain")
                continue
            ctx.count((req, k), nontriv, f"{cls}/{op}" + (f"/{pb}" if pb else "") + ("" if nontriv else "/nan-or-inf"),
                      sample=({"class": cls, "op": op, "params": case.get("params"),
                               "input": ins[k] if ins is not None else case.get("rows"),
                               "impl": a, "model": m, "bound": e} if (k == 3 and nontriv) else None))
            if a != a or m != m:
                if (a != a) != (m != m):
                    if ins is not None and near_guard(cls, case["params"], ins[k]):
                        stats["guard_edge_not_compared"] += 1
                        ctx.count((req, k, "edge"), False, f"{cls}/{op}/guard-edge-rounding")
                        continue
                    bad = (k, a, m, e)
                    break
                continue
            if a == m:
                continue
            if not fin(a) or not fin(m):
                if fin(e):
                    bad = (k, a, m, e)
                    break
                stats["unconstrained"] += 1
                continue
            if not fin(e):
                stats["unconstrained"] += 1
                continue
            if abs(a - m) <= 2 * e or C.ulp_diff(a, m) <= 4 or abs(a - m) <= 1e-12 * abs(m) or abs(a - m) <= SUBNORMAL_FLOOR:
                if e > 0 and abs(a - m) / e > stats["max_diff_over_bound"]:
                    stats["max_diff_over_bound"] = abs(a - m) / e
                continue
            bad = (k, a, m, e)
            break
        if bad is not None:
            k, a, m, e = bad
            ctx.disagree(f"{cls}.{meth}: implementation and model differ beyond the condition-scaled tolerance",
                         {"request": {**case, "element": k}, "impl": a, "model": m, "bound": e})

    # ---------------- correspondence: Softmax matrix of partial derivatives (model) vs finite differences (code)
    pd_replies = ctx.lean.ask(pd_reqs)
    for (row, Jfd, jrow, reliable), rep in zip(pd_checks, pd_replies):
        toks = rep.split()
        n = len(row)
        if toks[0] != "ok" or len(toks) != 4:
            ctx.disagree("Softmax partial derivatives: model replied " + rep[:60], {"row": row})
            continue
        mm = [[C.h2f(t) for t in rw.split(",") if t] for rw in toks[1].strip("[]").split(";")]
        mdet = C.parse_flist(toks[2])[0]
        mj = C.parse_flist(toks[3])[0]
        ok = len(mm) == n and all(len(r) == n for r in mm)
        worst = 0.0
        if ok:
            for i in range(n):
                for k in range(n):
                    if not reliable[i][k]:
                        ctx.count(("pd", tuple(row), i, k), False, "Softmax/partial-derivative/not-judged")
                        continue
                    stats["softmax_pd_entries"] += 1
                    ctx.count(("pd", tuple(row), i, k), True, "Softmax/partial-derivative" + ("/diagonal" if i == k else "/off-diagonal"))
                    a, m = float(Jfd[i][k]), mm[i][k]
                    rel = abs(a - m) / max(abs(a), abs(m))
                    worst = max(worst, rel)
        if not ok or worst > 1e-4:
            ctx.disagree("Softmax: the finite-difference partial derivatives of the real forward differ from the model's "
                         "matrix delta_ij/x_i + 1/(1-s) by more than 1e-4 relative",
                         {"row": row, "impl": Jfd.tolist(), "model": mm})
        # the model's own consistency at Float: Laplace determinant of its matrix = its jacRow (theorem: exact over R)
        if not (abs(mdet - mj) <= 1e-7 * abs(mj)):
            ctx.disagree("Softmax: Laplace determinant of the model's matrix of partial derivatives differs from the "
                         "model's jacRow at Float by more than 1e-7 relative", {"row": row, "det": mdet, "jacRow": mj})

    # ---------------- correspondence: store stream
    def loose_same(cls, op, P, x, a, m):
        """call values inside a history, answered by the model from ITS OWN state (Float, no error-tracking instance here):
        NaN pattern, sign and order of magnitude; not judged next to a guard edge or outside the domain of the formula.
        The same call is also queued for the main correspondence (condition-scaled tolerance)"""
        if P is None or not fin(x) or near_guard(cls, P, x):
            return True
        if G.in_domain(cls, op, P, x) is False:
            return True
        if op == "jac" and cls in ("Log",) + BOXCOX + ("BoxCox2sym",) and P["nu"] == P["nu"]:
            if not ((abs(x) if cls == "BoxCox2sym" else x) + P["nu"] > 0):
                return True
        if a != a or m != m:
            return (a != a) == (m != m)
        if a == m:
            return True
        if not fin(a) or not fin(m):
            return abs(a) > 1e300 and abs(m) > 1e300 and (a > 0) == (m > 0)
        if abs(a - m) <= 0.5 * max(abs(a), abs(m)) or abs(a - m) <= SUBNORMAL_FLOOR:
            return True          # same sign and order of magnitude: the precise comparison of this call is the main stream's
        if op == "fwd":
            # forward has cancelling formulas ((s^lam - 1)/lam, (exp(t) - 1)/lam near 0): the a-priori evaluation error
            try:
                err = float(np.ravel(fwd_abs_err(np, cls, P, np.array([x]), np.array([a])))[0])
            except Exception:  # noqa
                return False
            return fin(err) and abs(a - m) <= 4 * err
        return False

    hist_replies = ctx.lean.ask(hist_reqs)
    nsteps_compared = 0
    for req, (cls, ctor, how, ops, steps), rep in zip(hist_reqs, hist_checks, hist_replies):
        case = {"class": cls, "ctor": ctor, "how": how, "ops": ops}
        toks = rep.split()
        if steps[0][0].startswith("rej:"):
            kind = steps[0][0][4:]
            ctx.count((req, "ctor"), False, f"store/{cls}/constructor-rejects/" + ("unclassified" if kind.startswith("other:") else kind))
            if toks[0] != "err" or (not kind.startswith("other:") and toks[1:] != [kind]):
                ctx.disagree(f"{cls}: the constructor / get_transform raised ValueError ({kind}), the model replied {rep[:60]}", case)
            continue
        if toks[0] != "ok":
            ctx.disagree(f"{cls}: the constructor / get_transform returned an object, the model replied {rep[:60]}", case)
            continue
        msteps = [tk for tk in toks[1:] if not tk.startswith("final=")]
        if len(msteps) != len(steps):
            ctx.disagree(f"{cls}: history of {len(steps)} steps, the model replied {len(msteps)} steps", {**case, "model": rep[:200]})
            continue
        for k, ((st, snap, vals), mtok) in enumerate(zip(steps, msteps)):
            mst, mp, mc, mbc, mys = mtok.split(";")
            opk = ops[k - 1] if k > 0 else "construction"
            nsteps_compared += 1
            ctx.count((req, k), True, f"store/{cls}/" + (opk[0] if k > 0 else "new") + "/" + (st if not st.startswith("rej:other:") else "rej:unclassified"))
            where = {**case, "step": k, "op": opk}
            if st.startswith("rej:other:"):
                okst = mst.startswith("rej:")
            else:
                okst = st == mst
            if not okst:
                ctx.disagree(f"{cls}: outcome of an operation differs (implementation {st}, model {mst})", where)
                break
            ip, ic, ibc = snap
            if [C.f2h(v) for v in ip] != [t_ for t_ in mp.strip("[]").split(",") if t_] or \
                    [C.f2h(v) for v in ic] != [t_ for t_ in mc.strip("[]").split(",") if t_]:
                ctx.disagree(f"{cls}: stored parameters / constants after an operation differ from the model's",
                             {**where, "impl_params": ip, "impl_constants": ic, "model": mtok})
                break
            if (ibc is None) != (mbc == "-") or (ibc is not None and [C.f2h(v) for v in ibc] != [t_ for t_ in mbc.strip("[]").split(",") if t_]):
                ctx.disagree(f"{cls}: parameters of the inner BoxCox2 after an operation differ from the model's",
                             {**where, "impl_inner": ibc, "model": mtok})
                break
            if vals is not None:
                iv, xs_, P_ = vals
                mv = C.parse_flist(mys)
                opn = "jac" if opk.startswith("J") else "fwd"
                if len(iv) != len(mv) or not all(loose_same(cls, opn, P_, x, a, m) for x, a, m in zip(xs_, iv, mv)):
                    ctx.disagree(f"{cls}: values returned by a call inside a history differ from the model's (NaN pattern / sign / order of magnitude)",
                                 {**where, "inputs": xs_, "impl": iv, "model": mv, "params": P_})
                    break
    cast_replies = ctx.lean.ask(cast_reqs)
    for (kind, shape, ys, got), rep in zip(cast_checks, cast_replies):
        toks = rep.split()
        if got[0] == "err":
            same = toks[:2] == ["err", "typeError"]
        elif kind == "float":
            same = toks[:2] == ["ok", "float"] and got[1] == "float" and [C.f2h(v) for v in C.parse_flist(toks[2])] == [C.f2h(v) for v in got[3]]
        else:
            same = len(toks) == 5 and toks[:3] == ["ok", "arr", got[1]] and C.parse_list(toks[3]) == [str(d) for d in got[2]] and \
                [C.f2h(v) for v in C.parse_flist(toks[4])] == [C.f2h(v) for v in got[3]]
        if not same:
            ctx.disagree("dutils.cast: implementation and model differ", {"kind": kind, "shape": shape, "ys": ys,
                                                                         "impl": list(got), "model": rep})
    ctx.extra["store_stream_steps_compared"] = nsteps_compared

    ctx.extra["rule"] = __doc__.split("Cases:")[1].strip()
    ctx.extra["oracle"] = __doc__.split("Oracle")[1].split("Cases:")[0].strip()
    ctx.extra["stencil_points_judged"] = stats["stencil_judged"]
    ctx.extra["stencil_points_not_judged_noise_or_truncation"] = stats["stencil_not_judged"]
    ctx.extra["stencil_points_no_representable_fit"] = stats["stencil_no_fit"]
    ctx.extra["max_relative_difference_jacobian_vs_finite_difference"] = stats["max_rel_jac_vs_fd"]
    ctx.extra["positivity_points_checked"] = stats["positive_checked"]
    ctx.extra["ordered_pairs_checked"] = stats["pairs_checked"]
    ctx.extra["forward_finite_points_checked"] = stats["finite_checked"]
    ctx.extra["ordered_pairs_across_a_junction"] = stats["pairs_across_junction"]
    ctx.extra["softmax_determinants_judged"] = stats["softmax_det_judged"]
    ctx.extra["softmax_determinants_not_judged"] = stats["softmax_det_not_judged"]
    ctx.extra["softmax_partial_derivative_entries_compared"] = stats["softmax_pd_entries"]
    ctx.extra["unconstrained_elements"] = stats["unconstrained"]
    ctx.extra["outside_domain_not_compared"] = stats["outside_domain_not_compared"]
    ctx.extra["nan_pattern_differs_within_rounding_of_a_guard_edge_not_compared"] = stats["guard_edge_not_compared"]
    ctx.extra["max_impl_model_difference_over_bound"] = stats["max_diff_over_bound"]   # accepted up to 2
    ctx.assumptions += [
        "parameter values are read back from the object after assignment (clipping to bounds is C12's subject)",
        "numpy exp/log/power/sinh/arcsinh/tanh vs libm: compared within 1e-13 relative per call, propagated; floor 1e-12 "
        "relative (DEVGUIDE budget for transcendental kernels) so that an equivalent formula evaluated through log/exp agrees",
        "Softmax rows have at most 7 columns (numpy sums short rows left to right; longer rows use pairwise summation)",
        "inputs are 1-D float64 arrays (2-D for Softmax)",
        "the domain of `jacobian` is the set on which its np.where guard holds (x + nu > mininu, lower+EPS < x < upper-EPS, "
        "xn > -a/b + EPS, x > -nu); at x + nu <= mininu (e.g. x = 0 with nu at its lower bound) it returns NaN by design",
        "the theorems are over the reals: rounding is covered by this correspondence and by the oracle's tolerances only",
        "the finite-difference oracle judges a point only where its own truncation and rounding error are below 3e-5",
    ]


def main(tier, replay=None):
    return C.run_check(PID, tier, body, needs_native=False, replay=replay,
                       trusted=["numpy elementwise transcendental functions, np.sum/np.prod, numpy.linalg.det (external, compared by result)",
                                "libm (Lean Float functions, python math.exp/log)",
                                "IEEE rounding is modelled (Float instance), not verified: theorems are over the reals",
                                "harness/c01.py generators (configs, x_inputs, Obj), imported"])
