"""C04 — deterministic and categorical skill scores equal their definitions.

Model: lean/HydroVerif/Model/C04.lean; theorems: lean/HydroVerif/Props/C04.lean.
Correspondence: metrics.bias / nse / kge / corr(Pearson, mean|median) are called on the raw series with a
transform and excludenull; the model is fed trans.forward(series) (null pairs filtered by the model's own
`nonull` when excludenull) and must return the same value (Float instance, tolerance scaled by the conditioning of
the mean and of the variance; exact-rational instance for nse and bias). confusion_matrix and binary are compared
cell by cell / score by score.
Oracle (real code only): perfect simulation, mean simulation, nse<=1, kge<=1, affine / scale invariance,
excludenull == removal of incomplete pairs, confusion counts by brute force, binary scores from their
contingency definitions (Yule's Q for ORSS, harmonic mean for F1, cross-product odds ratio).
Cases: series of length 2..60 (quick) with obs mean/std kept away from 0 as the property requires; transforms
Identity, Log, BoxCox2, Reciprocal, Sinh at admissible parameters; NaN/inf scattered; category series over
2..6 categories with absent categories, ncat given or inferred; 2x2 tables with four positive counts,
exhaustive for counts 1..6 (quick) / 1..12 (thorough). Non-trivial = finite score, distinct input.
"""
import itertools
import math
import warnings
from fractions import Fraction

import numpy as np

from . import common as C

PID = "C04"
EPS = 1e-10


def cond_number(x):
    x = np.asarray(x, dtype=float)
    x = x[np.isfinite(x)]
    if len(x) == 0:
        return 1.0
    m = abs(np.mean(x))
    v = np.var(x)
    c1 = np.mean(np.abs(x)) / m if m > 0 else 1e300
    c2 = np.mean(x * x) / v if v > 0 else 1e300
    return max(1.0, c1, c2)


def sclose(a, b, cond, base=2e-11):
    if a is None or b is None:
        return a is None and b is None
    if a != a or b != b:
        return a != a and b != b
    tol = min(base * cond, 1e-5)
    return abs(a - b) <= tol * max(1.0, abs(a), abs(b))


def indep_forward(tname, tp, x):
    """the five transforms of the property's quantifier written from their mathematical definition, for the ORACLE only
    (the model is fed the real trans.forward; the oracle must not share a cache or any other state with the code)"""
    x = np.asarray(x, dtype=np.float64)
    with np.errstate(all="ignore"):
        if tname == "Identity":
            return x.copy()
        if tname == "Log":
            return np.log(x + tp["nu"])
        if tname == "BoxCox2":
            if abs(tp["lam"]) > 1e-10:
                return ((x + tp["nu"]) ** tp["lam"] - 1) / tp["lam"]
            return np.log(x + tp["nu"])
        if tname == "Reciprocal":
            return np.where(x > -tp["nu"], -1.0 / (tp["nu"] + x), np.nan)
        if tname == "Sinh":
            return np.arcsinh((x - tp["nu"]) * tp["scale"])
    raise ValueError(tname)


def midranks(x):
    """average ranks (1-based), computed independently of scipy"""
    x = list(x)
    return np.array([sum(1 for y in x if y < v) + (sum(1 for y in x if y == v) + 1) / 2.0 for v in x])


def gen_series(rng, n, positive):
    kind = rng.choice(["lognormal", "normal", "ramp", "ties", "small"])
    if kind == "lognormal":
        o = np.exp(np.array([rng.gauss(0, 1) for _ in range(n)])) * rng.choice([0.1, 1, 50])
    elif kind == "normal":
        o = np.array([rng.gauss(rng.choice([5, -7, 100]), rng.choice([1, 3])) for _ in range(n)])
    elif kind == "ramp":
        o = np.linspace(1, 1 + n, n) * rng.choice([0.5, 2.0, -1.0])
    elif kind == "ties":
        o = np.array([float(rng.choice([1, 2, 3, 5])) for _ in range(n)])
        if np.std(o) == 0:
            o[0] += 1
    else:
        o = np.array([rng.uniform(0.5, 1.5) for _ in range(n)])
    if positive:
        o = np.abs(o) + 0.05
    skind = rng.choice(["noise", "scaled", "shifted", "perfect", "anti", "const", "rounded"])
    if skind == "noise":
        s = o + np.array([rng.gauss(0, 0.5 * np.std(o) + 0.01) for _ in range(n)])
    elif skind == "scaled":
        s = o * rng.choice([0.5, 1.3, 2.0])
    elif skind == "shifted":
        s = o + rng.choice([-0.5, 0.3, 2.0]) * np.std(o)
    elif skind == "perfect":
        s = o.copy()
    elif skind == "anti":
        s = o[::-1].copy()
    elif skind == "rounded":
        s = np.round(o + np.array([rng.gauss(0, 0.3 * np.std(o) + 0.01) for _ in range(n)]), 0 if np.std(o) > 2 else 1)
        if np.std(s) == 0:
            s[0] += 1
    else:
        s = np.full(n, np.mean(o)) + np.array([rng.gauss(0, 1e-3) for _ in range(n)])
    if positive:
        s = np.abs(s) + 0.05
    return o, s, kind + "/" + skind


def well_conditioned(to):
    to = np.asarray(to, dtype=float)
    to = to[np.isfinite(to)]
    if len(to) < 2:
        return False
    m, sd = np.mean(to), np.std(to)
    scale = np.max(np.abs(to))
    return abs(m) > 1e-3 * scale and sd > 1e-3 * scale and scale < 1e12


def body(ctx):
    warnings.simplefilter("ignore")
    from hydrodiy.stat import metrics as metrics_real, transform

    class _Guard:
        """calls the real function on the harness's own arrays and, if the callee edited one of them in place, restores it
        afterwards and counts the edit.  "Arguments stay untouched" is C18's property; here a corrupted argument must not make
        the harness judge later calls on garbage, and aliasing effects INSIDE one call (nse(obs, obs)) stay visible."""
        edits = 0

        def __getattr__(self, name):
            f = getattr(metrics_real, name)
            if not callable(f):
                return f

            def g(*a, **k):
                snaps = [(x, x.copy()) for x in a if isinstance(x, np.ndarray)]
                try:
                    return f(*a, **k)
                finally:
                    for x, c in snaps:
                        if x.shape == c.shape and not np.array_equal(x, c, equal_nan=True):
                            try:
                                x[...] = c
                            except Exception:  # noqa
                                pass
                            _Guard.edits += 1
            return g

    metrics = _Guard()
    global EPS
    EPS = float(metrics.EPS)     # the guard threshold is read from the code under test, the model takes it as a parameter
    ctx.extra["EPS_read_from_source"] = EPS
    rng = ctx.rng
    lean = ctx.lean
    reqs, checks = [], []   # checks: (kind, impl_value, cond, case)

    def make_trans(name):
        if name == "Identity":
            return transform.Identity(), {}
        if name == "Log":
            p = {"nu": rng.choice([1e-10, 0.01, 1.0, 10.0])}
        elif name == "BoxCox2":
            p = {"nu": rng.choice([1e-10, 0.1, 2.0]), "lam": rng.choice([0.0, 0.2, 0.5, 1.0, 2.0])}
        elif name == "Reciprocal":
            p = {"nu": rng.choice([0.1, 1.0, 5.0])}
        else:  # Sinh
            p = {"nu": rng.choice([0.0, 0.5]), "scale": rng.choice([0.1, 1.0, 3.0])}
        return transform.get_transform(name, **p), p

    ncases = ctx.scale(900, 9000)
    for it in range(ncases):
        n = rng.choice([2, 3, 4, 5, 8, 13, 30, 60]) if not ctx.thorough else rng.randint(2, 300)
        tname = rng.choice(["Identity", "Identity", "Log", "BoxCox2", "Reciprocal", "Sinh"])
        positive = tname in ("Log", "BoxCox2", "Reciprocal")
        o, s, gkind = gen_series(rng, n, positive)
        # a common positive magnitude: the property's non-degeneracy condition is relative, so tiny and huge data count
        mag = rng.choice([1.0, 1.0, 1.0, 1e-6, 1e-4, 1e3, 1e5]) if rng.random() < 0.5 else 1.0
        if mag != 1.0:
            o, s, gkind = o * mag, s * mag, gkind + f"/x{mag:g}"
        trans, tp = make_trans(tname)
        excl = rng.random() < 0.5
        holes = []
        if excl and rng.random() < 0.8:
            for _ in range(rng.randint(1, max(1, n // 4))):
                which, pos = rng.choice(["o", "s"]), rng.randrange(n)
                val = rng.choice([np.nan, np.inf, -np.inf])
                if positive and val == -np.inf:
                    val = np.nan
                (o if which == "o" else s)[pos] = val
                holes.append((which, pos, repr(val)))
        to, ts = trans.forward(o), trans.forward(s)
        ok = np.isfinite(to) & np.isfinite(ts)
        if excl:
            fo, fs = to[ok], ts[ok]
        else:
            fo, fs = to, ts
        if len(fo) < 2 or not np.all(np.isfinite(fo)) or not np.all(np.isfinite(fs)) or not well_conditioned(fo):
            continue
        cond = max(cond_number(fo), cond_number(fs) if np.std(fs) > 0 else 1.0)
        case = {"obs": o.tolist(), "sim": s.tolist(), "trans": tname, "params": tp, "excludenull": excl,
                "gen": gkind, "holes": holes}
        so, ss = C.flist(to), C.flist(ts)
        sfo, sfs = C.flist(fo), C.flist(fs)
        # the model filters by itself when excludenull (checks __nonulldata), otherwise gets the full series
        if excl:
            reqs.append(f"nonull {so} {ss}")
            checks.append(("nonull", (fo.tolist(), fs.tolist()), cond, case))
        # the series is inside the quantifier here (>= 2 complete pairs, non-degenerate observations): a score that
        # raises instead of returning a number is a violation, not something to skip
        try:
            for nm_, fn_ in (("bias", lambda: metrics.bias(o, s, trans, excl)), ("nse", lambda: metrics.nse(o, s, trans, excl)),
                             ("kge", lambda: metrics.kge(o, s, trans, excl))):
                fn_()
        except Exception as e:  # noqa
            ctx.finding(f"{nm_}/raises_on_valid_series", f"{nm_} raises on a series with {len(fo)} complete pairs and non-degenerate observations",
                        {**case, "error": f"{type(e).__name__}: {e}"[:200], "complete_pairs": int(len(fo))})
            continue
        for ty, mty in (("standard", "std"), ("normalised", "norm"), ("log", "log")):
            v = metrics.bias(o, s, trans, excl, ty)
            reqs.append(f"bias {mty} {C.f2h(EPS)} {sfo} {sfs}")
            checks.append(("bias_" + mty, float(v), cond, case))
        v = metrics.nse(o, s, trans, excl)
        reqs.append(f"nse {sfo} {sfs}")
        checks.append(("nse", float(v), cond, case))
        if n <= 12:
            reqs.append(f"nseq [{','.join(C.rat(x) for x in fo)}] [{','.join(C.rat(x) for x in fs)}]")
            checks.append(("nseq", float(v), cond, case))
            vb = metrics.bias(o, s, trans, excl, "standard")
            reqs.append(f"biasq std {C.rat(EPS)} [{','.join(C.rat(x) for x in fo)}] [{','.join(C.rat(x) for x in fs)}]")
            checks.append(("biasq", float(vb), cond, case))
        vk = metrics.kge(o, s, trans, excl)
        reqs.append(f"kge {C.f2h(EPS)} {sfo} {sfs}")
        checks.append(("kge", float(vk), cond, case))
        ctx.count((tname, tuple(fo), tuple(fs), excl), bool(np.isfinite(v)), f"{tname}/excl={excl}",
                  sample={"obs": o[:6].tolist(), "sim": s[:6].tolist(), "trans": tname, "params": tp,
                          "excludenull": excl, "nse": float(v)})
        # corr with an ensemble and a statistic
        m = rng.choice([1, 2, 5])
        ens = np.column_stack([s + (0 if j == 0 else rng.gauss(0, 0.1)) * (np.nanstd(s[np.isfinite(s)]) + 0.01) for j in range(m)])
        if positive:
            ens = np.abs(ens) + 0.05
        stat = rng.choice(["mean", "median"])
        okrow = np.isfinite(o) | np.isinf(o)
        try:
            vc = metrics.corr(o, ens, trans, excl, stat=stat, type="Pearson")
            idx = ~np.isnan(o) & (~np.isnan(ens)).any(axis=1)
            to2 = trans.forward(o[idx])
            te2 = trans.forward(ens[idx, :])
            tsim = np.nanmean(te2, axis=1) if stat == "mean" else np.nanmedian(te2, axis=1)
            if excl:
                k2 = np.isfinite(to2) & np.isfinite(tsim)
                to2, tsim = to2[k2], tsim[k2]
            if len(to2) >= 2 and np.all(np.isfinite(to2)) and np.all(np.isfinite(tsim)) and well_conditioned(to2) \
                    and np.std(tsim) > 1e-6 * (abs(np.mean(tsim)) + 1e-300):
                reqs.append(f"corr {C.f2h(EPS)} {C.flist(to2)} {C.flist(tsim)}")
                checks.append(("corr", float(vc), max(cond_number(to2), cond_number(tsim)), {**case, "stat": stat, "nens": m}))
                # Spearman: Pearson correlation of the mid-ranks (ties matter)
                vs = metrics.corr(o, ens, trans, excl, stat=stat, type="Spearman")
                ro, rs = midranks(to2), midranks(tsim)
                if np.std(ro) > 0 and np.std(rs) > 0:
                    reqs.append(f"spearman {C.f2h(EPS)} {C.flist(to2)} {C.flist(tsim)}")
                    checks.append(("corr", float(vs), max(cond_number(ro), cond_number(rs)), {**case, "stat": stat, "nens": m, "type": "Spearman"}))
                    sdef = float(np.corrcoef(ro, rs)[0, 1])
                    if not abs(float(vs) - sdef) <= 1e-9:
                        ctx.finding("corr/spearman/not_definition", "Spearman correlation differs from the Pearson correlation of the average ranks",
                                    {**case, "stat": stat, "value": float(vs), "definition": sdef})
                    ctx.count(("spearman", tuple(to2), tuple(tsim)), True, "spearman/" + ("ties" if len(set(to2)) < len(to2) or len(set(tsim)) < len(tsim) else "no_ties"))
        except ValueError:
            pass

        # ---------------- the whole corr pipeline through the model (ensemble statistic per forecast with NaN members
        # skipped, forecasts without observation or without any member dropped, null filter, guard, coefficient)
        ens2 = ens.copy()
        if m > 1 and rng.random() < 0.5:
            for _ in range(rng.randint(1, 3)):
                ens2[rng.randrange(len(o)), rng.randrange(m)] = np.nan
        if rng.random() < 0.15:
            ens2[rng.randrange(len(o)), :] = np.nan
        u = rng.random()
        if u < 0.10:
            ens2[rng.randrange(len(o)), rng.randrange(m)] = np.inf     # not NaN: kept by nanmean/nanmedian, removed by the null filter only
        elif u < 0.14:
            ens2[:, :] = np.inf                                        # nothing valid is left after the null filter
        ctype = rng.choice(["Pearson", "Spearman"])
        stat2 = rng.choice(["mean", "median"])
        idx = ~np.isnan(o) & (~np.isnan(ens2)).any(axis=1)
        if idx.sum() >= 2:
            try:
                with warnings.catch_warnings():
                    warnings.simplefilter("ignore")
                    implr = float(metrics.corr(o, ens2, trans, excl, stat=stat2, type=ctype))
            except ValueError as e:
                implr = "err noValidData" if "No valid data" in str(e) else "err " + str(e)[:40]
            with np.errstate(all="ignore"), warnings.catch_warnings():
                warnings.simplefilter("ignore")
                to3 = trans.forward(o[idx])
                te3 = trans.forward(ens2[idx, :])
                ts3 = np.nanmean(te3, axis=1) if stat2 == "mean" else np.nanmedian(te3, axis=1)
            # rows: the statistic itself (bit-for-bit for the median, a few ulp for numpy's pairwise mean)
            r0 = rng.randrange(len(ts3))
            reqs.append(f"ensstat {stat2} {C.flist(te3[r0])}")
            checks.append(("ensstat", float(ts3[r0]), 1.0, {**case, "row": te3[r0].tolist(), "stat": stat2}))
            a3, b3 = to3, ts3
            if excl:
                k3 = np.isfinite(a3) & np.isfinite(b3)
                a3, b3 = a3[k3], b3[k3]
            clean = len(a3) >= 2 and np.all(np.isfinite(a3)) and np.all(np.isfinite(b3))
            if ctype == "Spearman" and clean:
                ra, rb = midranks(a3), midranks(b3)
                gate = np.std(ra) > 0 and np.std(rb) > 0 and well_conditioned(a3)
                c3 = max(cond_number(ra), cond_number(rb))
            elif clean:
                gate = well_conditioned(a3) and np.std(b3) > 1e-6 * (abs(np.mean(b3)) + 1e-300)
                c3 = max(cond_number(a3), cond_number(b3))
            else:
                # NaN/inf left in the series (no null filter): the answer is NaN whatever the rounding; an empty
                # filtered series is the "no valid data" error
                gate = (not excl and not np.all(np.isfinite(a3)) ) or (excl and len(a3) == 0)
                gate = gate or (not excl and np.all(np.isfinite(a3)) and not np.all(np.isfinite(b3)))
                c3 = 1.0
            if gate:
                reqs.append(f"corrfull {C.f2h(EPS)} {ctype} {stat2} {int(bool(excl))} {C.flist(to3)} {C.fmat(te3)}")
                checks.append(("corrfull", implr, c3, {**case, "stat": stat2, "type": ctype, "ens": ens2.tolist()}))
                ctx.count(("corrfull", ctype, stat2, bool(excl), tuple(to3), te3.tobytes()), clean,
                          "corrfull/" + ("value" if clean else "nan_or_error"))

        # ---------------- oracle on the real code (independent of the model)
        tol = min(1e-6, 1e-9 * cond)
        if not holes:
            vp = metrics.nse(o, o, trans, excl)
            if not abs(vp - 1) <= tol:
                ctx.finding("nse/perfect_not_1", "NSE of a perfect simulation is not 1", {**case, "value": float(vp)})
            bp = metrics.bias(o, o, trans, excl)
            if not abs(bp) <= tol:
                ctx.finding("bias/perfect_not_0", "bias of a perfect simulation is not 0", {**case, "value": float(bp)})
            kp = metrics.kge(o, o, trans, excl)
            if not abs(kp - 1) <= 1e-6:
                ctx.finding("kge/perfect_not_1", "KGE of a perfect simulation is not 1", {**case, "value": float(kp)})
            cp = metrics.corr(o, o, trans, excl, stat="mean")
            if not abs(cp - 1) <= 1e-9:
                ctx.finding("corr/perfect_not_1", "correlation of a perfect simulation is not 1", {**case, "value": float(cp)})
        if np.isfinite(v) and v > 1 + 1e-12:
            ctx.finding("nse/gt_1", "NSE exceeds 1", {**case, "value": float(v)})
        if np.isfinite(vk) and vk > 1 + 1e-12:
            ctx.finding("kge/gt_1", "KGE exceeds 1", {**case, "value": float(vk)})
        # definition, computed independently with exact rationals on the independently transformed, filtered series
        io, isim = indep_forward(tname, tp, o), indep_forward(tname, tp, s)
        iok = np.isfinite(io) & np.isfinite(isim)
        ifo, ifs = (io[iok], isim[iok]) if excl else (io, isim)
        if len(ifo) != len(fo) or not np.allclose(ifo, fo, rtol=1e-9, atol=0) or not np.allclose(ifs, fs, rtol=1e-9, atol=0):
            # trans.forward itself disagrees with the definition of the transform (stale state, wrong branch ...)
            ctx.finding(f"score/transformed_series_differs/{tname}", "trans.forward(series) used by the score differs from the transform's definition on this series",
                        {**case, "forward": [float(v) for v in fo[:5]], "definition": [float(v) for v in ifo[:5]]})
        fo_q, fs_q = [Fraction(float(x)) for x in ifo], [Fraction(float(x)) for x in ifs]
        mo = sum(fo_q) / len(fo_q)
        den = sum((x - mo) ** 2 for x in fo_q)
        if den != 0:
            nse_def = 1 - sum((a - b) ** 2 for a, b in zip(fs_q, fo_q)) / den
            if not sclose(float(v), float(nse_def), cond, 1e-10):
                ctx.finding("nse/not_definition" + ("/excludenull" if holes else ""),
                            "nse differs from 1 - SSE/SSO of the transformed (filtered) series",
                            {**case, "value": float(v), "definition": float(nse_def)})
            ms = sum(fs_q) / len(fs_q)
            b_def = (ms - mo) / mo
            vb = metrics.bias(o, s, trans, excl)
            if not sclose(float(vb), float(b_def), cond, 1e-10):
                ctx.finding("bias/not_definition" + ("/excludenull" if holes else ""),
                            "bias differs from (mean sim - mean obs)/mean obs of the transformed (filtered) series",
                            {**case, "value": float(vb), "definition": float(b_def)})
            if abs(mo) > EPS and ms + mo != 0:
                bn_def = float((ms - mo) / (ms + mo))
                vbn = float(metrics.bias(o, s, trans, excl, "normalised"))
                condn = cond * max(1.0, float(abs(ms) + abs(mo)) / float(abs(ms + mo)))
                if not sclose(vbn, bn_def, condn, 1e-10):
                    ctx.finding("bias/normalised/not_definition", "normalised bias differs from (ms - mo)/(ms + mo) of the transformed series",
                                {**case, "value": vbn, "definition": bn_def, "mean_obs": float(mo), "mean_sim": float(ms)})
            if float(mo) > EPS and float(ms) > EPS:
                bl_def = math.log(float(ms)) - math.log(float(mo))
                vbl = float(metrics.bias(o, s, trans, excl, "log"))
                if not sclose(vbl, bl_def, cond, 1e-10):
                    ctx.finding("bias/log/not_definition", "log bias differs from log(ms) - log(mo) of the transformed series",
                                {**case, "value": vbl, "definition": bl_def})
        if tname == "Identity" and not holes:
            # simulating the observed mean scores 0; invariances
            vm = metrics.nse(o, np.full(n, np.mean(o)))
            if not abs(vm) <= 1e-9 * cond:
                ctx.finding("nse/mean_sim_not_0", "NSE of the mean simulation is not 0", {**case, "value": float(vm)})
            a, b = rng.choice([-3.0, 0.5, 2.0]), rng.choice([-10.0, 0.0, 4.0]) * float(np.max(np.abs(o)))
            va = metrics.nse(a * o + b, a * s + b)
            if np.isfinite(v) and not sclose(float(va), float(v), cond * (1 + abs(b) / (float(np.max(np.abs(o))) or 1.0)), 1e-9):
                ctx.finding("nse/not_affine_invariant", "NSE changes under a common affine map", {**case, "a": a, "b": b, "values": [float(v), float(va)]})
            c = rng.choice([0.25, 3.0, 1000.0])
            for ty in ("standard", "normalised", "log"):
                b1, b2 = metrics.bias(o, s, type=ty), metrics.bias(c * o, c * s, type=ty)
                # the guards of the code compare with an ABSOLUTE EPS: a scaled series may fall under it (NaN + warning);
                # which series are "degenerate" for the code is compared with the model, not judged here
                if np.isfinite(b1) and np.isfinite(b2) and not sclose(float(b1), float(b2), cond, 1e-9):
                    ctx.finding(f"bias/{ty}/not_scale_invariant", "bias changes under a common positive scaling", {**case, "c": c, "values": [float(b1), float(b2)]})
            k2 = metrics.kge(c * o, c * s)
            if np.isfinite(vk) and np.isfinite(k2) and not sclose(float(vk), float(k2), cond, 1e-8):
                ctx.finding("kge/not_scale_invariant", "KGE changes under a common positive scaling", {**case, "c": c, "values": [float(vk), float(k2)]})

    # ---------------- state history: the same arrays are edited IN PLACE between two scorings with the same transform object
    for it in range(ctx.scale(150, 1500)):
        n = rng.choice([3, 8, 20])
        tname = rng.choice(["Identity", "Identity", "Log", "BoxCox2", "Sinh"])
        positive = tname in ("Log", "BoxCox2")
        o, s, gkind = gen_series(rng, n, positive)
        trans, tp = (None, {}) if (tname == "Identity" and rng.random() < 0.5) else make_trans(tname)
        kw = {} if trans is None else {"trans": trans}      # None: the functions' own default (a shared Identity instance)
        try:
            first = [float(metrics.nse(o, s, **kw)), float(metrics.bias(o, s, **kw)), float(metrics.kge(o, s, **kw))]
            # edit in place: the array objects stay the same, their content changes
            o *= rng.choice([0.5, 2.0, 3.0])
            o += (rng.choice([0.0, 1.0]) if not positive else 0.25)
            s[:] = o if rng.random() < 0.5 else s[::-1].copy()
            second = [float(metrics.nse(o, s, **kw)), float(metrics.bias(o, s, **kw)), float(metrics.kge(o, s, **kw))]
        except Exception as e:  # noqa
            ctx.finding("score/history/raises", "scoring raises after an in-place edit of the series", {"trans": tname, "params": tp, "error": f"{type(e).__name__}: {e}"[:200]})
            continue
        io, isim = indep_forward(tname, tp, o), indep_forward(tname, tp, s)
        if not (np.all(np.isfinite(io)) and np.all(np.isfinite(isim)) and well_conditioned(io)):
            continue
        mo_, den = float(np.mean(io)), float(np.sum((io - np.mean(io)) ** 2))
        nse_def = 1 - float(np.sum((isim - io) ** 2)) / den
        b_def = (float(np.mean(isim)) - mo_) / mo_
        cond = max(cond_number(io), cond_number(isim) if np.std(isim) > 0 else 1.0)
        ctx.count(("history", tname, tuple(o), tuple(s)), True, "history/inplace_edit")
        if not sclose(second[0], nse_def, cond, 1e-9) or not sclose(second[1], b_def, cond, 1e-9):
            ctx.finding("score/history/stale_after_inplace_edit", "after editing the series in place, the score is not that of the edited series",
                        {"trans": tname, "params": tp, "obs": o.tolist(), "sim": s.tolist(), "nse": second[0], "nse_definition": nse_def,
                         "bias": second[1], "bias_definition": b_def, "before_edit": first})

    # ---------------- level-like data: the mean is much larger than the spread (still inside the quantifier: the
    # standard deviation is more than 1e-6 of the level).  One-pass formulas cancel catastrophically here, the
    # definitions evaluated on centred data do not: the real code, the model and the definition agree to ~1e-13.
    for it in range(ctx.scale(200, 2000)):
        n = rng.choice([2, 3, 5, 8, 13, 30, 60])
        z = np.array([rng.gauss(0, 1) for _ in range(n)])
        if np.std(z) < 0.2:
            z[0] += 1.0
        zs = rng.choice([z.copy(), z + np.array([rng.gauss(0, 0.5) for _ in range(n)]), 0.5 * z, z[::-1].copy()])
        tname = rng.choice(["Identity", "Identity", "Log"])
        if tname == "Identity":
            lev = rng.choice([1e3, 1e4, 1e5, 3e5]) * rng.choice([1, -1])
            o, sm, tp = lev + z, lev + zs, {}
            trans = transform.Identity()
        else:
            # flows of order 1 under a log with a large shift: the transformed series is log(nu) + x/nu + ...
            tp = {"nu": rng.choice([2e3, 2e4, 1e5])}
            o, sm = np.abs(z) + 0.1, np.abs(zs) + 0.1
            trans = transform.get_transform("Log", **tp)
        to, ts = trans.forward(o), trans.forward(sm)
        if np.std(to) <= 3e-6 * abs(np.mean(to)) or np.std(ts) <= 3e-6 * abs(np.mean(ts)):
            continue
        case = {"obs": o.tolist(), "sim": sm.tolist(), "trans": tname, "params": tp, "excludenull": False, "gen": "level"}
        lvl = abs(np.mean(to)) / np.std(to)
        with warnings.catch_warnings():
            warnings.simplefilter("ignore")
            vk, vn = float(metrics.kge(o, sm, trans)), float(metrics.nse(o, sm, trans))
            vc = float(metrics.corr(o, sm, trans, stat="mean"))
            kp, np_, cp = float(metrics.kge(o, o, trans)), float(metrics.nse(o, o, trans)), float(metrics.corr(o, o, trans, stat="mean"))
            nm = float(metrics.nse(o, trans.backward(np.full(n, np.mean(to))), trans)) if tname == "Identity" else 0.0
        reqs.append(f"kge {C.f2h(EPS)} {C.flist(to)} {C.flist(ts)}")
        checks.append(("level", vk, 1.0, case))
        reqs.append(f"nse {C.flist(to)} {C.flist(ts)}")
        checks.append(("level", vn, 1.0, case))
        reqs.append(f"corr {C.f2h(EPS)} {C.flist(to)} {C.flist(ts)}")
        checks.append(("level", vc, 1.0, case))
        ctx.count(("level", tname, tuple(to), tuple(ts)), True, "level/" + tname, sample={"level_over_std": float(lvl), **{k: case[k] for k in ("trans", "params")}})
        for nm_, v, want in (("kge", kp, 1.0), ("nse", np_, 1.0), ("corr", cp, 1.0), ("nse_mean_sim", nm, 0.0)):
            if not abs(v - want) <= 1e-9:
                ctx.finding(f"{nm_.split('_')[0]}/perfect_not_{want:g}" if nm_ != "nse_mean_sim" else "nse/mean_sim_not_0",
                            f"{nm_}: a perfect simulation (or the observed mean) does not score {want:g} on level-like data",
                            {**case, "value": v, "level_over_std": float(lvl)})
        # definition on centred data (independent of the code and of the model)
        co, cs = to - np.mean(to), ts - np.mean(ts)
        rdef = float(np.sum(co * cs) / math.sqrt(np.sum(co * co) * np.sum(cs * cs)))
        kdef = 1 - math.sqrt((1 - np.mean(ts) / np.mean(to)) ** 2 + (1 - math.sqrt(np.sum(cs * cs) / np.sum(co * co))) ** 2 + (1 - rdef) ** 2)
        ndef = 1 - float(np.sum((to - ts) ** 2) / np.sum(co * co))
        for nm_, v, want in (("kge", vk, kdef), ("nse", vn, ndef), ("corr", vc, rdef)):
            if not abs(v - want) <= 1e-9 * max(1.0, abs(want)):
                ctx.finding(f"{nm_}/not_definition_on_level_data", f"{nm_} differs from its definition on level-like data",
                            {**case, "value": v, "definition": want, "level_over_std": float(lvl)})

    # ---------------- confusion matrix
    for it in range(ctx.scale(500, 5000)):
        ncat_true = rng.randint(2, 6)
        n = rng.choice([1, 2, 3, 5, 10, 40])
        present_o = rng.sample(range(ncat_true), rng.randint(1, ncat_true))
        present_s = rng.sample(range(ncat_true), rng.randint(1, ncat_true))
        obs = [rng.choice(present_o) for _ in range(n)]
        sim = [rng.choice(present_s) for _ in range(n)]
        given = rng.random() < 0.5
        ncat = ncat_true if given else None
        cm = metrics.confusion_matrix(obs, sim, ncat)
        rows, cols = [int(x) for x in cm.index.values], [int(x) for x in cm.columns.values]
        cells = "[" + ";".join(",".join(str(int(v)) for v in r) for r in cm.values) + "]"
        nc_model = ncat_true if given else (max(obs + sim) + 1)
        impl = f"{nc_model} {C.ilist(rows)} {C.ilist(cols)} {cells}"
        reqs.append(f"conf {C.ilist(obs)} {C.ilist(sim)} {ncat if given else '-'}")
        case = {"obs": obs, "sim": sim, "ncat": ncat}
        checks.append(("conf", impl, 1.0, case))
        ctx.count(("conf", tuple(obs), tuple(sim), ncat), n > 1, "confusion/" + ("given" if given else "inferred"))
        # oracle: every pair counted once in a table of the requested size
        size = nc_model
        want = [[sum(1 for a, b in zip(obs, sim) if a == i and b == j) for j in range(size)] for i in range(size)]
        got = cm.values.tolist()
        if rows != list(range(size)) or cols != list(range(size)) or [[int(v) for v in r] for r in got] != want:
            ctx.finding("confusion/" + ("given" if given else "inferred") + "/pairs_not_counted_once",
                        "confusion matrix is not the table of pair counts over categories 0..ncat-1",
                        {**case, "rows": rows, "cols": cols, "cells": got})

    # ---------------- binary scores
    top = ctx.scale(6, 12)
    tables = list(itertools.product(range(1, top + 1), repeat=4))
    tables = tables + [tuple(rng.randint(1, 10 ** rng.randint(1, 7)) for _ in range(4)) for _ in range(ctx.scale(600, 3000))]
    for (tn, fp, fn, tp) in tables:
        how = rng.choice(["list", "int64", "int32", "frame"])
        table = [[tn, fp], [fn, tp]]
        if how == "int64":
            table = np.array(table, dtype=np.int64)
        elif how == "int32":
            table = np.array(table, dtype=np.int32)
        elif how == "frame":
            import pandas as pd
            table = pd.DataFrame(table)
        try:
            sc, _ = metrics.binary(table)
        except Exception as e:  # noqa
            ctx.finding("binary/raises", "binary() raises on a 2x2 table with four positive counts",
                        {"table": [[tn, fp], [fn, tp]], "given_as": how, "error": f"{type(e).__name__}: {e}"})
            continue
        vals = [sc[k] for k in ("bias", "hitrate", "precision", "falsealarm", "accuracy", "F1", "MCC", "LOR", "ORSS")]
        reqs.append("binary " + " ".join(C.f2h(x) for x in (tn, fp, fn, tp)))
        case = {"table": [[tn, fp], [fn, tp]], "given_as": how}
        checks.append(("binary", [float(x) for x in vals], 1.0, case))
        ctx.count(("binary", tn, fp, fn, tp), True, "binary/theta" + ("<1" if tp * tn < fp * fn else "=1" if tp * tn == fp * fn else ">1"))
        q = lambda a, b: float(Fraction(a, b))
        defs = {"bias": q(tp + fp, tp + fn), "hitrate": q(tp, tp + fn), "precision": q(tp, tp + fp),
                "falsealarm": q(fp, fp + tn), "accuracy": q(tp + tn, tp + tn + fp + fn), "F1": q(2 * tp, 2 * tp + fp + fn),
                "MCC": (tp * tn - fp * fn) / math.sqrt((tp + fp) * (tp + fn) * (tn + fp) * (tn + fn)),
                "LOR": math.log(tp * tn / (fp * fn)), "ORSS": q(tp * tn - fp * fn, tp * tn + fp * fn)}
        for k, d in defs.items():
            val = float(sc[k])
            if not (abs(val - d) <= 1e-9 * max(1.0, abs(d))):
                ctx.finding(f"binary/{k}/not_definition", f"binary score {k} differs from its contingency-table definition",
                            {**case, "value": val, "definition": d})

    # ---------------- correspondence
    replies = lean.ask(reqs)
    for req, rep, (kind, impl, cond, case) in zip(reqs, replies, checks):
        ok = True
        if kind == "nonull":
            a, b = rep.split(" ")
            ok = C.parse_flist(a) == impl[0] and C.parse_flist(b) == impl[1]
        elif kind in ("nseq", "biasq"):
            if rep in ("degenerate", "none"):
                ok = not math.isfinite(impl) or kind == "biasq"
            else:
                r = rep.replace("some ", "")
                ok = sclose(impl, float(Fraction(r)), cond, 1e-11)
        elif kind.startswith("bias_") or kind in ("kge", "corr"):
            mv = None if rep == "none" else C.h2f(rep.split(" ")[1])
            iv = None if impl != impl else impl
            ok = sclose(iv, mv, cond, 2e-10 if kind != "kge" else 2e-9)
        elif kind == "ensstat":
            mv = None if rep == "none" else C.h2f(rep.split(" ")[1])
            iv = None if impl != impl else impl
            row = np.asarray(case["row"], dtype=float)
            row = row[np.isfinite(row)]
            ok = (iv is None and mv is None) or (iv is not None and mv is not None and (
                (iv == mv) or (math.isinf(iv) or math.isinf(mv)) and (iv == mv or (iv != iv and mv != mv)) or
                abs(iv - mv) <= 8 * 2.2e-16 * (np.mean(np.abs(row)) if len(row) else 1.0)))
        elif kind == "corrfull":
            if isinstance(impl, str):
                ok = rep == impl
            else:
                mv = None if rep == "none" else (C.h2f(rep.split(" ")[1]) if rep.startswith("some") else "?")
                iv = None if impl != impl else impl
                ok = mv != "?" and sclose(iv, mv, cond, 2e-10)
        elif kind == "level":
            mv = C.h2f(rep.split(" ")[-1]) if rep != "none" else float("nan")
            ok = (impl != impl and mv != mv) or abs(impl - mv) <= 1e-9 * max(1.0, abs(mv))
        elif kind == "nse":
            ok = sclose(impl, C.h2f(rep), cond)
        elif kind == "conf":
            ok = rep == impl
        elif kind == "binary":
            mv = [C.h2f(t) for t in rep.split(" ")]
            (tn, fp), (fn, tp) = case["table"]
            # 1-H and 1-F are formed by subtraction: the odds ratio (hence LOR, ORSS) is conditioned by the smallest rate
            amp = 1.0 / min(tp / (tp + fn), fn / (tp + fn), fp / (fp + tn), tn / (fp + tn))
            ok = all(C.close(a, b, rel=1e-12) for a, b in zip(impl[:7], mv[:7])) and \
                all(C.close(a, b, rel=4e-15 * amp, abs_=4e-15 * amp) for a, b in zip(impl[7:], mv[7:]))
        if not ok:
            ctx.disagree(f"C04/{kind}: implementation and model differ",
                         {"request": req[:2000], "impl": impl, "model": rep[:2000], **case})
    ctx.extra["arguments_edited_in_place_by_the_code_and_restored"] = _Guard.edits
    ctx.extra["rule"] = __doc__.split("Cases:")[1].strip()
    ctx.assumptions += ["numpy mean/std/corrcoef, pandas.crosstab, scipy spearmanr are external (Spearman = Pearson correlation of the model's mid-ranks)",
                        "floating-point rounding: tolerance 2e-11 x conditioning (capped at 1e-5) between numpy's pairwise sums and the model's sequential sums"]


def main(tier, replay=None):
    return C.run_check(PID, tier, body, replay=replay,
                       trusted=["numpy mean/std/corrcoef/nanmean/nanmedian, pandas.crosstab (external)",
                                "transform.forward is taken from the real code (its own properties are C01/C02)"])
