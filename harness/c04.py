"""C04 — deterministic and categorical skill scores equal their definitions.

Model: lean/HydroVerif/Model/C04.lean; theorems: lean/HydroVerif/Props/C04.lean.
Correspondence:
 * closed forms: metrics.bias / nse / kge / corr are called on the raw series with a transform and excludenull; the model is fed
   trans.forward(series) (null pairs filtered by the model's own `nonull` when excludenull) and must return the same value (Float
   instance, tolerance scaled by the conditioning of the mean and of the variance; exact-rational instance for nse and bias);
 * whole functions (`biasfull`, `nsefull`, `kgefull`, `corrraw`): the model gets the RAW arguments and applies the transform model
   of C01/C02 itself, then the argument checks, orientation, __check_ensemble_data, null filter, guards, closed form; values and
   error kinds are compared, also on degenerate observations, magnitudes under the guards' absolute threshold, NaN/inf without
   excludenull, lengths 0/1, mismatched lengths, [p,n] ensembles, unknown stat / type, type="censored";
 * confusion_matrix cell by cell (labels outside 0..ncat-1 too), binary score by score, binary() on tables it rejects
   (shape, zero cells), the route series -> confusion_matrix(ncat=2) -> binary;
 * histories: tables and score dictionaries HELD by the caller are re-read after every later call and after the caller's own
   edits of other results; the model runs the same operation list (`hrun`);
 * rounded carrier: the model's formulas in float32 arithmetic (`Rnd Float r32`), bit-for-bit against a float32 reference,
   and the `_rnd` theorems' claims (exact 1 / 0, bounds) are checked on it.
Oracle (real code only): perfect simulation (NSE exactly 1, bias exactly 0), mean simulation, nse<=1 and kge<=1 without
tolerance, affine / scale invariance, excludenull == removal of incomplete pairs, series stored as [n] or [n,1], corr of a
series given as [n] / [n,1] / one-member ensemble, confusion counts by brute force (also for tables held while others are
computed), binary scores from their contingency definitions (Yule's Q for ORSS, harmonic mean for F1, cross-product odds
ratio), proportions in [0,1], ORSS in [-1,1].
Cases: series of length 2..60 (quick) with obs mean/std kept away from 0 as the property requires; transforms
Identity, Log, BoxCox2, Reciprocal, Sinh at admissible parameters; NaN/inf scattered; category series over
2..6 categories with absent categories, ncat given or inferred; 2x2 tables with four positive counts,
exhaustive for counts 1..6 (quick) / 1..12 (thorough). Non-trivial = finite score, distinct input.
"""
import itertools
import math
import warnings
from fractions import Fraction

import numpy as np

from . import common as C

PID = "C04"
EPS = 1e-10


def cond_number(x):
    x = np.asarray(x, dtype=float)
    x = x[np.isfinite(x)]
    if len(x) == 0:
        return 1.0
    m = abs(np.mean(x))
    v = np.var(x)
    c1 = np.mean(np.abs(x)) / m if m > 0 else 1e300
    c2 = np.mean(x * x) / v if v > 0 else 1e300
    return max(1.0, c1, c2)


def sclose(a, b, cond, base=2e-11):
    if a is None or b is None:
        return a is None and b is None
    if a != a or b != b:
        return a != a and b != b
    tol = min(base * cond, 1e-5)
    return abs(a - b) <= tol * max(1.0, abs(a), abs(b))


def indep_forward(tname, tp, x):
    """the five transforms of the property's quantifier written from their mathematical definition, for the ORACLE only
    (the model is fed the real trans.forward; the oracle must not share a cache or any other state with the code)"""
    x = np.asarray(x, dtype=np.float64)
    with np.errstate(all="ignore"):
        if tname == "Identity":
            return x.copy()
        if tname == "Log":
            return np.log(x + tp["nu"])
        if tname == "BoxCox2":
            if abs(tp["lam"]) > 1e-10:
                return ((x + tp["nu"]) ** tp["lam"] - 1) / tp["lam"]
            return np.log(x + tp["nu"])
        if tname == "Reciprocal":
            return np.where(x > -tp["nu"], -1.0 / (tp["nu"] + x), np.nan)
        if tname == "Sinh":
            return np.arcsinh((x - tp["nu"]) * tp["scale"])
    raise ValueError(tname)


def midranks(x):
    """average ranks (1-based), computed independently of scipy"""
    x = list(x)
    return np.array([sum(1 for y in x if y < v) + (sum(1 for y in x if y == v) + 1) / 2.0 for v in x])


def nse_float32(o, s):
    """1 - SSE/SSO in float32 arithmetic, operations in the order of the model (right folds): the reference for the model's
    rounded carrier `Rnd Float r32`"""
    f = np.float32
    with np.errstate(all="ignore"):
        o, s = [f(x) for x in o], [f(x) for x in s]
        def sum_r(xs):
            acc = f(0)
            for x in reversed(xs):
                acc = x + acc
            return acc
        mo = sum_r(o) / f(len(o))
        sse = sum_r([(b - a) * (b - a) for a, b in zip(o, s)])
        sso = sum_r([(mo - a) * (mo - a) for a in o])
        return float(f(1) - sse / sso)


def gen_series(rng, n, positive):
    kind = rng.choice(["lognormal", "normal", "ramp", "ties", "small"])
    if kind == "lognormal":
        o = np.exp(np.array([rng.gauss(0, 1) for _ in range(n)])) * rng.choice([0.1, 1, 50])
    elif kind == "normal":
        o = np.array([rng.gauss(rng.choice([5, -7, 100]), rng.choice([1, 3])) for _ in range(n)])
    elif kind == "ramp":
        o = np.linspace(1, 1 + n, n) * rng.choice([0.5, 2.0, -1.0])
    elif kind == "ties":
        o = np.array([float(rng.choice([1, 2, 3, 5])) for _ in range(n)])
        if np.std(o) == 0:
            o[0] += 1
    else:
        o = np.array([rng.uniform(0.5, 1.5) for _ in range(n)])
    if positive:
        o = np.abs(o) + 0.05
    skind = rng.choice(["noise", "scaled", "shifted", "perfect", "anti", "const", "rounded"])
    if skind == "noise":
        s = o + np.array([rng.gauss(0, 0.5 * np.std(o) + 0.01) for _ in range(n)])
    elif skind == "scaled":
        s = o * rng.choice([0.5, 1.3, 2.0])
    elif skind == "shifted":
        s = o + rng.choice([-0.5, 0.3, 2.0]) * np.std(o)
    elif skind == "perfect":
        s = o.copy()
    elif skind == "anti":
        s = o[::-1].copy()
    elif skind == "rounded":
        s = np.round(o + np.array([rng.gauss(0, 0.3 * np.std(o) + 0.01) for _ in range(n)]), 0 if np.std(o) > 2 else 1)
        if np.std(s) == 0:
            s[0] += 1
    else:
        s = np.full(n, np.mean(o)) + np.array([rng.gauss(0, 1e-3) for _ in range(n)])
    if positive:
        s = np.abs(s) + 0.05
    return o, s, kind + "/" + skind


def well_conditioned(to):
    to = np.asarray(to, dtype=float)
    to = to[np.isfinite(to)]
    if len(to) < 2:
        return False
    m, sd = np.mean(to), np.std(to)
    scale = np.max(np.abs(to))
    return abs(m) > 1e-3 * scale and sd > 1e-3 * scale and scale < 1e12


def body(ctx):
    warnings.simplefilter("ignore")
    from hydrodiy.stat import metrics as metrics_real, transform

    class _Guard:
        """calls the real function on the harness's own arrays and, if the callee edited one of them in place, restores it
        afterwards and counts the edit.  "Arguments stay untouched" is C18's property; here a corrupted argument must not make
        the harness judge later calls on garbage, and aliasing effects INSIDE one call (nse(obs, obs)) stay visible."""
        edits = 0

        def __getattr__(self, name):
            f = getattr(metrics_real, name)
            if not callable(f):
                return f

            def g(*a, **k):
                snaps = [(x, x.copy()) for x in a if isinstance(x, np.ndarray)]
                try:
                    return f(*a, **k)
                finally:
                    for x, c in snaps:
                        if x.shape == c.shape and not np.array_equal(x, c, equal_nan=True):
                            try:
                                x[...] = c
                            except Exception:  # noqa
                                pass
                            _Guard.edits += 1
            return g

    metrics = _Guard()
    global EPS
    EPS = float(metrics.EPS)     # the guard threshold is read from the code under test, the model takes it as a parameter
    ctx.extra["EPS_read_from_source"] = EPS
    rng = ctx.rng
    lean = ctx.lean
    reqs, checks = [], []   # checks: (kind, impl_value, cond, case)

    def make_trans(name):
        if name == "Identity":
            return transform.Identity(), {}
        if name == "Log":
            p = {"nu": rng.choice([1e-10, 0.01, 1.0, 10.0])}
        elif name == "BoxCox2":
            p = {"nu": rng.choice([1e-10, 0.1, 2.0]), "lam": rng.choice([0.0, 0.2, 0.5, 1.0, 2.0])}
        elif name == "Reciprocal":
            p = {"nu": rng.choice([0.1, 1.0, 5.0])}
        else:  # Sinh
            p = {"nu": rng.choice([0.0, 0.5]), "scale": rng.choice([0.1, 1.0, 3.0])}
        return transform.get_transform(name, **p), p

    def ttoken(tname, tp):
        if tname == "Identity":
            return "Identity"
        if tname == "Log":
            return f"Log:{C.f2h(tp['nu'])}"
        if tname == "BoxCox2":
            return f"BoxCox2:{C.f2h(tp['nu'])}:{C.f2h(tp['lam'])}"
        if tname == "Reciprocal":
            return f"Reciprocal:{C.f2h(tp['nu'])}"
        return f"Sinh:{C.f2h(tp['nu'])}:{C.f2h(tp['scale'])}"

    def outcome(fn):
        """what a call of the real code gives: a float, "nan", or the kind of error raised"""
        try:
            with warnings.catch_warnings(), np.errstate(all="ignore"):
                warnings.simplefilter("ignore")
                v = float(fn())
        except ValueError as e:
            m = str(e)
            if "No valid data" in m:
                return "err novalid"
            if "Expected sim with dim" in m or "Expected ens with first dim" in m:
                return "err shape"
            if "Expected type in" in m:
                return "err type"
            if "Expected stat in" in m:
                return "err stat"
            if "Expected confusion matrix of shape" in m:
                return "err shape"
            return "err other ValueError " + m[:60]
        except ZeroDivisionError:
            return "err zerodiv"
        except Exception as e:  # noqa
            return f"err other {type(e).__name__} {str(e)[:60]}"
        return "nan" if v != v else v

    def same_value(a, b):
        return (a == b) or (a != a and b != b)

    import time as _time
    _t = [_time.time()]
    ctx.extra["section_wall_s"] = {}

    def lap(name):
        now = _time.time()
        ctx.extra["section_wall_s"][name] = round(now - _t[0], 1)
        _t[0] = now

    ncases = ctx.scale(900, 9000)
    for it in range(ncases):
        n = rng.choice([2, 3, 4, 5, 8, 13, 30, 60]) if not ctx.thorough else rng.randint(2, 300)
        tname = rng.choice(["Identity", "Identity", "Log", "BoxCox2", "Reciprocal", "Sinh"])
        positive = tname in ("Log", "BoxCox2", "Reciprocal")
        o, s, gkind = gen_series(rng, n, positive)
        # a common positive magnitude: the property's non-degeneracy condition is relative, so tiny and huge data count
        mag = rng.choice([1.0, 1.0, 1.0, 1e-6, 1e-4, 1e3, 1e5]) if rng.random() < 0.5 else 1.0
        if mag != 1.0:
            o, s, gkind = o * mag, s * mag, gkind + f"/x{mag:g}"
        trans, tp = make_trans(tname)
        excl = rng.random() < 0.5
        holes = []
        if excl and rng.random() < 0.8:
            for _ in range(rng.randint(1, max(1, n // 4))):
                which, pos = rng.choice(["o", "s"]), rng.randrange(n)
                val = rng.choice([np.nan, np.inf, -np.inf])
                if positive and val == -np.inf:
                    val = np.nan
                (o if which == "o" else s)[pos] = val
                holes.append((which, pos, repr(val)))
        to, ts = trans.forward(o), trans.forward(s)
        ok = np.isfinite(to) & np.isfinite(ts)
        if excl:
            fo, fs = to[ok], ts[ok]
        else:
            fo, fs = to, ts
        if len(fo) < 2 or not np.all(np.isfinite(fo)) or not np.all(np.isfinite(fs)) or not well_conditioned(fo):
            continue
        cond = max(cond_number(fo), cond_number(fs) if np.std(fs) > 0 else 1.0)
        case = {"obs": o.tolist(), "sim": s.tolist(), "trans": tname, "params": tp, "excludenull": excl,
                "gen": gkind, "holes": holes}
        so, ss = C.flist(to), C.flist(ts)
        sfo, sfs = C.flist(fo), C.flist(fs)
        # the model filters by itself when excludenull (checks __nonulldata), otherwise gets the full series
        if excl:
            reqs.append(f"nonull {so} {ss}")
            checks.append(("nonull", (fo.tolist(), fs.tolist()), cond, case))
        # the series is inside the quantifier here (>= 2 complete pairs, non-degenerate observations): a score that
        # raises instead of returning a number is a violation, not something to skip
        try:
            for nm_, fn_ in (("bias", lambda: metrics.bias(o, s, trans, excl)), ("nse", lambda: metrics.nse(o, s, trans, excl)),
                             ("kge", lambda: metrics.kge(o, s, trans, excl))):
                fn_()
        except Exception as e:  # noqa
            ctx.finding(f"{nm_}/raises_on_valid_series", f"{nm_} raises on a series with {len(fo)} complete pairs and non-degenerate observations",
                        {**case, "error": f"{type(e).__name__}: {e}"[:200], "complete_pairs": int(len(fo))})
            continue
        for ty, mty in (("standard", "std"), ("normalised", "norm"), ("log", "log")):
            v = metrics.bias(o, s, trans, excl, ty)
            reqs.append(f"bias {mty} {C.f2h(EPS)} {sfo} {sfs}")
            checks.append(("bias_" + mty, float(v), cond, case))
        v = metrics.nse(o, s, trans, excl)
        reqs.append(f"nse {sfo} {sfs}")
        checks.append(("nse", float(v), cond, case))
        if n <= 12:
            reqs.append(f"nseq [{','.join(C.rat(x) for x in fo)}] [{','.join(C.rat(x) for x in fs)}]")
            checks.append(("nseq", float(v), cond, case))
            vb = metrics.bias(o, s, trans, excl, "standard")
            reqs.append(f"biasq std {C.rat(EPS)} [{','.join(C.rat(x) for x in fo)}] [{','.join(C.rat(x) for x in fs)}]")
            checks.append(("biasq", float(vb), cond, case))
        vk = metrics.kge(o, s, trans, excl)
        reqs.append(f"kge {C.f2h(EPS)} {sfo} {sfs}")
        checks.append(("kge", float(vk), cond, case))
        ctx.count((tname, tuple(fo), tuple(fs), excl), bool(np.isfinite(v)), f"{tname}/excl={excl}",
                  sample={"obs": o[:6].tolist(), "sim": s[:6].tolist(), "trans": tname, "params": tp,
                          "excludenull": excl, "nse": float(v)})
        # the whole functions through the model: raw series + the transform model of C01/C02 + null filter + guards
        tok = ttoken(tname, tp)
        for ty in ("standard", "normalised", "log"):
            reqs.append(f"biasfull {ty} {C.f2h(EPS)} {tok} {int(excl)} {C.flist(o)} {C.flist(s)}")
            checks.append(("full", outcome(lambda: metrics.bias(o, s, trans, excl, ty)), cond, {**case, "fn": "bias", "type": ty}))
        reqs.append(f"nsefull {tok} {int(excl)} {C.flist(o)} {C.flist(s)}")
        checks.append(("full", outcome(lambda: metrics.nse(o, s, trans, excl)), cond, {**case, "fn": "nse"}))
        reqs.append(f"kgefull {C.f2h(EPS)} {tok} {int(excl)} {C.flist(o)} {C.flist(s)}")
        checks.append(("full", outcome(lambda: metrics.kge(o, s, trans, excl)), 10 * cond, {**case, "fn": "kge"}))
        # a series may be stored as a [n] or as a [n,1] array (docstrings of bias / nse / kge): the score is that of the series
        lay = rng.choice(["obs", "sim", "both"])
        oa = o[:, None] if lay in ("obs", "both") else o
        sa = s[:, None] if lay in ("sim", "both") else s
        for nm_, f_ in (("bias", metrics.bias), ("nse", metrics.nse), ("kge", metrics.kge)):
            vflat, vlay = outcome(lambda: f_(o, s, trans, excl)), outcome(lambda: f_(oa, sa, trans, excl))
            if isinstance(vlay, str) != isinstance(vflat, str) or (isinstance(vlay, str) and vlay != vflat) \
                    or (not isinstance(vlay, str) and not same_value(vlay, vflat)):
                ctx.finding(f"{nm_}/series_as_column_array_differs", f"{nm_} of series stored as [n,1] arrays is not the score of the series",
                            {**case, "column_arrays": lay, "value": vlay, "value_flat": vflat})
        ctx.count(("layout", lay, tname, tuple(fo), tuple(fs)), True, "layout/column_" + lay)
        # the model's formulas on the rounded carrier (float32 arithmetic): the `_rnd` theorems are statements about this instance
        if float(np.max(np.abs(fo))) < 1e15 and float(np.max(np.abs(fs))) < 1e15 and np.std(np.float32(fo)) > 0:
            ctx.count(("rnd32", tuple(fo), tuple(fs)), True, "rounded_carrier/float32" + ("/with_reference" if len(fo) <= 13 else ""))
            reqs.append(f"nse32 {sfo} {sfs}")
            checks.append(("rnd32", ("nse", nse_float32(fo, fs) if len(fo) <= 13 else None), 1.0, case))
            reqs.append(f"nse32 {sfo} {sfo}")
            checks.append(("rnd32", ("nse_perfect", None), 1.0, case))
            reqs.append(f"kge32 {C.f2h(EPS)} {sfo} {sfs}")
            checks.append(("rnd32", ("kge", None), 1.0, case))
            reqs.append(f"bias32 std {C.f2h(EPS)} {sfo} {sfo}")
            checks.append(("rnd32", ("bias_perfect", None), 1.0, case))
            if float(np.min(fo)) >= 0 and float(np.min(fs)) >= 0:
                reqs.append(f"bias32 norm {C.f2h(EPS)} {sfo} {sfs}")
                checks.append(("rnd32", ("bias_norm_range", None), 1.0, case))
        # corr with an ensemble and a statistic
        m = rng.choice([1, 2, 5])
        ens = np.column_stack([s + (0 if j == 0 else rng.gauss(0, 0.1)) * (np.nanstd(s[np.isfinite(s)]) + 0.01) for j in range(m)])
        if positive:
            ens = np.abs(ens) + 0.05
        stat = rng.choice(["mean", "median"])
        okrow = np.isfinite(o) | np.isinf(o)
        try:
            vc = metrics.corr(o, ens, trans, excl, stat=stat, type="Pearson")
            idx = ~np.isnan(o) & (~np.isnan(ens)).any(axis=1)
            to2 = trans.forward(o[idx])
            te2 = trans.forward(ens[idx, :])
            tsim = np.nanmean(te2, axis=1) if stat == "mean" else np.nanmedian(te2, axis=1)
            if excl:
                k2 = np.isfinite(to2) & np.isfinite(tsim)
                to2, tsim = to2[k2], tsim[k2]
            if len(to2) >= 2 and np.all(np.isfinite(to2)) and np.all(np.isfinite(tsim)) and well_conditioned(to2) \
                    and np.std(tsim) > 1e-6 * (abs(np.mean(tsim)) + 1e-300):
                reqs.append(f"corr {C.f2h(EPS)} {C.flist(to2)} {C.flist(tsim)}")
                checks.append(("corr", float(vc), max(cond_number(to2), cond_number(tsim)), {**case, "stat": stat, "nens": m}))
                # definition: Pearson correlation of the transformed observations with the statistic taken ACROSS THE MEMBERS
                # (axis 1) of the transformed ensemble
                pdef = float(np.corrcoef(to2, tsim)[0, 1])
                if not sclose(float(vc), pdef, max(cond_number(to2), cond_number(tsim)), 1e-10):
                    ctx.finding("corr/pearson/not_definition", "Pearson correlation differs from the correlation of the observations with the per-forecast statistic of the ensemble",
                                {**case, "stat": stat, "ens": ens.tolist(), "value": float(vc), "definition": pdef})
                # Spearman: Pearson correlation of the mid-ranks (ties matter)
                vs = metrics.corr(o, ens, trans, excl, stat=stat, type="Spearman")
                ro, rs = midranks(to2), midranks(tsim)
                if np.std(ro) > 0 and np.std(rs) > 0:
                    reqs.append(f"spearman {C.f2h(EPS)} {C.flist(to2)} {C.flist(tsim)}")
                    checks.append(("corr", float(vs), max(cond_number(ro), cond_number(rs)), {**case, "stat": stat, "nens": m, "type": "Spearman"}))
                    sdef = float(np.corrcoef(ro, rs)[0, 1])
                    if not abs(float(vs) - sdef) <= 1e-9:
                        ctx.finding("corr/spearman/not_definition", "Spearman correlation differs from the Pearson correlation of the average ranks",
                                    {**case, "stat": stat, "value": float(vs), "definition": sdef})
                    ctx.count(("spearman", tuple(to2), tuple(tsim)), True, "spearman/" + ("ties" if len(set(to2)) < len(to2) or len(set(tsim)) < len(tsim) else "no_ties"))
        except ValueError:
            pass

        # ---------------- the whole corr pipeline through the model (ensemble statistic per forecast with NaN members
        # skipped, forecasts without observation or without any member dropped, null filter, guard, coefficient)
        ens2 = ens.copy()
        if m > 1 and rng.random() < 0.5:
            for _ in range(rng.randint(1, 3)):
                ens2[rng.randrange(len(o)), rng.randrange(m)] = np.nan
        if rng.random() < 0.15:
            ens2[rng.randrange(len(o)), :] = np.nan
        u = rng.random()
        if u < 0.10:
            ens2[rng.randrange(len(o)), rng.randrange(m)] = np.inf     # not NaN: kept by nanmean/nanmedian, removed by the null filter only
        elif u < 0.14:
            ens2[:, :] = np.inf                                        # nothing valid is left after the null filter
        ctype = rng.choice(["Pearson", "Spearman"])
        stat2 = rng.choice(["mean", "median"])
        idx = ~np.isnan(o) & (~np.isnan(ens2)).any(axis=1)
        if idx.sum() >= 2:
            try:
                with warnings.catch_warnings():
                    warnings.simplefilter("ignore")
                    implr = float(metrics.corr(o, ens2, trans, excl, stat=stat2, type=ctype))
            except ValueError as e:
                implr = "err noValidData" if "No valid data" in str(e) else "err " + str(e)[:40]
            with np.errstate(all="ignore"), warnings.catch_warnings():
                warnings.simplefilter("ignore")
                to3 = trans.forward(o[idx])
                te3 = trans.forward(ens2[idx, :])
                ts3 = np.nanmean(te3, axis=1) if stat2 == "mean" else np.nanmedian(te3, axis=1)
            # rows: the statistic itself (bit-for-bit for the median, a few ulp for numpy's pairwise mean)
            r0 = rng.randrange(len(ts3))
            reqs.append(f"ensstat {stat2} {C.flist(te3[r0])}")
            checks.append(("ensstat", float(ts3[r0]), 1.0, {**case, "row": te3[r0].tolist(), "stat": stat2}))
            a3, b3 = to3, ts3
            if excl:
                k3 = np.isfinite(a3) & np.isfinite(b3)
                a3, b3 = a3[k3], b3[k3]
            clean = len(a3) >= 2 and np.all(np.isfinite(a3)) and np.all(np.isfinite(b3))
            if ctype == "Spearman" and clean:
                ra, rb = midranks(a3), midranks(b3)
                gate = np.std(ra) > 0 and np.std(rb) > 0 and well_conditioned(a3)
                c3 = max(cond_number(ra), cond_number(rb))
            elif clean:
                gate = well_conditioned(a3) and np.std(b3) > 1e-6 * (abs(np.mean(b3)) + 1e-300)
                c3 = max(cond_number(a3), cond_number(b3))
            else:
                # NaN/inf left in the series (no null filter): the answer is NaN whatever the rounding; an empty
                # filtered series is the "no valid data" error
                gate = (not excl and not np.all(np.isfinite(a3)) ) or (excl and len(a3) == 0)
                gate = gate or (not excl and np.all(np.isfinite(a3)) and not np.all(np.isfinite(b3)))
                c3 = 1.0
            if gate:
                reqs.append(f"corrfull {C.f2h(EPS)} {ctype} {stat2} {int(bool(excl))} {C.flist(to3)} {C.fmat(te3)}")
                checks.append(("corrfull", implr, c3, {**case, "stat": stat2, "type": ctype, "ens": ens2.tolist()}))
                ctx.count(("corrfull", ctype, stat2, bool(excl), tuple(to3), te3.tobytes()), clean,
                          "corrfull/" + ("value" if clean else "nan_or_error"))

        # ---------------- oracle on the real code (independent of the model)
        tol = min(1e-6, 1e-9 * cond)
        if not holes:
            vp = metrics.nse(o, o, trans, excl)
            # exactly 1, exactly 0: every error of a perfect simulation is the float 0 (nse_perfect_rnd, bias_perfect_rnd)
            if not vp == 1.0:
                ctx.finding("nse/perfect_not_1", "NSE of a perfect simulation is not 1", {**case, "value": float(vp)})
            bp = metrics.bias(o, o, trans, excl)
            if not bp == 0.0:
                ctx.finding("bias/perfect_not_0", "bias of a perfect simulation is not 0", {**case, "value": float(bp)})
            kp = metrics.kge(o, o, trans, excl)
            if not abs(kp - 1) <= 1e-6:
                ctx.finding("kge/perfect_not_1", "KGE of a perfect simulation is not 1", {**case, "value": float(kp)})
            cp = metrics.corr(o, o, trans, excl, stat="mean")
            if not abs(cp - 1) <= 1e-9:
                ctx.finding("corr/perfect_not_1", "correlation of a perfect simulation is not 1", {**case, "value": float(cp)})
        # no tolerance: the bounds survive rounding (nse_le_one_rnd, kge_le_one_rnd)
        if np.isfinite(v) and v > 1:
            ctx.finding("nse/gt_1", "NSE exceeds 1", {**case, "value": float(v)})
        if np.isfinite(vk) and vk > 1:
            ctx.finding("kge/gt_1", "KGE exceeds 1", {**case, "value": float(vk)})
        # definition, computed independently with exact rationals on the independently transformed, filtered series
        io, isim = indep_forward(tname, tp, o), indep_forward(tname, tp, s)
        iok = np.isfinite(io) & np.isfinite(isim)
        ifo, ifs = (io[iok], isim[iok]) if excl else (io, isim)
        if len(ifo) != len(fo) or not np.allclose(ifo, fo, rtol=1e-9, atol=0) or not np.allclose(ifs, fs, rtol=1e-9, atol=0):
            # trans.forward itself disagrees with the definition of the transform (stale state, wrong branch ...)
            ctx.finding(f"score/transformed_series_differs/{tname}", "trans.forward(series) used by the score differs from the transform's definition on this series",
                        {**case, "forward": [float(v) for v in fo[:5]], "definition": [float(v) for v in ifo[:5]]})
        if holes:
            # the clause itself, on the real code: excludenull=True is excludenull=False on the series without the incomplete
            # pairs (which pairs are incomplete is decided with the independent transform); and the same statement on the model
            # (biasFull_excl / nseFull_excl / kgeFull_excl run by the driver on this input)
            o_r, s_r = o[iok], s[iok]
            for nm_, f_ in (("bias", metrics.bias), ("nse", metrics.nse), ("kge", metrics.kge)):
                a_, b_ = outcome(lambda: f_(o, s, trans, True)), outcome(lambda: f_(o_r, s_r, trans, False))
                if isinstance(a_, str) != isinstance(b_, str) or (isinstance(a_, str) and a_ != b_) or \
                        (not isinstance(a_, str) and not (same_value(a_, b_) or abs(a_ - b_) <= 1e-13 * max(1.0, abs(a_)))):
                    ctx.finding(f"{nm_}/excludenull_differs_from_removed_pairs", f"{nm_} with excludenull is not {nm_} of the series with the incomplete pairs removed",
                                {**case, "with_excludenull": a_, "removed_pairs": b_, "obs_removed": o_r.tolist(), "sim_removed": s_r.tolist()})
            reqs.append(f"exclremoved {C.f2h(EPS)} {ttoken(tname, tp)} {C.flist(o)} {C.flist(s)}")
            checks.append(("exclremoved", (o_r.tolist(), s_r.tolist()), 1.0, case))
            ctx.count(("exclremoved", tname, tuple(o), tuple(s)), True, "excludenull/removed_pairs")
        fo_q, fs_q = [Fraction(float(x)) for x in ifo], [Fraction(float(x)) for x in ifs]
        mo = sum(fo_q) / len(fo_q)
        den = sum((x - mo) ** 2 for x in fo_q)
        if den != 0:
            nse_def = 1 - sum((a - b) ** 2 for a, b in zip(fs_q, fo_q)) / den
            if not sclose(float(v), float(nse_def), cond, 1e-10):
                ctx.finding("nse/not_definition" + ("/excludenull" if holes else ""),
                            "nse differs from 1 - SSE/SSO of the transformed (filtered) series",
                            {**case, "value": float(v), "definition": float(nse_def)})
            ms = sum(fs_q) / len(fs_q)
            b_def = (ms - mo) / mo
            vb = metrics.bias(o, s, trans, excl)
            if not sclose(float(vb), float(b_def), cond, 1e-10):
                ctx.finding("bias/not_definition" + ("/excludenull" if holes else ""),
                            "bias differs from (mean sim - mean obs)/mean obs of the transformed (filtered) series",
                            {**case, "value": float(vb), "definition": float(b_def)})
            if abs(mo) > EPS and ms + mo != 0:
                bn_def = float((ms - mo) / (ms + mo))
                vbn = float(metrics.bias(o, s, trans, excl, "normalised"))
                condn = cond * max(1.0, float(abs(ms) + abs(mo)) / float(abs(ms + mo)))
                if not sclose(vbn, bn_def, condn, 1e-10):
                    ctx.finding("bias/normalised/not_definition", "normalised bias differs from (ms - mo)/(ms + mo) of the transformed series",
                                {**case, "value": vbn, "definition": bn_def, "mean_obs": float(mo), "mean_sim": float(ms)})
            if float(mo) > EPS and float(ms) > EPS:
                bl_def = math.log(float(ms)) - math.log(float(mo))
                vbl = float(metrics.bias(o, s, trans, excl, "log"))
                if not sclose(vbl, bl_def, cond, 1e-10):
                    ctx.finding("bias/log/not_definition", "log bias differs from log(ms) - log(mo) of the transformed series",
                                {**case, "value": vbl, "definition": bl_def})
        if tname == "Identity" and not holes:
            # simulating the observed mean scores 0; invariances
            vm = metrics.nse(o, np.full(n, np.mean(o)))
            if not abs(vm) <= 1e-9 * cond:
                ctx.finding("nse/mean_sim_not_0", "NSE of the mean simulation is not 0", {**case, "value": float(vm)})
            a, b = rng.choice([-3.0, 0.5, 2.0]), rng.choice([-10.0, 0.0, 4.0]) * float(np.max(np.abs(o)))
            va = metrics.nse(a * o + b, a * s + b)
            if np.isfinite(v) and not sclose(float(va), float(v), cond * (1 + abs(b) / (float(np.max(np.abs(o))) or 1.0)), 1e-9):
                ctx.finding("nse/not_affine_invariant", "NSE changes under a common affine map", {**case, "a": a, "b": b, "values": [float(v), float(va)]})
            c = rng.choice([0.25, 3.0, 1000.0])
            for ty in ("standard", "normalised", "log"):
                b1, b2 = metrics.bias(o, s, type=ty), metrics.bias(c * o, c * s, type=ty)
                # the guards of the code compare with an ABSOLUTE EPS: a scaled series may fall under it (NaN + warning);
                # which series are "degenerate" for the code is compared with the model, not judged here
                if np.isfinite(b1) and np.isfinite(b2) and not sclose(float(b1), float(b2), cond, 1e-9):
                    ctx.finding(f"bias/{ty}/not_scale_invariant", "bias changes under a common positive scaling", {**case, "c": c, "values": [float(b1), float(b2)]})
            k2 = metrics.kge(c * o, c * s)
            if np.isfinite(vk) and np.isfinite(k2) and not sclose(float(vk), float(k2), cond, 1e-8):
                ctx.finding("kge/not_scale_invariant", "KGE changes under a common positive scaling", {**case, "c": c, "values": [float(vk), float(k2)]})

    # ---------------- state history: the same arrays are edited IN PLACE between two scorings with the same transform object
    lap("main_series")
    for it in range(ctx.scale(150, 1500)):
        n = rng.choice([3, 8, 20])
        tname = rng.choice(["Identity", "Identity", "Log", "BoxCox2", "Sinh"])
        positive = tname in ("Log", "BoxCox2")
        o, s, gkind = gen_series(rng, n, positive)
        trans, tp = (None, {}) if (tname == "Identity" and rng.random() < 0.5) else make_trans(tname)
        kw = {} if trans is None else {"trans": trans}      # None: the functions' own default (a shared Identity instance)
        try:
            first = [float(metrics.nse(o, s, **kw)), float(metrics.bias(o, s, **kw)), float(metrics.kge(o, s, **kw))]
            # edit in place: the array objects stay the same, their content changes
            o *= rng.choice([0.5, 2.0, 3.0])
            o += (rng.choice([0.0, 1.0]) if not positive else 0.25)
            s[:] = o if rng.random() < 0.5 else s[::-1].copy()
            second = [float(metrics.nse(o, s, **kw)), float(metrics.bias(o, s, **kw)), float(metrics.kge(o, s, **kw))]
        except Exception as e:  # noqa
            ctx.finding("score/history/raises", "scoring raises after an in-place edit of the series", {"trans": tname, "params": tp, "error": f"{type(e).__name__}: {e}"[:200]})
            continue
        io, isim = indep_forward(tname, tp, o), indep_forward(tname, tp, s)
        if not (np.all(np.isfinite(io)) and np.all(np.isfinite(isim)) and well_conditioned(io)):
            continue
        mo_, den = float(np.mean(io)), float(np.sum((io - np.mean(io)) ** 2))
        nse_def = 1 - float(np.sum((isim - io) ** 2)) / den
        b_def = (float(np.mean(isim)) - mo_) / mo_
        cond = max(cond_number(io), cond_number(isim) if np.std(isim) > 0 else 1.0)
        ctx.count(("history", tname, tuple(o), tuple(s)), True, "history/inplace_edit")
        if not sclose(second[0], nse_def, cond, 1e-9) or not sclose(second[1], b_def, cond, 1e-9):
            ctx.finding("score/history/stale_after_inplace_edit", "after editing the series in place, the score is not that of the edited series",
                        {"trans": tname, "params": tp, "obs": o.tolist(), "sim": s.tolist(), "nse": second[0], "nse_definition": nse_def,
                         "bias": second[1], "bias_definition": b_def, "before_edit": first})

    # ---------------- level-like data: the mean is much larger than the spread (still inside the quantifier: the
    # standard deviation is more than 1e-6 of the level).  One-pass formulas cancel catastrophically here, the
    # definitions evaluated on centred data do not: the real code, the model and the definition agree to ~1e-13.
    lap("inplace_history")
    for it in range(ctx.scale(200, 2000)):
        n = rng.choice([2, 3, 5, 8, 13, 30, 60])
        z = np.array([rng.gauss(0, 1) for _ in range(n)])
        if np.std(z) < 0.2:
            z[0] += 1.0
        zs = rng.choice([z.copy(), z + np.array([rng.gauss(0, 0.5) for _ in range(n)]), 0.5 * z, z[::-1].copy()])
        tname = rng.choice(["Identity", "Identity", "Log"])
        if tname == "Identity":
            lev = rng.choice([1e3, 1e4, 1e5, 3e5]) * rng.choice([1, -1])
            o, sm, tp = lev + z, lev + zs, {}
            trans = transform.Identity()
        else:
            # flows of order 1 under a log with a large shift: the transformed series is log(nu) + x/nu + ...
            tp = {"nu": rng.choice([2e3, 2e4, 1e5])}
            o, sm = np.abs(z) + 0.1, np.abs(zs) + 0.1
            trans = transform.get_transform("Log", **tp)
        to, ts = trans.forward(o), trans.forward(sm)
        if np.std(to) <= 3e-6 * abs(np.mean(to)) or np.std(ts) <= 3e-6 * abs(np.mean(ts)):
            continue
        case = {"obs": o.tolist(), "sim": sm.tolist(), "trans": tname, "params": tp, "excludenull": False, "gen": "level"}
        lvl = abs(np.mean(to)) / np.std(to)
        with warnings.catch_warnings():
            warnings.simplefilter("ignore")
            vk, vn = float(metrics.kge(o, sm, trans)), float(metrics.nse(o, sm, trans))
            vc = float(metrics.corr(o, sm, trans, stat="mean"))
            kp, np_, cp = float(metrics.kge(o, o, trans)), float(metrics.nse(o, o, trans)), float(metrics.corr(o, o, trans, stat="mean"))
            nm = float(metrics.nse(o, trans.backward(np.full(n, np.mean(to))), trans)) if tname == "Identity" else 0.0
        reqs.append(f"kge {C.f2h(EPS)} {C.flist(to)} {C.flist(ts)}")
        checks.append(("level", vk, 1.0, case))
        reqs.append(f"nse {C.flist(to)} {C.flist(ts)}")
        checks.append(("level", vn, 1.0, case))
        reqs.append(f"corr {C.f2h(EPS)} {C.flist(to)} {C.flist(ts)}")
        checks.append(("level", vc, 1.0, case))
        ctx.count(("level", tname, tuple(to), tuple(ts)), True, "level/" + tname, sample={"level_over_std": float(lvl), **{k: case[k] for k in ("trans", "params")}})
        for nm_, v, want in (("kge", kp, 1.0), ("nse", np_, 1.0), ("corr", cp, 1.0), ("nse_mean_sim", nm, 0.0)):
            if not abs(v - want) <= 1e-9:
                ctx.finding(f"{nm_.split('_')[0]}/perfect_not_{want:g}" if nm_ != "nse_mean_sim" else "nse/mean_sim_not_0",
                            f"{nm_}: a perfect simulation (or the observed mean) does not score {want:g} on level-like data",
                            {**case, "value": v, "level_over_std": float(lvl)})
        # definition on centred data (independent of the code and of the model)
        co, cs = to - np.mean(to), ts - np.mean(ts)
        rdef = float(np.sum(co * cs) / math.sqrt(np.sum(co * co) * np.sum(cs * cs)))
        kdef = 1 - math.sqrt((1 - np.mean(ts) / np.mean(to)) ** 2 + (1 - math.sqrt(np.sum(cs * cs) / np.sum(co * co))) ** 2 + (1 - rdef) ** 2)
        ndef = 1 - float(np.sum((to - ts) ** 2) / np.sum(co * co))
        for nm_, v, want in (("kge", vk, kdef), ("nse", vn, ndef), ("corr", vc, rdef)):
            if not abs(v - want) <= 1e-9 * max(1.0, abs(want)):
                ctx.finding(f"{nm_}/not_definition_on_level_data", f"{nm_} differs from its definition on level-like data",
                            {**case, "value": v, "definition": want, "level_over_std": float(lvl)})

    # ---------------- the whole functions on everything they accept or reject: degenerate observations (guards), NaN/inf with and
    # without excludenull, values the transform maps to NaN, lengths 0/1, mismatched lengths, unknown type/stat.  Only the
    # model is compared here (which series the code calls degenerate, which error it raises); the oracle stays silent
    # outside the property's quantifier.
    def punch(x, positive, nu):
        k = rng.randrange(len(x))
        # (-inf is outside the domain of the positive transforms and numpy's power(-inf, 0.5) is not C's pow there: C01's business)
        x[k] = rng.choice([np.nan, np.nan, np.inf, -(nu or 0.0) - rng.choice([0.0, 1.0])]) if positive \
            else rng.choice([np.nan, np.nan, np.inf, -np.inf])

    lap("level_data")
    for it in range(ctx.scale(700, 7000)):
        n = rng.choice([0, 1, 2, 3, 4, 5, 8, 20])
        tname = rng.choice(["Identity", "Identity", "Log", "BoxCox2", "Reciprocal", "Sinh"])
        positive = tname in ("Log", "BoxCox2", "Reciprocal")
        o, sm, gkind = gen_series(rng, max(n, 2), positive)
        o, sm = o[:n].copy(), sm[:n].copy()
        trans, tp = make_trans(tname)
        shape = rng.choice(["ok"] * 6 + ["const_obs", "const_sim", "zero_mean", "tiny", "tiny"])
        if n >= 2:
            if shape == "const_obs":
                o[:] = float(rng.choice([1, 2, 3, 5]))
            elif shape == "const_sim":
                sm[:] = float(rng.choice([1, 2, 3, 5]))
            elif shape == "zero_mean" and not positive:
                half = [float(rng.choice([1, 2, 3, 7])) for _ in range(n // 2)]
                o = np.array(half + [-v for v in half] + ([0.0] if n % 2 else []))
                rng.shuffle(o)
            elif shape == "tiny" and tname == "Identity":
                sc_ = rng.choice([1e-9, 1e-10, 1e-11, 1e-12, 1e-13])
                o, sm = o * sc_ / max(1.0, float(np.max(np.abs(o)))), sm * sc_ / max(1.0, float(np.max(np.abs(sm))))
        if n >= 1 and rng.random() < 0.5:
            for _ in range(rng.randint(1, 3)):
                punch(o if rng.random() < 0.5 else sm, positive, tp.get("nu"))
        excl = rng.random() < 0.5
        u = rng.random()
        s_arg = sm
        if u < 0.08:
            s_arg = np.concatenate([sm, [1.0]]) if rng.random() < 0.5 or n == 0 else sm[:-1]
        bty = rng.choice(["standard", "normalised", "log", "log", "bidule"])
        tok = ttoken(tname, tp)
        with np.errstate(all="ignore"), warnings.catch_warnings():
            warnings.simplefilter("ignore")
            to, ts = trans.forward(o), trans.forward(sm)
        okp = np.isfinite(to) & np.isfinite(ts)
        fo, fs = (to[okp], ts[okp]) if excl else (to, ts)
        good = len(s_arg) == n and len(fo) >= 2 and bool(np.all(np.isfinite(fo)) and np.all(np.isfinite(fs))) and well_conditioned(fo)
        cond = max(cond_number(fo), cond_number(fs) if np.std(fs) > 0 else 1.0) if good else None
        case = {"obs": o.tolist(), "sim": s_arg.tolist(), "trans": tname, "params": tp, "excludenull": excl, "gen": gkind + "/" + shape}
        rb = outcome(lambda: metrics.bias(o, s_arg, trans, excl, bty))
        reqs.append(f"biasfull {bty} {C.f2h(EPS)} {tok} {int(excl)} {C.flist(o)} {C.flist(s_arg)}")
        # an unknown type on a series that is also degenerate / holds NaN: which of the two is reported first is an accident
        checks.append((("info:full" if bty == "bidule" and len(s_arg) == n and not (good and abs(float(np.mean(fo))) > 10 * EPS) else "full"), rb, cond, {**case, "fn": "bias", "type": bty}))
        rn = outcome(lambda: metrics.nse(o, s_arg, trans, excl))
        reqs.append(f"nsefull {tok} {int(excl)} {C.flist(o)} {C.flist(s_arg)}")
        checks.append(("full", rn, cond, {**case, "fn": "nse"}))
        rk = outcome(lambda: metrics.kge(o, s_arg, trans, excl))
        reqs.append(f"kgefull {C.f2h(EPS)} {tok} {int(excl)} {C.flist(o)} {C.flist(s_arg)}")
        # const_sim: the standard deviation of sim is rounding noise around the guard's zero; compare the kind only
        checks.append(("full", rk, (10 * cond if cond is not None and shape != "const_sim" and np.std(fs) > 1e-6 * (abs(np.mean(fs)) + 1e-300) else None),
                       {**case, "fn": "kge"}))
        lab = lambda r: r if isinstance(r, str) and r.startswith("err") else ("nan" if r == "nan" else "value")
        ctx.count(("whole", tname, tuple(o), tuple(s_arg), excl, bty), not isinstance(rb, str), f"whole/bias={lab(rb)}/nse={lab(rn)}/kge={lab(rk)}")

    # corr from its raw arguments: a 1d series, a column, [n,p] ensembles (square ones too), [p,n] arrays (rejected), NaN
    # observations, forecasts without any member, inf, values outside the transform's domain, unknown stat / type, "censored"
    lap("whole_functions")
    for it in range(ctx.scale(500, 5000)):
        n = rng.choice([1, 2, 3, 4, 5, 8, 13])
        tname = rng.choice(["Identity", "Identity", "Log", "BoxCox2", "Reciprocal", "Sinh"])
        positive = tname in ("Log", "BoxCox2", "Reciprocal")
        o, sm, gkind = gen_series(rng, max(n, 2), positive)
        o, sm = o[:n].copy(), sm[:n].copy()
        trans, tp = make_trans(tname)
        form = rng.choice(["series", "column", "ens", "ens", "square", "rows", "short"])
        p_ = {"series": 1, "column": 1, "square": n}.get(form, rng.choice([2, 3, 5]))
        nr = n - 1 if form == "short" else n
        ens = np.column_stack([sm[:nr] + (0 if j == 0 else rng.gauss(0, 0.2)) * (np.std(sm) + 0.01) for j in range(p_)]) if nr > 0 else np.zeros((0, p_))
        if positive:
            ens = np.abs(ens) + 0.05
        if ens.size and rng.random() < 0.5:
            for _ in range(rng.randint(1, 3)):
                i_, j_ = rng.randrange(ens.shape[0]), rng.randrange(ens.shape[1])
                ens[i_, j_] = rng.choice([np.nan, np.nan, np.inf, -(tp.get("nu") or 0.0) - 1.0]) if positive else rng.choice([np.nan, np.nan, np.inf, -np.inf])
        if ens.size and rng.random() < 0.15:
            ens[rng.randrange(ens.shape[0]), :] = np.nan
        if rng.random() < 0.3:
            punch(o, positive, tp.get("nu"))
        if rng.random() < 0.04:
            o[:] = np.nan
        e_arg = ens[:, 0].copy() if form == "series" else (ens.T.copy() if form == "rows" else ens)
        o_arg = o[:, None] if rng.random() < 0.2 else o
        stat = rng.choice(["mean", "median", "mean", "median", "max"])
        ctype = rng.choice(["Pearson", "Spearman", "Pearson", "Spearman", "censored", "Kendall"])
        excl = rng.random() < 0.5
        rc = outcome(lambda: metrics.corr(o_arg, e_arg, trans, excl, stat=stat, type=ctype))
        # conditioning of the series the coefficient is computed from (for the tolerance only)
        cond = None
        if not isinstance(rc, str) and e_arg.ndim >= 1:
            e2 = np.atleast_2d(e_arg)
            e2 = e2.T if e2.shape[0] == 1 else e2
            idx = ~np.isnan(o) & (~np.isnan(e2)).any(axis=1)
            with np.errstate(all="ignore"), warnings.catch_warnings():
                warnings.simplefilter("ignore")
                a3, te3 = trans.forward(o[idx]), trans.forward(e2[idx, :])
                b3 = np.nanmean(te3, axis=1) if stat == "mean" else np.nanmedian(te3, axis=1)
            if excl:
                k3 = np.isfinite(a3) & np.isfinite(b3)
                a3, b3 = a3[k3], b3[k3]
            if len(a3) >= 2 and np.all(np.isfinite(a3)) and np.all(np.isfinite(b3)) and well_conditioned(a3):
                if ctype == "Pearson":
                    if np.std(b3) > 1e-6 * (abs(np.mean(b3)) + 1e-300):
                        cond = max(cond_number(a3), cond_number(b3))
                else:
                    ra, rb_ = midranks(a3), midranks(b3)
                    if np.std(ra) > 0 and np.std(rb_) > 0:
                        cond = max(cond_number(ra), cond_number(rb_))
        mat = C.fmat(np.atleast_2d(e_arg)) if e_arg.size else "[]"
        reqs.append(f"corrraw {C.f2h(EPS)} {ttoken(tname, tp)} {ctype} {stat} {int(excl)} {C.flist(o)} {mat}")
        checks.append(("full", rc, cond, {"obs": o.tolist(), "ens": np.asarray(e_arg).tolist(), "trans": tname, "params": tp, "excludenull": excl,
                                          "stat": stat, "type": ctype, "form": form, "fn": "corr"}))
        ctx.count(("corrraw", tname, o.tobytes(), np.asarray(e_arg).tobytes(), e_arg.shape, stat, ctype, excl), not isinstance(rc, str),
                  f"corrraw/{form}/" + (rc if isinstance(rc, str) else "value"))
        # oracle (inside the quantifier: complete data, valid stat / type): an [n,p] ensemble is never read as [p,n], a series
        # given as [n], [n,1] or as a one-member ensemble is the same series
        if rng.random() < 0.15 and e_arg.size:
            # every optional argument left to its default: Identity, no null filter, median, Pearson
            rd = outcome(lambda: metrics.corr(o_arg, e_arg))
            reqs.append(f"corrraw {C.f2h(EPS)} Identity Pearson median 0 {C.flist(o)} {mat}")
            cd_ = None
            if not isinstance(rd, str) and np.all(np.isfinite(o)) and np.all(np.isfinite(e_arg)) and len(o) >= 3 and form in ("series", "column", "ens", "square"):
                bd_ = np.median(ens, axis=1)
                if well_conditioned(o) and np.std(bd_) > 1e-6 * (abs(np.mean(bd_)) + 1e-300):
                    cd_ = max(cond_number(o), cond_number(bd_))
            checks.append(("full", rd, cd_, {"obs": o.tolist(), "ens": np.asarray(e_arg).tolist(), "defaults": True, "fn": "corr"}))
            ctx.count(("corrdefaults", o.tobytes(), np.asarray(e_arg).tobytes()), not isinstance(rd, str), "corrraw/defaults")
        if excl and not isinstance(rc, str) and ctype in ("Pearson", "Spearman") and stat in ("mean", "median") and form in ("ens", "square", "column"):
            # excludenull = the forecasts with an incomplete (observation, statistic) pair removed (corrSeries_excl), on the real code
            io_, ie_ = indep_forward(tname, tp, o), indep_forward(tname, tp, ens)
            with np.errstate(all="ignore"), warnings.catch_warnings():
                warnings.simplefilter("ignore")
                ist = np.nanmean(ie_, axis=1) if stat == "mean" else np.nanmedian(ie_, axis=1)
            keep = np.isfinite(io_) & np.isfinite(ist)
            if keep.sum() >= 2 and keep.sum() < len(o):
                r3 = outcome(lambda: metrics.corr(o[keep], ens[keep, :], trans, False, stat=stat, type=ctype))
                if isinstance(r3, str) or not (same_value(r3, rc) or abs(r3 - rc) <= 1e-12):
                    ctx.finding("corr/excludenull_differs_from_removed_pairs", "corr with excludenull is not corr of the forecasts with the incomplete pairs removed",
                                {"obs": o.tolist(), "ens": ens.tolist(), "trans": tname, "params": tp, "stat": stat, "type": ctype,
                                 "with_excludenull": rc, "removed_pairs": r3, "kept": keep.tolist()})
                ctx.count(("correxcl", o.tobytes(), ens.tobytes(), stat, ctype), True, "corrraw/excludenull_vs_removed")
        if form in ("series", "column") and not isinstance(rc, str) and ctype in ("Pearson", "Spearman") and stat in ("mean", "median"):
            r2 = outcome(lambda: metrics.corr(o, ens[:, 0].copy() if form == "column" else ens, trans, excl, stat=stat, type=ctype))
            if isinstance(r2, str) or not same_value(r2, rc):
                ctx.finding("corr/series_layout_differs", "corr of a series given as [n] and as [n,1] differ",
                            {"obs": o.tolist(), "sim": ens[:, 0].tolist(), "trans": tname, "params": tp, "excludenull": excl, "stat": stat, "type": ctype,
                             "values": [rc, r2]})

    # ---------------- confusion matrix
    lap("corr_raw")
    for it in range(ctx.scale(500, 3000)):
        ncat_true = rng.randint(2, 6)
        n = rng.choice([1, 2, 3, 5, 10, 40])
        present_o = rng.sample(range(ncat_true), rng.randint(1, ncat_true))
        present_s = rng.sample(range(ncat_true), rng.randint(1, ncat_true))
        obs = [rng.choice(present_o) for _ in range(n)]
        sim = [rng.choice(present_s) for _ in range(n)]
        given = rng.random() < 0.5
        ncat = ncat_true if given else None
        how = rng.choice(["list", "int64", "int32", "int8", "series"])
        if how == "series":
            import pandas as pd
        wrap = {"list": list, "int64": np.array, "int32": lambda x: np.array(x, dtype=np.int32), "int8": lambda x: np.array(x, dtype=np.int8),
                "series": lambda x: pd.Series(x)}[how]
        cm = metrics.confusion_matrix(wrap(obs), wrap(sim), ncat)
        rows, cols = [int(x) for x in cm.index.values], [int(x) for x in cm.columns.values]
        cells = "[" + ";".join(",".join(str(int(v)) for v in r) for r in cm.values) + "]"
        nc_model = ncat_true if given else (max(obs + sim) + 1)
        impl = f"{nc_model} {C.ilist(rows)} {C.ilist(cols)} {cells}"
        reqs.append(f"conf {C.ilist(obs)} {C.ilist(sim)} {ncat if given else '-'}")
        case = {"obs": obs, "sim": sim, "ncat": ncat, "given_as": how}
        checks.append(("conf", impl, 1.0, case))
        ctx.count(("conf", tuple(obs), tuple(sim), ncat), n > 1, "confusion/" + ("given" if given else "inferred"))
        # oracle: every pair counted once in a table of the requested size
        size = nc_model
        want = [[sum(1 for a, b in zip(obs, sim) if a == i and b == j) for j in range(size)] for i in range(size)]
        got = cm.values.tolist()
        if rows != list(range(size)) or cols != list(range(size)) or [[int(v) for v in r] for r in got] != want:
            ctx.finding("confusion/" + ("given" if given else "inferred") + "/pairs_not_counted_once",
                        "confusion matrix is not the table of pair counts over categories 0..ncat-1",
                        {**case, "rows": rows, "cols": cols, "cells": got})

    # ---------------- histories of results that are HELD by the caller: every table / score dictionary returned earlier is
    # looked at again after each later call (other forecasts of the same observations, the transposed problem, other ncat,
    # tables that need completing and tables that do not), and the caller edits some of the objects it holds.  A result is a
    # value: it depends on its own (obs, sim, ncat) and on its holder's own edits, never on what is computed afterwards,
    # and a later call never sees what a caller did to an earlier result.  The model (`hrun` over a list of operations)
    # is run on the same history and must hold the same tables at the end.
    def table_of(cm):
        return ([int(x) for x in cm.index.values], [int(x) for x in cm.columns.values],
                [[int(v) for v in r] for r in np.asarray(cm.values)])

    lap("confusion")
    for it in range(ctx.scale(250, 1200)):
        ncat_h = rng.randint(2, 6)
        nops = rng.randint(2, 7)
        held = []          # dicts: obj, want (labels, labels, cells), args
        ops_txt, ops_case = [], []
        obs_h = None
        bad = False
        for step in range(nops):
            u = rng.random()
            if u < 0.65 or not held:
                n = rng.choice([1, 2, 3, 6, 12, 40])
                # the same observations are scored against several forecasts, or swapped with the forecast
                if obs_h is None or len(obs_h) != n or rng.random() < 0.3:
                    pres = rng.sample(range(ncat_h), rng.randint(1, ncat_h))
                    obs_h = [rng.choice(pres) for _ in range(n)]
                pres = rng.sample(range(ncat_h), rng.randint(1, ncat_h))
                sim_h = [rng.choice(pres) for _ in range(n)]
                a, b = (obs_h, sim_h) if rng.random() < 0.8 else (sim_h, obs_h)
                given = rng.random() < 0.5
                size = ncat_h if given else max(a + b) + 1
                wrap = rng.choice([list, np.array, lambda x: np.array(x, dtype=np.int32)])
                cm = metrics.confusion_matrix(wrap(a), wrap(b), ncat_h if given else None)
                want = (list(range(size)), list(range(size)),
                        [[sum(1 for p, q in zip(a, b) if p == i and q == j) for j in range(size)] for i in range(size)])
                held.append({"obj": cm, "want": want, "args": {"obs": list(a), "sim": list(b), "ncat": ncat_h if given else None}})
                ops_txt.append(f"S:{C.ilist(a)}:{C.ilist(b)}:{ncat_h if given else '-'}")
                ops_case.append({"op": "confusion_matrix", **held[-1]["args"]})
            else:
                k = rng.randrange(len(held))
                h = held[k]
                size = len(h["want"][0])
                if u < 0.85:
                    i, j, v = rng.randrange(size), rng.randrange(size), rng.randint(0, 99)
                    h["obj"].iloc[i, j] = v
                    h["want"][2][i][j] = v
                    ops_txt.append(f"E:{k}:{i}:{j}:{v}")
                    ops_case.append({"op": "caller sets a cell of held table", "table": k, "row": i, "col": j, "value": v})
                else:
                    v = rng.randint(0, 99)
                    h["obj"].iloc[:, :] = v
                    h["want"] = (h["want"][0], h["want"][1], [[v] * size for _ in range(size)])
                    ops_txt.append(f"F:{k}:{v}")
                    ops_case.append({"op": "caller fills held table", "table": k, "value": v})
            # every held table is looked at again after every operation
            for k, h in enumerate(held):
                got = table_of(h["obj"])
                if got != tuple(h["want"]) and not bad:
                    bad = True
                    last = k == len(held) - 1 and ops_case[-1]["op"] == "confusion_matrix"
                    ctx.finding("confusion/history/" + ("pairs_not_counted_once" if last else "held_table_changed_by_later_call"),
                                "a confusion matrix held by the caller is not the table of pair counts of its own (obs, sim)"
                                + ("" if last else " any more after a later operation on ANOTHER table"),
                                {"history": ops_case, "table": k, "args": h["args"], "rows": got[0], "cols": got[1], "cells": got[2],
                                 "expected_cells": h["want"][2]})
            if bad:
                break
        if bad:
            continue
        reqs.append("hist " + " ".join(ops_txt))
        unt = [k for k in range(len(held)) if not any(t[0] in "EF" and int(t.split(":")[1]) == k for t in ops_txt)]
        impl = " ".join([C.ilist(unt)] + [f"{C.ilist(r)} {C.ilist(c)} " + "[" + ";".join(",".join(str(v) for v in row) for row in cells) + "]"
                                          for (r, c, cells) in (table_of(h["obj"]) for h in held)])
        checks.append(("hist", impl, 1.0, {"history": ops_case}))
        ctx.count(("hist", tuple(ops_txt)), len(held) > 1, "history/held_tables/" + ("edited" if any(t[0] in "EF" for t in ops_txt) else "scored_only"))

    # the score dictionaries of binary() are results too
    lap("held_tables")
    for it in range(ctx.scale(150, 1500)):
        tabs = [[[rng.randint(1, 30), rng.randint(1, 30)], [rng.randint(1, 30), rng.randint(1, 30)]] for _ in range(rng.randint(2, 4))]
        heldb = []
        for t in tabs:
            arg = rng.choice([lambda x: x, np.array, lambda x: np.array(x, dtype=np.int32)])(t)
            sc, sr = metrics.binary(arg)
            (tn, fp), (fn, tp) = t
            d_orss, d_h = float(Fraction(tp * tn - fp * fn, tp * tn + fp * fn)), tp / (tp + fn)
            if not abs(float(sc["ORSS"]) - d_orss) <= 1e-9 or not abs(float(sc["hitrate"]) - d_h) <= 1e-12:
                ctx.finding("binary/history/not_definition", "binary() does not return the definitions in a sequence of calls (earlier results held, some edited by their holder)",
                            {"tables": tabs, "table": t, "ORSS": float(sc["ORSS"]), "definition": d_orss})
            heldb.append((t, sc, sr, dict(sc), dict(sr)))
            if rng.random() < 0.4:     # the caller edits what it holds: later calls must not see it
                j = rng.randrange(len(heldb))
                key = rng.choice(["ORSS", "MCC", "hitrate", "bias"])
                heldb[j][1][key] = 12345.0
                heldb[j][3][key] = 12345.0
                heldb[j][2]["MCC"] = -7.0
                heldb[j][4]["MCC"] = -7.0
            eqv = lambda a_, b_: a_ == b_ or (a_ != a_ and b_ != b_)
            for (t0, sc0, sr0, sc_w, sr_w) in heldb:
                if sc0.keys() != sc_w.keys() or sr0.keys() != sr_w.keys() or not all(eqv(sc0[k_], sc_w[k_]) for k_ in sc_w) \
                        or not all(eqv(sr0[k_], sr_w[k_]) for k_ in sr_w):
                    ctx.finding("binary/history/held_scores_changed_by_later_call", "scores returned by binary() changed after a later call",
                                {"tables": tabs, "table": t0, "now": {k_: float(v_) for k_, v_ in sc0.items()}, "at_return": {k_: float(v_) for k_, v_ in sc_w.items()}})
                    break
        ctx.count(("binhist", str(tabs)), True, "history/held_scores")

    # labels outside 0..ncat-1 (a given ncat that is too small, negative labels): outside the property's quantifier, the
    # oracle is silent; the model says which pairs the code drops there (confusion_total_needs_range)
    lap("held_scores")
    for it in range(ctx.scale(150, 800)):
        ncat_g = rng.randint(1, 5)
        n = rng.choice([1, 2, 3, 6, 15])
        obs = [rng.randint(-1, ncat_g + 1) for _ in range(n)]
        sim = [rng.randint(-1, ncat_g + 1) for _ in range(n)]
        given = rng.random() < 0.6
        try:
            cm = metrics.confusion_matrix(obs, sim, ncat_g if given else None)
            rows, cols = [int(x) for x in cm.index.values], [int(x) for x in cm.columns.values]
            cells = "[" + ";".join(",".join(str(int(v)) for v in r) for r in cm.values) + "]"
            impl = f"{ncat_g if given else max(0, max(obs + sim) + 1)} {C.ilist(rows)} {C.ilist(cols)} {cells}"
        except Exception as e:  # noqa
            impl = f"err {type(e).__name__}"
        inside = all(0 <= x < (ncat_g if given else 10 ** 9) for x in obs + sim)
        reqs.append(f"conf {C.ilist(obs)} {C.ilist(sim)} {ncat_g if given else '-'}")
        # outside the quantifier the comparison is informational (counted, never a disagreement): the property does not say
        # what happens to labels outside 0..ncat-1
        checks.append(("conf" if inside else "conf_outside", impl, 1.0, {"obs": obs, "sim": sim, "ncat": ncat_g if given else None}))
        ctx.count(("conf_out", tuple(obs), tuple(sim), given), True, "confusion/labels_" + ("inside" if inside else "outside_range"))

    lap("confusion_out_of_range")
    # ---------------- binary scores
    top = ctx.scale(6, 12)
    tables = list(itertools.product(range(1, top + 1), repeat=4))
    tables = tables + [tuple(rng.randint(1, 10 ** rng.randint(1, 7)) for _ in range(4)) for _ in range(ctx.scale(600, 3000))]
    for (tn, fp, fn, tp) in tables:
        how = rng.choice(["list", "int64", "int32", "frame"])
        table = [[tn, fp], [fn, tp]]
        if how == "int64":
            table = np.array(table, dtype=np.int64)
        elif how == "int32":
            table = np.array(table, dtype=np.int32)
        elif how == "frame":
            import pandas as pd
            table = pd.DataFrame(table)
        try:
            sc, _ = metrics.binary(table)
        except Exception as e:  # noqa
            ctx.finding("binary/raises", "binary() raises on a 2x2 table with four positive counts",
                        {"table": [[tn, fp], [fn, tp]], "given_as": how, "error": f"{type(e).__name__}: {e}"})
            continue
        vals = [sc[k] for k in ("bias", "hitrate", "precision", "falsealarm", "accuracy", "F1", "MCC", "LOR", "ORSS")]
        reqs.append("binary " + " ".join(C.f2h(x) for x in (tn, fp, fn, tp)))
        case = {"table": [[tn, fp], [fn, tp]], "given_as": how}
        checks.append(("binary", [float(x) for x in vals], 1.0, case))
        ctx.count(("binary", tn, fp, fn, tp), True, "binary/theta" + ("<1" if tp * tn < fp * fn else "=1" if tp * tn == fp * fn else ">1"))
        q = lambda a, b: float(Fraction(a, b))
        defs = {"bias": q(tp + fp, tp + fn), "hitrate": q(tp, tp + fn), "precision": q(tp, tp + fp),
                "falsealarm": q(fp, fp + tn), "accuracy": q(tp + tn, tp + tn + fp + fn), "F1": q(2 * tp, 2 * tp + fp + fn),
                "MCC": (tp * tn - fp * fn) / math.sqrt((tp + fp) * (tp + fn) * (tn + fp) * (tn + fn)),
                "LOR": math.log(tp * tn / (fp * fn)), "ORSS": q(tp * tn - fp * fn, tp * tn + fp * fn)}
        reqs.append("binary32 " + " ".join(C.f2h(x) for x in (tn, fp, fn, tp)))
        checks.append(("rnd32", ("binary", None), 1.0, case))
        # ranges that survive rounding (binary_rates_range_rnd, binary_orss_range_rnd): no tolerance
        for k in ("hitrate", "falsealarm", "precision", "accuracy"):
            if not 0.0 <= float(sc[k]) <= 1.0:
                ctx.finding(f"binary/{k}/not_a_proportion", f"binary score {k} is outside [0, 1]", {**case, "value": float(sc[k])})
        for k in ("ORSS", "MCC"):
            if not -1.0 - (1e-12 if k == "MCC" else 0.0) <= float(sc[k]) <= 1.0 + (1e-12 if k == "MCC" else 0.0):
                ctx.finding(f"binary/{k}/outside_range", f"binary score {k} is outside [-1, 1]", {**case, "value": float(sc[k])})
        # which way the skill points is an exact comparison of integers (binary_skill_sign); for small counts rounding cannot flip it
        if max(tn, fp, fn, tp) <= 1000 and tp * tn != fp * fn:
            sg = 1 if tp * tn > fp * fn else -1
            for k in ("ORSS", "MCC", "LOR"):
                if not sg * float(sc[k]) > 0:
                    ctx.finding(f"binary/{k}/wrong_sign", f"binary score {k} does not have the sign of TP*TN - FP*FN", {**case, "value": float(sc[k])})
        for k, d in defs.items():
            val = float(sc[k])
            if not (abs(val - d) <= 1e-9 * max(1.0, abs(d))):
                ctx.finding(f"binary/{k}/not_definition", f"binary score {k} differs from its contingency-table definition",
                            {**case, "value": val, "definition": d})

    # ---------------- binary(): tables it rejects (shape, zero margins / zero cells: ZeroDivisionError) and the route
    # series -> confusion_matrix(ncat=2) -> binary
    lap("binary")
    for it in range(ctx.scale(300, 3000)):
        u = rng.random()
        if u < 0.12:
            r_, c_ = rng.choice([(1, 2), (2, 3), (3, 3), (2, 1), (3, 2)])
            t = [[rng.randint(0, 9) for _ in range(c_)] for _ in range(r_)]
        else:
            t = [[rng.choice([0, 0, 1, 2, 5, 17, 400]) for _ in range(2)] for _ in range(2)]
        try:
            with warnings.catch_warnings():
                warnings.simplefilter("ignore")
                sc, _ = metrics.binary(np.array(t) if rng.random() < 0.5 else t)
            impl = [float(sc[k]) for k in ("bias", "hitrate", "precision", "falsealarm", "accuracy", "F1", "MCC", "LOR", "ORSS")]
        except ValueError as e:
            impl = "err shape" if "Expected confusion matrix of shape" in str(e) else "err other " + str(e)[:60]
        except ZeroDivisionError:
            impl = "err zerodiv"
        except Exception as e:  # noqa
            impl = f"err other {type(e).__name__} {str(e)[:60]}"
        reqs.append("binaryof " + C.fmat(t))
        zero_cell = len(t) == 2 and all(len(r_) == 2 for r_ in t) and min(min(r_) for r_ in t) == 0
        checks.append((("info:binaryof" if zero_cell else "binaryof"), impl, 1.0, {"table": t}))
        ctx.count(("binaryof", str(t)), not isinstance(impl, str), "binaryof/" + (impl if isinstance(impl, str) else "scores"))

    lap("binary_rejected")
    for it in range(ctx.scale(300, 1500)):
        n = rng.choice([1, 2, 4, 8, 20, 60])
        po, ps = rng.choice([0.0, 0.3, 0.5, 0.8, 1.0]), rng.choice([0.0, 0.3, 0.5, 0.8, 1.0])
        obs = [int(rng.random() < po) for _ in range(n)]
        sim = [int(rng.random() < ps) if rng.random() < 0.5 else (x if rng.random() < 0.8 else 1 - x) for x in obs]
        how = rng.choice(["list", "int", "bool"])
        wrap = {"list": list, "int": np.array, "bool": lambda x: np.array(x, dtype=bool)}[how]
        try:
            with warnings.catch_warnings():
                warnings.simplefilter("ignore")
                sc, _ = metrics.binary(metrics.confusion_matrix(wrap(obs), wrap(sim), 2))
            impl = [float(sc[k]) for k in ("bias", "hitrate", "precision", "falsealarm", "accuracy", "F1", "MCC", "LOR", "ORSS")]
        except ZeroDivisionError:
            impl = "err zerodiv"
        except Exception as e:  # noqa
            impl = f"err other {type(e).__name__} {str(e)[:60]}"
        reqs.append(f"binseries {C.ilist(obs)} {C.ilist(sim)}")
        case = {"obs": obs, "sim": sim, "given_as": how}
        cnt = lambda a_, b_: sum(1 for x, y in zip(obs, sim) if x == a_ and y == b_)
        tn, fp, fn, tp = cnt(0, 0), cnt(0, 1), cnt(1, 0), cnt(1, 1)
        checks.append((("binaryof" if min(tn, fp, fn, tp) > 0 else "info:binaryof"), impl, 1.0, case))
        ctx.count(("binseries", tuple(obs), tuple(sim)), not isinstance(impl, str), "binseries/" + ("scores" if not isinstance(impl, str) else impl))
        if min(tn, fp, fn, tp) > 0:
            # inside the quantifier: the scores of the two series are those of their own contingency counts
            if isinstance(impl, str):
                ctx.finding("binary/series/raises", "binary(confusion_matrix(obs, sim, 2)) raises although the four cells are positive", {**case, "error": impl})
            else:
                defs = [(tp + fp) / (tp + fn), tp / (tp + fn), tp / (tp + fp), fp / (fp + tn), (tp + tn) / n, 2 * tp / (2 * tp + fp + fn),
                        (tp * tn - fp * fn) / math.sqrt((tp + fp) * (tp + fn) * (tn + fp) * (tn + fn)), math.log(tp * tn / (fp * fn)),
                        (tp * tn - fp * fn) / (tp * tn + fp * fn)]
                for k_, v_, d_ in zip(("bias", "hitrate", "precision", "falsealarm", "accuracy", "F1", "MCC", "LOR", "ORSS"), impl, defs):
                    if not abs(v_ - d_) <= 1e-9 * max(1.0, abs(d_)):
                        ctx.finding(f"binary/series/{k_}/not_definition", f"score {k_} of two 0/1 series differs from its definition on their pair counts",
                                    {**case, "value": v_, "definition": d_, "counts_tn_fp_fn_tp": [tn, fp, fn, tp]})

    lap("series_to_binary")
    # ---------------- correspondence
    replies = lean.ask(reqs)
    lap("model_driver")
    outside_stats = {True: 0, False: 0}
    info_stats = {}
    for req, rep, (kind, impl, cond, case) in zip(reqs, replies, checks):
        ok = True
        # "info:<kind>": an input outside the property's quantifier whose treatment is an accident of the implementation
        # (order of two checks that both fail, ZeroDivisionError of a zero cell ...): compared with the model, counted in the
        # evidence, never a disagreement
        info = kind.startswith("info:")
        if info:
            kind = kind[5:]
        if kind == "nonull":
            a, b = rep.split(" ")
            ok = C.parse_flist(a) == impl[0] and C.parse_flist(b) == impl[1]
        elif kind in ("nseq", "biasq"):
            if rep in ("degenerate", "none"):
                ok = not math.isfinite(impl) or kind == "biasq"
            else:
                r = rep.replace("some ", "")
                ok = sclose(impl, float(Fraction(r)), cond, 1e-11)
        elif kind.startswith("bias_") or kind in ("kge", "corr"):
            mv = None if rep == "none" else C.h2f(rep.split(" ")[1])
            iv = None if impl != impl else impl
            ok = sclose(iv, mv, cond, 2e-10 if kind != "kge" else 2e-9)
        elif kind == "ensstat":
            mv = None if rep == "none" else C.h2f(rep.split(" ")[1])
            iv = None if impl != impl else impl
            row = np.asarray(case["row"], dtype=float)
            row = row[np.isfinite(row)]
            ok = (iv is None and mv is None) or (iv is not None and mv is not None and (
                (iv == mv) or (math.isinf(iv) or math.isinf(mv)) and (iv == mv or (iv != iv and mv != mv)) or
                abs(iv - mv) <= 8 * 2.2e-16 * (np.mean(np.abs(row)) if len(row) else 1.0)))
        elif kind == "corrfull":
            if isinstance(impl, str):
                ok = rep == impl or (impl.startswith("err") and rep.startswith("err"))
            else:
                mv = None if rep == "none" else (C.h2f(rep.split(" ")[1]) if rep.startswith("some") else "?")
                iv = None if impl != impl else impl
                ok = mv != "?" and sclose(iv, mv, cond, 2e-10)
        elif kind == "full":
            # impl: float, "nan" or "err ..."; cond None: only the kind of outcome is compared
            if cond is None and case.get("fn") == "nse" and not (isinstance(impl, str) and impl.startswith("err")):
                # nse has no guard: on degenerate observations 1 - x/0 is -inf or nan by accident of the arithmetic; only
                # "a number or nan, no error" is compared there
                ok = not rep.startswith("err")
            elif isinstance(impl, str):
                # rejected is rejected: which exception and which message is not an observable the property constrains
                ok = rep == impl or (impl.startswith("err") and rep.startswith("err"))
            elif not rep.startswith("value "):
                ok = False
            elif cond is None:
                ok = True
            else:
                mv = C.h2f(rep.split(" ")[1])
                ok = impl == mv or sclose(impl, mv, cond, 2e-10)
        elif kind == "rnd32":
            what, ref = impl
            if what == "nse":
                mv = C.h2f(rep)
                ok = mv <= 1.0 and (ref is None or mv == ref or (mv != mv and ref != ref))
            elif what == "nse_perfect":
                ok = C.h2f(rep) == 1.0
            elif what == "kge":
                ok = rep == "none" or C.h2f(rep.split(" ")[1]) <= 1.0 or rep == "some nan"
            elif what == "bias_perfect":
                ok = rep == "none" or C.h2f(rep.split(" ")[1]) == 0.0
            elif what == "bias_norm_range":
                ok = rep == "none" or -1.0 <= C.h2f(rep.split(" ")[1]) <= 1.0
            else:
                mv = [C.h2f(t) for t in rep.split(" ")]
                ok = all(0.0 <= x <= 1.0 for x in mv[:3]) and -1.0 <= mv[3] <= 1.0
        elif kind == "exclremoved":
            parts = rep.split(" | ")
            ok = len(parts) == 8 and C.parse_flist(parts[0]) == impl[0] and C.parse_flist(parts[1]) == impl[1] and \
                parts[2] == parts[3] and parts[4] == parts[5] and parts[6] == parts[7]
        elif kind == "level":
            mv = C.h2f(rep.split(" ")[-1]) if rep != "none" else float("nan")
            ok = (impl != impl and mv != mv) or abs(impl - mv) <= 1e-9 * max(1.0, abs(mv))
        elif kind == "nse":
            ok = sclose(impl, C.h2f(rep), cond)
        elif kind in ("conf", "hist"):
            ok = rep == impl
        elif kind == "conf_outside":
            outside_stats[rep == impl] += 1
        elif kind == "binaryof":
            if isinstance(impl, str):
                ok = rep == impl or (impl.startswith("err") and rep.startswith("err"))
            elif rep.startswith("err"):
                ok = False
            else:
                mv = [C.h2f(t) for t in rep.split(" ")]
                # the odds ratio is conditioned by the smallest of H, 1-H, F, 1-F (zero cells: 0, inf or nan on both sides)
                rates = [x for x in (impl[1], 1 - impl[1], impl[3], 1 - impl[3]) if x > 0]
                amp = 1.0 / min(rates) if rates else 1.0
                ok = all(C.close(a, b, rel=1e-12) for a, b in zip(impl[:7], mv[:7])) and \
                    all(C.close(a, b, rel=4e-15 * amp, abs_=4e-15 * amp) for a, b in zip(impl[7:], mv[7:]))
        elif kind == "binary":
            mv = [C.h2f(t) for t in rep.split(" ")]
            (tn, fp), (fn, tp) = case["table"]
            # 1-H and 1-F are formed by subtraction: the odds ratio (hence LOR, ORSS) is conditioned by the smallest rate
            amp = 1.0 / min(tp / (tp + fn), fn / (tp + fn), fp / (fp + tn), tn / (fp + tn))
            ok = all(C.close(a, b, rel=1e-12) for a, b in zip(impl[:7], mv[:7])) and \
                all(C.close(a, b, rel=4e-15 * amp, abs_=4e-15 * amp) for a, b in zip(impl[7:], mv[7:]))
        if info:
            st_ = info_stats.setdefault(kind + "/" + str(case.get("fn", "")), [0, 0])
            st_[0 if ok else 1] += 1
            continue
        if not ok:
            ctx.disagree(f"C04/{kind}: implementation and model differ",
                         {"request": req[:2000], "impl": impl, "model": rep[:2000], **case})
    lap("comparison")
    ctx.extra["labels_outside_range_model_agrees_differs"] = [outside_stats[True], outside_stats[False]]
    ctx.extra["outside_quantifier_informational_model_agrees_differs"] = info_stats
    ctx.extra["arguments_edited_in_place_by_the_code_and_restored"] = _Guard.edits
    ctx.extra["rule"] = __doc__.split("Cases:")[1].strip()
    ctx.assumptions += ["numpy mean/std/corrcoef, pandas.crosstab, scipy spearmanr are external (Spearman = Pearson correlation of the model's mid-ranks)",
                        "floating-point rounding: tolerance 2e-11 x conditioning (capped at 1e-5) between numpy's pairwise sums and the model's sequential sums"]


def main(tier, replay=None):
    return C.run_check(PID, tier, body, replay=replay,
                       trusted=["numpy mean/std/corrcoef/nanmean/nanmedian, pandas.crosstab, scipy spearmanr (external)",
                                "closed-form streams take trans.forward from the real code; whole-function streams use the transform model of C01/C02 (its own properties are C01/C02)"])
