"""C05 — native kernels never touch memory outside their buffers, never divide an integer by zero, never
overflow a signed integer, never bring the interpreter down.

Proof side (Lean): `Model/C05.lean` footprint models of the kernels, `Props/C05.lean` — per kernel
`KernelPre → Safe (run)` for all lengths / contents / oracles, per Cython wrapper (over the GENERATED
`Generated/PyxSpec.lean`, rewritten from the three .pyx files on every run by `harness/pyx2spec.py`)
`asserts ∧ PyAlloc → Safe (run (call))`.

What a theorem about a model cannot show — that the compiled C text performs exactly the model's accesses — is
tied at run time, in worker interpreters started under the ASan/UBSan runtime (`harness/c05_worker.py`, driven by
`harness/c05_run.py`: no pipe, hard time limits, every abnormal exit attributed to the probe that was running):

 (i)  OUTCOME + ORACLE. The structured stream of `harness/c05_gen.py` (every entry point of the property's
      quantifier; lengths 0..8 then larger; value classes; options at and beyond their ranges) is run through the
      real Python API on the extension modules of the sanitizer build (`common.native_build(asan=True)`). Any
      sanitizer report, abnormal exit or stall is a FINDING (signature `entry/branch/predicate`). A shim at the
      Cython boundary records every kernel call (shapes, integer contents); the model is run on exactly those
      arguments (the kernel call rebuilt from the current .pyx text): "model says safe" must coincide with "the
      sanitizers report nothing".
 (ii) TIGHTNESS. Kernel-level cases (`harness/c05_tight.py`) are run through ctypes on a `-O0` sanitizer build
      of the kernels with every buffer malloc'ed at exactly the extent the model predicts (`need` request): no
      report allowed, return code class as predicted — a report there means the footprint model no longer describes
      the code: a CORRESPONDENCE break (never a failing input: the property is about the buffers the Python entry
      points pass, which can be larger than the footprint of one call). Then once per buffer with that buffer one
      element shorter: a report adjacent to that buffer is expected; its absence (the code touches less than the
      model, which is sound) is counted per kernel and only a model mostly unrelated to the code (> 75 % silent) is a
      correspondence break. Cases stay inside the wrappers' contracts (what a kernel does outside, and which layer
      refuses it, is not fixed by the property).

A case is non-trivial when the call reaches a kernel (API stream) / touches at least one element (tightness).

 (iii) GENERATED MODELS. For the 13 integer kernels of the whitelist of `harness/c2lean.py` the Lean model is rewritten
      from the C text of the working tree on every run (`Generated/CKernels.lean`, values and faults) and the `cgen_*`
      theorems of `Props/C05.lean` are about that text. `harness/c05_cgen.py` validates translator + semantic primitives:
      boundary + random inputs through the model driver and, when the model runs without fault, through the compiled
      kernels (ctypes, worker process, exact comparison of value and buffers); inputs on which the model faults go to the
      sanitizer builds (a report is expected; through a Python entry point that passes them on unchanged a report is a
      failing input).
The API stream also hands every entry point its input arrays READ-ONLY (`writeable=False`, `np.frombuffer` over bytes,
`np.memmap(mode="r")`): a call that modifies them is a finding, a write into the read-only mapping kills the worker.
"""
import hashlib
import json
import os
import re
import shutil
import subprocess
import time
from concurrent.futures import ThreadPoolExecutor

from . import common as C
from . import c05_gen as G
from . import c05_model as M
from . import c05_run as R
from . import c05_tight as T
from . import pyx2spec as X
from . import c2lean as CL
from . import c05_cgen as CG

PID = "C05"
CT = {"int": "int", "long long": "ll", "double": "double"}
DTYPES = {"int": "<i4", "long long": "<i8", "double": "<f8"}

# classes of the API stream in which the USER supplies an array the wrapper passes on unchanged with a shape the
# Cython asserts must refuse (the PyAlloc relations are about what the wrappers allocate themselves)
USER_SHAPED = ("shape_", "pts_", "points_", "polygon_", "inside_", "mask_", "mismatch", "cells_", "lev_", "txx_",
               "wronglen", "fin_mismatch", "nan_mismatch", "inf_mismatch", "huge_mismatch", "neg_mismatch", "zero_mismatch")

# pyx functions whose return value is the kernel's error code (0 = success) and is modelled as such
CODE_FNS = {"aggregate", "flathomogen", "islin", "var2h", "eckhardt", "armodel_sim", "armodel_residual", "ensrank",
            "ad_test", "pareto_front", "olsleverage", "coord2cell", "cell2coord", "cell2rowcol", "slice", "neighbours",
            "upstream", "downstream", "delineate_area", "delineate_boundary", "exclude_zero_area_boundary",
            "delineate_river", "accumulate", "intersect", "voronoi", "slope", "points_inside_polygon",
            "delineate_flowpathlengths_in_catchment", "add1month", "add1day"}
# ... and whose Python wrapper raises when it is not 0 (`dscore` ignores the code of `ensrank`)
RAISING_FNS = CODE_FNS - {"ensrank", "olsleverage", "add1month", "add1day"}


def _approx_oracle(rec):
    """recorded calls whose model oracle is not exact (sort order with NaNs): the return code is not compared"""
    if rec["fn"] == "ad_test":
        a = rec["args"][0]
        return isinstance(a, dict) and any(isinstance(x, str) for x in a["v"])
    return False


PROVED = ["c_aggregate", "c_flathomogen", "c_islin", "c_eckhardt", "c_var2h", "c_combi", "c_dateutils_daysinmonth",
          "c_dateutils_dayofyear", "c_dateutils_add1month", "c_dateutils_add1day", "c_dateutils_getdate",
          "c_dateutils_comparedates", "c_armodel_sim", "c_armodel_residual", "c_crps", "c_ensrank", "c_ad_test (ADtest)",
          "c_paretofront", "c_olsleverage", "c_coord2cell", "c_cell2coord", "c_cell2rowcol", "c_neighbours",
          "c_upstream", "c_downstream", "c_accumulate", "c_slope", "c_slice", "c_intersect", "c_voronoi", "c_inside",
          "c_exclude_zero_area_boundary", "c_delineate_river", "c_delineate_flowpathlengths_in_catchment",
          "c_delineate_boundary", "c_delineate_area", "c_dateutils_isleapyear"]
ORACLE_ONLY = [
               "qsort / libm / the Cython-generated glue"]


# ---------------------------------------------------------------------------------------------
def build_rec_lib(repo):
    """`-O0` build of the hand-written kernels with ASan+UBSan in RECOVER mode (reports are logged, the run goes
    on): one worker can then take thousands of probes that are expected to report. Cached by source hash."""
    srcs, _ = C.native_sources(repo)
    kern = sorted({p for ps in srcs.values() for p in ps if not p.name.startswith("c_hydrodiy_")})
    h = hashlib.sha256()
    for p in kern + sorted((repo / "src" / "hydrodiy").rglob("*.h")):
        h.update(p.name.encode())
        h.update(p.read_bytes())
    out = C.BUILD / ("c05rec-" + h.hexdigest()[:16])
    lib = out / "libhykern.so"
    if (out / "OK").exists():
        return lib, True
    out.mkdir(parents=True, exist_ok=True)
    incs = sorted({f"-I{p.parent}" for p in kern})
    cmd = ["clang", "-O0", "-g", "-fsanitize=address,undefined", "-fsanitize-recover=address,undefined",
           "-shared-libasan", "-fno-omit-frame-pointer", "-ffp-contract=off", "-fPIC", "-shared", "-w"] + incs + \
          [str(p) for p in kern] + ["-o", str(lib), "-lm"]
    p = subprocess.run(cmd, stdout=subprocess.PIPE, stderr=subprocess.STDOUT, text=True, timeout=1200)
    if p.returncode != 0:
        raise RuntimeError("C05 recover build failed: " + p.stdout[-1500:])
    (out / "OK").write_text("ok")
    return lib, False


def run_parallel(probes, native, repo, workroot, k, **kw):
    if not probes:
        return [], {"workers": 0, "deaths": 0}
    k = max(1, min(k, len(probes)))
    chunks = [probes[i::k] for i in range(k)]
    infos = [{} for _ in range(k)]
    with ThreadPoolExecutor(k) as ex:
        ress = list(ex.map(lambda i: R.run_probes(chunks[i], native, repo, workroot / f"w{i}", info=infos[i], **kw),
                           range(k)))
    out = [None] * len(probes)
    for i in range(k):
        for j, r in enumerate(ress[i]):
            out[i + j * k] = r
    info = {"workers": sum(x.get("workers", 0) for x in infos), "deaths": sum(x.get("deaths", 0) for x in infos),
            "loaded": next((x["loaded"] for x in infos if x.get("loaded")), None)}
    return out, info


def branch_of(rep, signal):
    """stable part of a report: kernel function + kind of fault (no line numbers, no addresses, no data)"""
    if rep is None:
        return f"abnormal-exit:{signal}"
    if rep["kind"] == "readonly-write":
        return f"readonly-write:{rep.get('buf', '?')}"
    if rep["kind"] == "ubsan":
        msg = rep.get("msg", "")
        cls = ("integer-division-by-zero" if "division by zero" in msg else
               "signed-integer-overflow" if "signed integer overflow" in msg else
               "float-cast-overflow" if "outside the range of representable" in msg else
               "shift" if "shift" in msg else re.sub(r"[^a-z]+", "-", msg.lower())[:30])
        return f"{rep['where']}:{cls}"
    return f"{rep['func']}:{rep['kind']}:{rep.get('access', '')}"


# ---------------------------------------------------------------------------------------------
class Boundary:
    """rebuilds the kernel call of a recorded wrapper call from the CURRENT .pyx text"""

    def __init__(self, specs, externs):
        self.specs = {s["name"]: s for s in specs}
        self.externs = externs

    def pyalloc(self, rec):
        """-> None (nothing to say) or False: the arrays the Python wrapper allocated are not sized as modelled"""
        sp = self.specs.get(rec["fn"])
        f = M.PYALLOC.get(rec["fn"])
        if sp is None or f is None or rec.get("args") is None or len(rec["args"]) != len(sp["argnames"]):
            return None
        S, V = {}, {}
        for name, val in zip(sp["argnames"], rec["args"]):
            kind, ctype, ndim = sp["argkinds"][name]
            if kind == "buf":
                if not isinstance(val, dict) or len(val["shape"]) != ndim:
                    return None             # a user array of the wrong rank: Cython refuses it
                for k, n in enumerate(val["shape"]):
                    S[f"{name}_{k}"] = n
            elif isinstance(val, int):
                V[name] = val
        try:
            return None if f(S, V) else False
        except KeyError:
            return None

    def call(self, rec):
        """-> (callee, P, B, D) or None"""
        sp = self.specs.get(rec["fn"])
        if sp is None or rec.get("args") is None or len(rec["args"]) != len(sp["argnames"]):
            return None
        S, V, arrays = {}, {}, {}
        for name, val in zip(sp["argnames"], rec["args"]):
            kind, ctype, ndim = sp["argkinds"][name]
            if kind == "buf":
                # Cython's buffer acquisition: dtype, ndim, C-contiguity — otherwise ValueError, no kernel call
                if not isinstance(val, dict) or len(val["shape"]) != ndim or val["d"] != DTYPES[ctype] or not val["c"]:
                    return None
                for k, n in enumerate(val["shape"]):
                    S[f"{name}_{k}"] = n
                arrays[name] = [float(x) if isinstance(x, str) else x for x in val["v"]]
            else:
                if isinstance(val, str) and val not in ("nan", "inf", "-inf"):
                    return None
                V[name] = float(val) if isinstance(val, str) else val
                if ctype in X.INT_TYPES:
                    bits = X.INT_TYPES[ctype]
                    if not isinstance(V[name], int) or not -2 ** (bits - 1) <= V[name] < 2 ** (bits - 1):
                        return None         # Cython's conversion raises (TypeError / OverflowError)
        env = {"S": S, "V": V}
        # the wrapper's own asserts and column reductions: when one fails the kernel is not reached
        for a in sp["pyasserts"] + sp["pyreductions"]:
            if not eval(a, env):        # noqa: expression produced by our own parser
                return None
        P, B, D = {}, {}, {}
        for pname, kind, src, expr in sp["pyfields"]:
            if kind == "int":
                P[pname] = int(eval(expr, {"S": S, "V": V}))      # noqa: expression produced by our own parser
            elif kind == "buf":
                P[pname] = int(eval(expr, {"S": S, "V": V}))      # noqa
                B[pname] = arrays[src]
            elif kind == "carray":
                P[pname] = int(expr)
            elif kind == "double":
                D[pname] = float(V[src])
        return sp["callee"], P, B, D


def kern_probe(externs, callee, P, B, D, extents, lib, tag):
    proto = externs[callee]
    args = []
    for q in proto["params"]:
        t = CT[q["ctype"]]
        if q["ptr"]:
            v = B.get(q["name"]) or []
            args.append({"buf": q["name"], "t": t, "ext": int(extents[q["name"]]),
                         "v": [G.enc(float(x)) if t == "double" else int(x) for x in v[:int(extents[q["name"]])]]})
        elif q["ctype"] == "double":
            args.append({"t": "double", "v": G.enc(float(D[q["name"]]))})
        else:
            args.append({"t": t, "v": int(P[q["name"]])})
    return {"kind": "kern", "fn": callee, "ret": CT.get(proto["ret"], "int"), "args": args, "lib": str(lib), "cls": tag}


# ---------------------------------------------------------------------------------------------
def api_part(ctx, specs, externs, asan_dir, workroot):
    probes = []
    cdir = C.ROOT / "corpus" / PID
    if cdir.exists():
        for f in sorted(cdir.glob("*.json")):
            for p in json.loads(f.read_text()).get("probes", []):
                probes.append(dict(p, cls="corpus/" + p.get("cls", f.stem)))
    ncorpus = len(probes)
    probes += G.gen_all(ctx.rng, lambda q, t: ctx.scale(3 * q, 3 * t), size=ctx.scale)
    t0 = time.time()
    results, info = run_parallel(probes, asan_dir, C.REPO, workroot / "api", ctx.scale(4, 6),
                                 per_probe_timeout=60.0, batch_timeout=ctx.scale(600.0, 1500.0))
    t_run = time.time() - t0
    bnd = Boundary(specs, externs) if specs is not None else None
    lines, owners, recs = [], [], []
    nomodel = 0
    for i, r in enumerate(results):
        for rec in (r.get("calls", []) if bnd is not None else []):
            if bnd.pyalloc(rec) is False and not probes[i]["cls"].split("/")[-1].startswith(USER_SHAPED):
                ctx.disagree(f"PyAlloc: the arrays handed to c_hydrodiy.{rec['fn']} are not sized the way the model of "
                             "the Python wrapper says (Lemmas/C05Wrap.lean, harness/c05_model.py PYALLOC)",
                             {"probe": probes[i], "call": {"fn": rec["fn"], "args": [
                                 a if not isinstance(a, dict) else {"d": a["d"], "shape": a["shape"]} for a in rec["args"]]}})
            kc = bnd.call(rec)
            if kc is None:
                continue
            callee, P, B, D = kc
            try:
                req = M.build(callee, P, B, D, exact=True)
            except Exception as e:      # noqa: a builder that cannot digest a recorded call is a harness defect
                raise RuntimeError(f"C05: cannot build the model request of {callee}: {e!r} for {rec['fn']}")
            if req is None:
                nomodel += 1
                continue
            model, pairs, toks = req
            ext = {b: P[pn] for b, pn in pairs}
            lines.append(M.request(model, pairs, toks, ext))
            owners.append(i)
            recs.append(rec)
    t_build = time.time() - t0 - t_run
    replies = ctx.lean.ask(lines) if lines else []
    t_driver = time.time() - t0 - t_run - t_build
    verdict = {}
    ncodes = 0
    for i, rep, ln, rec in zip(owners, replies, lines, recs):
        v = verdict.setdefault(i, {"n": 0, "bad": []})
        v["n"] += 1
        if not rep.startswith("ok"):
            v["bad"].append((rep, ln[:300]))
        elif rec["fn"] in CODE_FNS and "ret" in rec and not _approx_oracle(rec):
            # glue: the return code class of the kernel (0 / error, what the Python wrapper turns into ValueError)
            ncodes += 1
            mcode = int(rep.split()[1])
            if (mcode == 0) != (rec["ret"] == 0):
                ctx.disagree(f"return code: c_hydrodiy.{rec['fn']} returned {rec['ret']} where the model returns "
                             f"{'0' if mcode == 0 else 'an error code'}",
                             {"probe": probes[i], "step": results[i].get("step"), "model_request": ln[:400]})
    for i, (p, r) in enumerate(zip(probes, results)):
        # glue: an error code of a kernel whose wrapper checks it must surface as a Python exception
        if not p["entry"].startswith(("h.", "cd.", "cs.")) and r["ret"] == "ok":
            bad = [c for c in r.get("calls", []) if c["fn"] in RAISING_FNS and c.get("ret", 0) > 0]
            if bad:
                ctx.disagree(f"error handling: c_hydrodiy.{bad[0]['fn']} returned {bad[0]['ret']} and {p['entry']} "
                             "returned normally", {"probe": p})
    entries = {}
    for i, (p, r) in enumerate(zip(probes, results)):
        if r["ret"] == "skipped":
            # the entry point had already killed several workers of this batch (each death is a finding made above)
            ctx.count((p["entry"], "skipped", i), nontrivial=False, branch=f"api:{p['entry']}:skipped-after-deaths")
            continue
        clean = not r["reports"] and r["ret"] not in ("died", "timeout", "notrun")
        v = verdict.get(i, {"n": 0, "bad": []})
        reached = len(r.get("calls", [])) > 0
        kind = "ok" if r["ret"] == "ok" else "exception" if r["ret"].startswith("exc") else r["ret"]
        ctx.count((p["entry"], json.dumps(p["a"], sort_keys=True)), nontrivial=reached and r["ret"] == "ok",
                  branch=f"api:{p['entry']}:{kind}",
                  sample={"entry": p["entry"], "cls": p["cls"], "ret": r["ret"], "kernel_calls": len(r.get("calls", [])),
                          "model": "safe" if not v["bad"] else v["bad"][0][0]} if i % 997 == 0 else None)
        e = entries.setdefault(p["entry"], {"probes": 0, "reached_kernel": 0, "exceptions": 0})
        e["probes"] += 1
        e["reached_kernel"] += int(reached)
        e["exceptions"] += int(r["ret"].startswith("exc"))
        if r["ret"] == "notrun":
            raise RuntimeError("C05: a probe was not run (batch time limit): " + p["entry"])
        if not clean:
            rep = r["reports"][0] if r["reports"] else None
            sig = f"{p['entry']}/{branch_of(rep, r.get('signal'))}/{p.get('pred', p['cls'])}"
            if p["entry"].startswith("h.") and r.get("step"):
                sig += "@" + r["step"]
            what = (f"{p['entry']}: " + (f"{rep['kind']} {rep.get('access', '')} in {rep['func']} at {rep['line']} "
                                         f"{rep.get('msg', '')}" if rep else f"interpreter ended with {r.get('signal')}")
                    + f" (result of the call: {r['ret']})")
            ctx.finding(sig, what, {"probe": p, "history_step": r.get("step"), "reports": r["reports"][:2],
                                    "signal": r.get("signal"),
                                    "model": "safe" if not v["bad"] else v["bad"][0]})
        if clean != (not v["bad"]):
            ctx.disagree("outcome: the sanitizers and the model disagree on whether the call is memory-safe",
                         {"probe": p, "sanitizer_clean": clean, "model": v["bad"][:2] or "safe",
                          "reports": r["reports"][:2], "signal": r.get("signal")})
    ctx.extra["api"] = {"probes": len(probes), "corpus": ncorpus, "kernel_calls_modelled": len(lines),
                        "kernel_calls_without_model": nomodel, "return_codes_compared": ncodes, "workers": info["workers"],
                        "worker_deaths": info["deaths"], "wall_s": round(time.time() - t0, 1),
                        "run_s": round(t_run, 1), "requests_s": round(t_build, 1), "driver_s": round(t_driver, 1),
                        "loaded": info.get("loaded"), "entries": entries}
    if info.get("loaded"):
        for m, f in info["loaded"].items():
            if str(asan_dir) not in f:
                raise RuntimeError(f"C05: {m} was imported from {f}, not from the sanitizer build {asan_dir}")


def tight_part(ctx, externs, asan_dir, reclib, workroot, called=()):
    cases = T.gen_cases(ctx.rng, lambda q, t: 2 * ctx.scale(q, t))
    have = {c["callee"] for c in cases}
    for k in sorted(called):
        if any(q["ptr"] for q in externs[k]["params"]) and k not in have:
            ctx.disagree("completeness: no tightness case for a kernel with pointer parameters", {"kernel": k})
    t0 = time.time()
    reqs, lines = [], []
    for c in cases:
        req = M.build(c["callee"], c["P"], c["B"], c["D"], exact=True)
        if req is None:
            raise RuntimeError("C05: tightness case for a kernel without model: " + c["callee"])
        reqs.append(req)
        lines.append(M.need_request(*req))
    replies = ctx.lean.ask(lines)
    probes, meta = [], []
    for ci, (c, req, rep) in enumerate(zip(cases, reqs, replies)):
        model, pairs, toks = req
        ptrs = [q["name"] for q in externs[c["callee"]]["params"] if q["ptr"]]
        b2p = dict(pairs)
        if rep.startswith("need "):
            m = re.match(r"need (\S*) ok (-?\d+)$", rep)
            if not m:
                raise RuntimeError(f"C05: driver reply not understood: {rep!r}")
            need = {}
            for tok in [t for t in m.group(1).split(",") if t]:
                b, n = tok.split("=")
                need[b2p[b]] = int(n)
            code = int(m.group(2))
            ext = {pn: need.get(pn, 0) for pn in ptrs}
            tot = sum(ext.values())
            ctx.count((c["callee"], json.dumps([c["P"], ext], sort_keys=True)), nontrivial=tot > 0,
                      branch=f"tight:{c['callee']}:{'ok' if code == 0 else 'err'}",
                      sample={"kernel": c["callee"], "tag": c["tag"], "P": c["P"], "need": ext, "code": code}
                      if ci % 499 == 0 else None)
            probes.append(kern_probe(externs, c["callee"], c["P"], c["B"], c["D"], ext, reclib, c["tag"]))
            meta.append((ci, "exact", None, code))
            for pn in ptrs:
                if ext[pn] > 0 and pn not in T.NOSHRINK.get(c["callee"], ()):
                    e2 = dict(ext)
                    e2[pn] -= 1
                    probes.append(kern_probe(externs, c["callee"], c["P"], c["B"], c["D"], e2, reclib, c["tag"]))
                    meta.append((ci, "shrink", pn, code))
        elif rep.startswith("fault "):
            ctx.count((c["callee"], json.dumps(c["P"], sort_keys=True), "fault"), nontrivial=True,
                      branch=f"tight:{c['callee']}:model-fault")
            ext = {pn: max(len(c["B"].get(pn) or []), 1) for pn in ptrs}
            probes.append(kern_probe(externs, c["callee"], c["P"], c["B"], c["D"], ext, reclib, c["tag"]))
            meta.append((ci, "fault", rep, None))
        else:
            raise RuntimeError(f"C05: driver reply not understood: {rep!r} for {lines[ci][:200]}")
    results, info = run_parallel(probes, asan_dir, C.REPO, workroot / "tight", ctx.scale(4, 6),
                                 per_probe_timeout=60.0, batch_timeout=ctx.scale(600.0, 1500.0),
                                 extra_asan="symbolize=0")
    stats = {}
    silent_samples = []
    for (ci, kind, arg, code), p, r in zip(meta, probes, results):
        c = cases[ci]
        st = stats.setdefault(c["callee"], {"exact": 0, "shrink": 0, "fault": 0})
        st[kind] += 1
        case = {"kernel": c["callee"], "tag": c["tag"], "P": c["P"], "D": {k: G.enc(v) for k, v in c["D"].items()},
                "extents": {a["buf"]: a["ext"] for a in p["args"] if "buf" in a}, "probe": kind, "buffer": arg,
                "model": lines[ci][:400], "model_reply": replies[ci][:200], "reports": r["reports"][:2],
                "ret": r["ret"], "val": r["val"], "signal": r.get("signal")}
        if r["ret"] == "notrun":
            raise RuntimeError("C05: a tightness probe was not run (batch time limit)")
        if kind == "exact":
            if r["reports"] or r["ret"] != "ok":
                # a break of the model <-> code correspondence (the footprint model no longer describes the code),
                # NOT a violation of the property: the property is about the buffers the Python entry points pass,
                # which may be larger than the footprint the model predicts for this very call (failing inputs come
                # from the API / history streams only)
                ctx.disagree(f"tightness: {c['callee']} run with exactly the extents the model predicts is not clean "
                             "(the code touches more than the model)", case)
            elif c["callee"] in T.RETCODE and (int(r["val"]) == 0) != (code == 0):
                ctx.disagree(f"tightness: return code class of {c['callee']} differs from the model's", case)
        elif kind == "shrink":
            # the model touching MORE than the code is sound (the theorems bound the model's footprint, hence the
            # code's): an algorithm that reads less, or an error return that comes before a read the model makes, is
            # not something the property fixes. Counted per kernel; only a footprint that is mostly unrelated to the
            # code (see below) is a correspondence break.
            hit = [x for x in r["reports"] if x.get("buf") == arg]
            st["shrink_silent"] = st.get("shrink_silent", 0) + int(not hit and r["ret"] not in ("died", "timeout"))
            if not hit and r["ret"] not in ("died", "timeout") and len(silent_samples) < 5:
                silent_samples.append(case)
        else:
            # the model faults on a kernel-level input (by the wrapper theorems: one no wrapper can pass). A kernel that
            # refuses it itself is safer than the model, which the property does not forbid: counted, not compared
            st["model_fault_code_silent"] = st.get("model_fault_code_silent", 0) + int(not r["reports"] and r["ret"] == "ok")
    for k, st in stats.items():
        if st["shrink"] >= 10 and st.get("shrink_silent", 0) > 0.75 * st["shrink"]:
            ctx.disagree(f"tightness: the footprint model of {k} is mostly unrelated to the code: "
                         f"{st['shrink_silent']} of {st['shrink']} one-element-shorter probes raised no report",
                         {"kernel": k, "samples": [x for x in silent_samples if x["kernel"] == k][:2]})
    ctx.extra["tightness"] = {"cases": len(cases), "probes": len(probes),
                              "model_touches_more_than_code": {k: st["shrink_silent"] for k, st in stats.items()
                                                               if st.get("shrink_silent")}, "workers": info["workers"],
                              "worker_deaths": info["deaths"], "wall_s": round(time.time() - t0, 1),
                              "per_kernel": stats, "noshrink": {k: sorted(v) for k, v in T.NOSHRINK.items()}}


# kernel (callee of a wrapper) -> its `K_safe` theorem in Props/C05.lean
KERNEL_THEOREM = {
    "c_combi": "combi_safe", "c_dateutils_isleapyear": "isleapyear_safe", "c_dateutils_daysinmonth": "daysinmonth_safe",
    "c_dateutils_dayofyear": "dayofyear_safe", "c_dateutils_add1month": "add1month_safe",
    "c_dateutils_add1day": "add1day_safe", "c_dateutils_comparedates": "comparedates_safe",
    "c_dateutils_getdate": "getdate_safe", "c_aggregate": "aggregate_safe", "c_flathomogen": "flathomogen_safe",
    "c_islin": "islin_safe", "c_var2h": "var2h_safe", "c_eckhardt": "eckhardt_safe", "c_olsleverage": "olsleverage_safe",
    "c_armodel_sim": "armodelSim_safe", "c_armodel_residual": "armodelResidual_safe", "c_crps": "crps_safe",
    "c_ensrank": "ensrank_safe", "c_ad_test": "adTest_safe", "c_paretofront": "paretofront_safe",
    "c_coord2cell": "coord2cell_safe", "c_cell2coord": "cell2coord_safe", "c_cell2rowcol": "cell2rowcol_safe",
    "c_slice": "slice_safe", "c_neighbours": "neighbours_safe", "c_upstream": "upstream_safe",
    "c_downstream": "downstream_safe", "c_delineate_area": "delineateArea_safe",
    "c_delineate_boundary": "delineateBoundary_safe", "c_exclude_zero_area_boundary": "excludeZeroArea_safe",
    "c_delineate_river": "delineateRiver_safe", "c_accumulate": "accumulate_safe", "c_intersect": "intersect_safe",
    "c_voronoi": "voronoi_safe", "c_slope": "slope_safe", "c_inside": "inside_safe",
    "c_delineate_flowpathlengths_in_catchment": "flowpathlengths_safe",
}


def completeness(ctx, specs, externs):
    """every wrapper of the .pyx files that reaches a kernel must have: a footprint model the driver runs (request
    builder), a `K_safe` theorem, a `<wrapper>_wrapper` obligation, and (kernels with pointer parameters) tightness
    cases. A kernel or wrapper added to the extension modules without them is reported — never skipped."""
    thms = {t.split(".")[-1] for t in (ctx.lean.theorems or ctx.lean.theorem_names())}
    missing = []
    for sp in specs:
        k = sp["callee"]
        if k not in M.BUILDERS:
            missing.append(f"{sp['name']} -> {k}: no footprint model request (harness/c05_model.py BUILDERS)")
        if KERNEL_THEOREM.get(k) not in thms:
            missing.append(f"{sp['name']} -> {k}: no kernel theorem ({KERNEL_THEOREM.get(k)})")
        if sp["name"] + "_wrapper" not in thms:
            missing.append(f"{sp['name']}: no wrapper obligation `{sp['name']}_wrapper` in Props/C05.lean")
    called = {sp["callee"] for sp in specs}
    unused = sorted(set(externs) - called)
    ctx.extra["wrappers"] = {"reaching_a_kernel": len(specs), "kernels": len(called), "externs_never_called": unused,
                             "missing": missing}
    for m in missing:
        ctx.disagree("completeness: a wrapper / kernel of the extension modules has no model or obligation", {"missing": m})
    return called


def body(ctx):
    try:
        _, specs, externs = X.render(C.REPO)
    except X.PyxError as e:
        # the translator refuses the .pyx (regen has replaced Generated/PyxSpec.lean by a file that does not elaborate:
        # every wrapper obligation is broken); the sanitizer oracle still runs, without the model correspondence
        ctx.disagree("translator: harness/pyx2spec.py cannot parse the .pyx files any more", {"error": str(e)})
        specs, externs = None, None
    t0 = time.time()
    asan_dir, ainfo = C.native_build(C.REPO, asan=True)
    reclib, cached = build_rec_lib(C.REPO)
    ctx.extra["sanitizer_build"] = {"dir": str(asan_dir), "cached": ainfo["cached"], "stale_pyx": ainfo["stale_pyx"],
                                    "recover_lib": str(reclib), "recover_cached": cached,
                                    "build_s": round(time.time() - t0, 1)}
    if ainfo["stale_pyx"]:
        # the generated C no longer corresponds to the .pyx: the extension modules cannot be rebuilt here (no Cython).
        # The wrapper obligations are re-proved against the new text (Generated/PyxSpec.lean); the runtime part
        # still exercises the recorded generated C with the current kernels.
        ctx.assumptions.append("the .pyx differs from the one the vendored Cython C was generated from: "
                               + ", ".join(ainfo["stale_pyx"]))
    workroot = C.BUILD / f"c05-run-{os.getpid()}"
    called = completeness(ctx, specs, externs) if specs is not None else set()
    api_part(ctx, specs, externs, asan_dir, workroot)
    if externs is not None:
        tight_part(ctx, externs, asan_dir, reclib, workroot, called)
    # the models GENERATED from the C text (harness/c2lean.py) against the compiled kernels (ctypes)
    CG.stream(ctx, asan=(run_parallel, reclib, asan_dir, workroot))
    if not ctx.findings and not ctx.disagreements:
        shutil.rmtree(workroot, ignore_errors=True)     # status files and sanitizer logs are kept only for a failure
    else:
        ctx.extra["worker_files"] = str(workroot)
    ctx.extra["rule"] = (
        "API stream: per entry point lengths 0..8 (x repetitions) then random larger ones, value classes finite / NaN / "
        "all-NaN / +-inf / huge / negative / zero / ties, options at and beyond their ranges, shapes the wrappers must "
        "reject, one-cell and out-of-grid catchments through Catchment.from_dict, zero-size grids; non-trivial = the "
        "call reached a kernel and returned. Tightness: kernel-level cases sizes 0..8 (+ larger), extents taken from the "
        "model's `need`; non-trivial = at least one element touched.")
    ctx.extra["proved_footprint_models"] = PROVED
    ctx.extra["sanitizer_oracle_only"] = ORACLE_ONLY
    ctx.assumptions += [
        "the sanitizer build (clang -O1 -fsanitize=address,undefined for the extension modules, -O0 recover mode for the "
        "ctypes tightness probes) performs the accesses of the production build; a load the optimiser removes is not "
        "observed by the -O1 build (it is by the -O0 tightness probes)",
        "numpy refuses to create arrays of more than 2^63-1 elements (NumpySize); arrays handed to the `int` kernels "
        "have fewer than 2^31 elements / products (`intFit`, 32-bit product hypotheses of the wrapper theorems): "
        "not established by the Python layer, not testable here (needs > 8 GB arrays)",
        "time stamps below 2^53 s: `c_var2h` compares their conversions to double",
    ]


def regen(ctx):
    """both translators: the .pyx wrappers (never raises: a .pyx it cannot read becomes a file that does not
    elaborate) and the C text of the integer kernels (raises `common.TranslatorError` when it cannot be translated:
    the previously generated file is kept and the proof obligations are reported as broken)"""
    X.regen(ctx)
    CL.regen(ctx)


def main(tier, replay=None):
    return C.run_check(
        PID, tier, body, needs_native=False, regen=regen, replay=replay,
        extra_modules=["HydroVerif.Generated.PyxSpec", "HydroVerif.Generated.CKernels"],
        trusted=["ASan/UBSan (clang 14) report every access outside a malloc'ed block within its red zone, every "
                 "integer division by zero, signed overflow and unconvertible double in the instrumented code",
                 "harness/pyx2spec.py (the .pyx -> Lean translator) and the Cython boundary recorder of harness/c05_worker.py",
                 "clang 14's parser / semantic analysis (JSON AST dump), harness/c2lean.py (C -> Lean translator of the "
                 "integer kernels) and the integer semantics of lean/HydroVerif/Model/CSem.lean — validated on every run by "
                 "the ctypes correspondence of the generated definitions with the compiled kernels (harness/c05_cgen.py)",
                 "Cython's buffer acquisition enforces dtype, ndim and C-contiguity of every typed ndarray argument",
                 "glibc qsort, libm and the Cython-generated glue stay inside the buffers they are given (oracle only)"],
        level_partial=[
            "that the compiled C text performs exactly the accesses of the footprint models is observed at run time "
            "(ASan/UBSan outcome + exact-extent tightness probes), not proved",
            "kernels with a proved footprint model + wrapper obligation: " + ", ".join(PROVED),
            "covered by the sanitizer oracle only (no footprint model): " + ", ".join(ORACLE_ONLY),
            "32-bit index products of the `int` kernels are hypotheses of the theorems (arrays of < 2^31 elements)",
            "kernels whose model is regenerated from the C text on every run (theorems about the generated definitions): "
            + ", ".join(n for _, names in CL.WHITELIST for n in names) + "; the other kernels keep hand-written footprint models",
        ])
