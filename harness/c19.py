"""C19 — batches partition the work; option grids enumerate every combination once.

Model: lean/HydroVerif/Model/C19.lean; theorems: lean/HydroVerif/Props/C19.lean; lemmas: lean/HydroVerif/Lemmas/C19.lean.
Correspondence (real code vs model driver, request by request):
  `get_batch` (three guards + numpy's array_split arithmetic: `split n k` rows compare np.array_split itself),
  `SiteBatch(ids, nbatch)` / `sb[i]` / `sb.search(id)` on the site ids themselves (integer or string ids, repeated ids,
  nbatch <= 0 and > nsites), `OptionManager.from_cartesian_product` (lists, tuples, ranges, generators, iterators, bare
  scalars incl. floats, empty and non-iterable values) / `get_task` / `task[key]` / `find` and `search("^v$")` with zero
  or more criteria / `to_dict -> json -> from_dict` / `==` / `save` / `from_file`, and HISTORIES: one manager object, the
  module-level key names, ONE exported dictionary (read any number of times, before and after json) and json files,
  driven through random operation lists that include rejected operations; the model side is `run` of Model/C19.lean on
  the same list.  Call sequences of get_batch / SiteBatch objects repeat rejected configurations (the function has no
  memory, objects do not interfere).
Oracle (failing-input search, on the real code only, independent of the model): partition / size / search / product /
  get_task / find / round-trip facts, stated on the inputs of the property's quantifier only: every reading of an
  exported dictionary (dictionary leg, json leg, the same dictionary again, a json file) gives back the manager it was
  exported from; list objects handed to the manager twice still hold their values.
Cases: all (n, k, i) up to a bound incl. rejected calls, random large n, call sequences with repeated rejected calls
  and interleaved SiteBatch objects; option dictionaries of 1..4 options x 1..5 values (ints, identifiers, bare
  scalars incl. floats, any container), context dicts (falsy and empty values), renamed dictionary keys; operation
  lists of 4..14 steps.  Beyond the quantifier (correspondence only, no oracle): repeated option values, values with
  `.`/`[`/`]`, key names that collide at the top level, non-iterable options, unknown keys.  Where neither the property
  nor a hypothesis of a theorem says anything (which bare values must be refused and what a refused grid leaves behind,
  `find` on values with `.`/brackets, nbatch < 1 or an absent site on a SiteBatch, an option without values, an unknown
  key on a manager without tasks, key names that collide inside a task dictionary, `==` between managers that differ)
  both sides are run and a difference from the model is tallied in the evidence (`outside_property_differences`): it is
  neither a finding nor a disagreement.
A case is non-trivial when the call is accepted and returns a non-empty result.
"""
import copy
import itertools
import json
import tempfile
from pathlib import Path

from . import common as C

PID = "C19"

TASK_LEVEL_COLLISIONS = {("c", "c", "o"), ("context", "taskid", "options"), ("taskid", "options", "mo")}
IDENT = ["a", "ab", "abc", "b_1", "A", "zz9", "model", "mod", "el", "Model", "AB", "d", "D", "x1", "q", "solo", "x_y",
         "upper", "murray", "flow"]


def tok(v):
    """typed token of a python value (bool before int: a bool is an int)"""
    if isinstance(v, bool) or v is None:
        return "o" + repr(v)
    if isinstance(v, int):
        return f"i{v}"
    if isinstance(v, float):
        return "f" + repr(v)
    if isinstance(v, str):
        return "s" + v
    return "o" + repr(v).replace(" ", "")


def plain(v):
    return not any(c in str(v) for c in ".[]")


def quant(v):
    """a value of the property's quantifier: an integer, or an identifier-like string (an ASCII letter, no . [ ])"""
    if isinstance(v, bool):
        return False
    if isinstance(v, int):
        return True
    return isinstance(v, str) and plain(v) and any(c.isascii() and c.isalpha() for c in v)


# ---------------------------------------------------------------- option arguments
# an argument is (kind, values): kind in bare / list / tuple / range / gen / iter / none
def realize(arg):
    kind, vals = arg
    if kind == "bare":
        return vals[0]
    if kind == "list":
        return list(vals)
    if kind == "tuple":
        return tuple(vals)
    if kind == "range":
        return range(vals[0], vals[-1] + 1) if vals else range(0)
    if kind == "gen":
        return (v for v in list(vals))
    if kind == "iter":
        return iter(list(vals))
    if kind == "none":
        return None
    raise AssertionError(kind)


def arg_row(arg):
    kind, vals = arg
    if kind == "bare":
        return "!" + tok(vals[0])
    if kind == "none":
        return "?"
    return ",".join(tok(v) for v in vals) if vals else "-"


def arg_values(arg):
    return list(arg[1])


def enc_args(args):
    """args: dict key -> arg"""
    return C.slist(args.keys()), "[" + ";".join(arg_row(a) for a in args.values()) + "]"


def enc_dict(d):
    return C.slist(d.keys()), "[" + ",".join(tok(v) for v in d.values()) + "]"


def fmt_dict(d):
    return "[" + ",".join(f"{k}={tok(v)}" for k, v in d.items()) + "]"


def gen_values(rng, nv=None):
    """1..5 distinct values of one option: ints, identifier-like strings, or both"""
    nv = nv or rng.randint(1, 5)
    kind = rng.choice(["int", "str", "mixed", "intlike"])
    if kind == "int":
        return rng.sample(range(-3, 40), nv)
    if kind == "str":
        return rng.sample(IDENT, nv)
    if kind == "mixed":
        return rng.sample([1, 10, 11, "x1", "one", 100, "a", 0, "all", "auto", -1, "n_1"], nv)
    # strings that begin like numbers of the same option (anchoring of find): 1 / 10 / 100 / 1x
    return rng.sample([1, 10, 100, 11, "1x", "x1", "x10", 0, "0x"], nv)


def gen_args(rng, containers=True, nopt=None):
    """an option dictionary inside the property's quantifier: 1..4 options, 1..5 values each, any container, bare scalars"""
    if rng.random() < 0.15:
        # values that collide when combinations are labelled by joining their string forms:
        # (a, b_c) and (a_b, c) both read "a_b_c"; likewise with "-", "" and digits
        sep = rng.choice(["_", "", "_"])
        a, b, c = rng.sample(["upper", "murray", "flow", "x", "q1", "ab", "k7"], 3)
        k1, k2 = rng.sample(["region", "variable", "alpha", "k"], 2)
        args = {k1: ("list", [a, a + sep + b]), k2: ("list", [b + sep + c, c])}
        if rng.random() < 0.5:
            args[rng.choice(["month", "site_id"])] = ("list", rng.sample(range(1, 13), rng.randint(1, 3)))
        if rng.random() < 0.3:
            # the same collision with integers: (1, 23) vs (12, 3)
            args = {k1: ("list", [1, 12]), k2: ("list", [23, 3])}
        return args
    nopt = nopt or rng.randint(1, 4)
    keys = rng.sample(["alpha", "beta", "month", "site_id", "x1", "k"], nopt)
    args = {}
    for k in keys:
        r = rng.random()
        if r < 0.25:
            v = rng.choice([rng.randint(0, 12), rng.choice(["solo", "a", "x_y"]), rng.randint(-5, -1),
                            rng.choice([0.5, 2.0, -1.25, 0.001, 1e-05, 100.0])])
            args[k] = ("bare", [v])
            continue
        vals = gen_values(rng)
        kind = "list"
        if containers and rng.random() < 0.4:
            kind = rng.choice(["tuple", "gen", "iter", "range"])
            if kind == "range":
                lo = rng.randint(-2, 12)
                vals = list(range(lo, lo + rng.randint(1, 5)))
        args[k] = (kind, vals)
    return args


def typed(x):
    """type-sensitive picture of tasks / options / context (python `==` identifies 1, 1.0 and True)"""
    if isinstance(x, dict):
        return {k: typed(v) for k, v in x.items()}
    if isinstance(x, (list, tuple)):
        return [type(x).__name__] + [typed(v) for v in x]
    return tok(x)


def snapshot(opm):
    return {"name": opm.name, "context": typed(opm.context), "options": typed(opm.options), "tasks": typed(opm.tasks)}


def same_as(m2, snap):
    """snapshot(m2) == snap, without walking a task list of another length"""
    try:
        if len(m2.tasks) + 1 != len(snap["tasks"]):
            return False
    except Exception:  # noqa
        return False
    return snapshot(m2) == snap


def well_kinded(m):
    """fields of the kinds the model's Manager holds (see `fromDict` in Model/C19.lean)"""
    try:
        if not isinstance(m.context, dict) or any(isinstance(v, (list, dict)) and len(v) > 0 for v in m.context.values()):
            return False
        if not isinstance(m.options, dict) or any(not isinstance(v, list) for v in m.options.values()):
            return False
        if not isinstance(m.tasks, list) or any(not isinstance(t, dict) for t in m.tasks):
            return False
        return not any(isinstance(v, (list, dict)) for t in m.tasks for v in t.values())
    except Exception:  # noqa
        return False


def body(ctx):
    from hydrodiy.io import hyruns
    import numpy as np
    rng = ctx.rng
    lean = ctx.lean
    reqs, impls, cases, strict = [], [], [], []

    def enough():
        """plenty of failing inputs already: a broken tree need not be walked to the end (objects may have grown without bound)"""
        return sum(ctx.finding_counts.values()) >= 60

    def add(req, impl, case, exact=False):
        reqs.append(req)
        impls.append(impl)
        cases.append(case)
        strict.append(exact)

    def call_batch(n, k, i):
        try:
            r = hyruns.get_batch(n, k, i)
            return True, r, "ok"
        except ValueError as e:
            msg = str(e)
            return False, None, "err " + ("nelemLt1" if "nelements>=1" in msg else "nelemLtNbatch" if ">= nbatch" in msg
                                          else "ibatchRange" if "ibatch" in msg else "other:" + msg)
        except Exception as e:  # noqa
            return False, None, f"err other:{type(e).__name__}"

    def check_batch(n, k, i, partitions=None, how="get_batch"):
        ok, r, impl = call_batch(n, k, i)
        valid = 1 <= k <= n and 0 <= i < k
        if ok:
            r = [int(x) for x in r]
            if not valid:
                ctx.finding("get_batch/accepts_invalid", "a call outside 1<=nbatch<=nelements, 0<=ibatch<nbatch was accepted",
                            {"n": n, "k": k, "i": i, "how": how})
            elif r != list(range(r[0], r[0] + len(r))) if r else False:
                ctx.finding("get_batch/not_contiguous", "batch is not a contiguous increasing range", {"n": n, "k": k, "i": i, "batch": r[:50]})
            if valid:
                q, rem = divmod(n, k)
                want = (i * q + min(i, rem), q + (1 if i < rem else 0))
                if (r[0] if r else None, len(r)) != want:
                    ctx.finding("get_batch/not_partition", "a batch is not the i-th of the contiguous, ordered, balanced split "
                                "(the batches of one (nelements, nbatch) must be disjoint and cover every element)",
                                {"n": n, "k": k, "i": i, "start": r[0] if r else None, "len": len(r), "expected": want, "how": how})
            if partitions is not None:
                partitions.setdefault((n, k), {})[i] = (r[0] if r else None, len(r))
        elif valid:
            ctx.finding("get_batch/rejects_valid", "a valid call was rejected", {"n": n, "k": k, "i": i, "reply": impl, "how": how})
        return ok, r, impl

    # ---------------- get_batch, every (n, k, i) to a bound
    nmax = ctx.scale(40, 60)
    triples = []
    for n in range(-1, nmax + 1):
        for k in range(-1, n + 3):
            for i in range(-1, k + 2):
                triples.append((n, k, i))
    for _ in range(ctx.scale(300, 3000)):
        n = rng.randint(1, 10 ** rng.randint(1, 6))
        k = rng.randint(1, min(n, 2000) + (1 if rng.random() < 0.05 else 0))
        i = rng.randint(-1, k)
        triples.append((n, k, i))
    partitions = {}
    for (n, k, i) in triples:
        ok, r, impl = check_batch(n, k, i, partitions)
        if ok and len(r) > 600:
            ctx.count((n, k, i), True, "large")   # compared through the oracle's closed form only
            continue
        add(f"batch {n} {k} {i}", ("ok " + C.ilist(r)) if ok else impl, {"n": n, "k": k, "i": i})
        ctx.count((n, k, i), ok and len(r) > 0, "accepted" if ok else impl.split()[1],
                  sample={"get_batch": [n, k, i], "reply": (("ok " + C.ilist(r)) if ok else impl)[:80]})
    # oracle on complete partitions
    for (n, k), d in partitions.items():
        if len(d) != k:
            continue
        pos, sizes = 0, []
        for i in range(k):
            st, ln = d[i]
            if ln and st != pos:
                ctx.finding("get_batch/not_partition", "batches are not consecutive/disjoint/covering", {"n": n, "k": k, "i": i, "start": st, "expected": pos})
                break
            pos += ln
            sizes.append(ln)
        else:
            if pos != n:
                ctx.finding("get_batch/not_partition", "batches do not cover every element", {"n": n, "k": k, "covered": pos})
            if max(sizes) - min(sizes) > 1:
                ctx.finding("get_batch/unbalanced", "batch sizes differ by more than one", {"n": n, "k": k, "sizes": sizes})

    # ---------------- numpy's array_split itself against the model's mirrored arithmetic
    for n in range(0, ctx.scale(24, 40)):
        for k in range(1, n + 3):
            parts = np.array_split(np.arange(n), k)
            sizes = [len(p) for p in parts]
            points = [0] + [int(x) for x in np.cumsum(sizes)]
            impl = ("[" + ";".join(",".join(str(int(x)) for x in p) for p in parts) + "]"
                    + f" sizes={C.ilist(sizes)} points={C.ilist(points)} closed=true bsize=true bstart=true")
            add(f"split {n} {k}", impl, {"n": n, "k": k}, exact=True)
            ctx.count(("split", n, k), n > 0, "array_split")

    # ---------------- call sequences: get_batch has no memory, SiteBatch objects do not interfere
    def mk_ids(n, strings):
        if strings:
            return [f"{rng.choice('ABGQ')}{x}" for x in rng.sample(range(100, 999), n)]
        return rng.sample(range(1000, 5000), n)

    for _ in range(ctx.scale(120, 1200)):
        pool = []
        for _ in range(rng.randint(1, 3)):
            n = rng.randint(1, 30)
            k = rng.choice([rng.randint(1, n), rng.randint(1, n), rng.randint(1, n), n, n + rng.randint(1, 3), 0, -1])
            ids = mk_ids(n, rng.random() < 0.3)
            try:
                sb0 = hyruns.SiteBatch(ids, k)
            except Exception as e:  # noqa: the property does not say WHEN an invalid number of batches is rejected
                sb0 = None
                if 1 <= k <= n:
                    ctx.finding("sitebatch/rejects_valid", "SiteBatch rejects 1 <= nbatch <= nsites and distinct ids",
                                {"ids": ids, "k": k, "error": f"{type(e).__name__}: {e}"[:200]})
            pool.append((ids, k, sb0))
        last = None
        for step in range(rng.randint(4, 12)):
            r = rng.random()
            if r < 0.35 and last is not None and last[0] == "batch":
                # the same configuration again (often a rejected one), next or same index
                _, n, k, i = last
                i = rng.choice([i, i + 1, i, 0])
                what = ("batch", n, k, i)
            elif r < 0.55:
                n = rng.randint(-1, 30)
                k = rng.choice([rng.randint(1, max(n, 1)), n + rng.randint(1, 4), rng.randint(-1, 3)])
                what = ("batch", n, k, rng.randint(-1, max(k, 0) + 1))
            elif r < 0.75:
                j = rng.randrange(len(pool))
                what = ("item", j, rng.randint(-1, max(pool[j][1], 0) + 1))
            else:
                j = rng.randrange(len(pool))
                ids = pool[j][0]
                what = ("search", j, rng.choice(ids + ids + [-5 if isinstance(ids[0], int) else "nosite"]))
            last = what
            if what[0] == "batch":
                _, n, k, i = what
                ok, r_, impl = check_batch(n, k, i, how="sequence")
                add(f"batch {n} {k} {i}", ("ok " + C.ilist(r_)) if ok else impl, {"n": n, "k": k, "i": i, "step": step})
                ctx.count(("seq", n, k, i, step), ok, "sequence_batch")
                continue
            ids, k, sb = pool[what[1]]
            n = len(ids)
            valid_cfg = 1 <= k <= n
            q, rem = divmod(n, k) if valid_cfg else (0, 0)
            starts = [i * q + min(i, rem) for i in range(k + 1)] if valid_cfg else []
            if what[0] == "item":
                i = what[2]
                try:
                    if sb is None:
                        raise ValueError("rejected by the constructor")
                    got = sb[i]
                    impl = "ok " + C.slist(got)
                except ValueError:
                    got, impl = None, "err"
                except Exception as e:  # noqa
                    got, impl = None, f"err other:{type(e).__name__}"
                add(f"sbitem {C.slist(ids)} {k} {i}", impl, {"ids": ids, "k": k, "i": i, "step": step})
                ctx.count(("sbitem", tuple(ids), k, i, step), got is not None, "sequence_item")
                if valid_cfg and 0 <= i < k:
                    if got is None or list(got) != ids[starts[i]:starts[i + 1]]:
                        ctx.finding("sitebatch/item_not_slice", "sb[i] is not the i-th contiguous slice of the site list",
                                    {"ids": ids, "k": k, "i": i, "got": got})
                elif got is not None:
                    ctx.finding("get_batch/accepts_invalid", "sb[i] is answered for a rejected configuration / index",
                                {"ids": ids, "k": k, "i": i, "got": got, "how": "SiteBatch"})
            else:
                site = what[2]
                try:
                    if sb is None:
                        raise ValueError("rejected by the constructor")
                    got = sb.search(site)
                    impl = "none" if got is None else f"some {got}"
                    raised = False
                except Exception as e:  # noqa
                    got, impl, raised = None, "err " + type(e).__name__, True
                add(f"sbsearch {C.slist(ids)} {k} {site}", impl, {"ids": ids, "k": k, "site": site, "step": step})
                ctx.count(("sbsearch", tuple(ids), k, site, step), got is not None, "sequence_search")
                if valid_cfg:
                    if site in ids:
                        s = ids.index(site)
                        want = next(i for i in range(k) if starts[i] <= s < starts[i + 1])
                        if raised:
                            ctx.finding("search/raises_for_listed_site", "search raises for a site of the list", {"ids": ids, "k": k, "site": site})
                        elif got != want:
                            ctx.finding("search/wrong_batch", "search does not return the batch containing the site",
                                        {"ids": ids, "k": k, "site": site, "got": got, "expected": want})
                    elif got is not None:
                        ctx.finding("search/phantom", "search finds a site that is not in the list", {"ids": ids, "k": k, "site": site})
                elif k > n and not raised:
                    ctx.finding("get_batch/accepts_invalid", "search answers for nbatch > nsites", {"ids": ids, "k": k, "got": got, "how": "SiteBatch.search"})

    # ---------------- SiteBatch: one search per object (positions), repeated ids are rejected
    for _ in range(ctx.scale(300, 3000)):
        n = rng.randint(1, 60)
        k = rng.randint(1, n)
        ids = mk_ids(n, rng.random() < 0.25)
        sb = hyruns.SiteBatch(ids, k)
        s = rng.randrange(n + 2)
        site = ids[s] if s < n else (-5 if isinstance(ids[0], int) else "nosite")
        try:
            got = sb.search(site)
        except Exception:  # noqa  (a site that is in no batch may as well be reported with an exception)
            got = None
            if s < n:
                ctx.finding("search/raises_for_listed_site", "search raises for a site of the list", {"n": n, "k": k, "pos": s})
        add(f"search {n} {k} {s}", "none" if got is None else f"some {got}", {"n": n, "k": k, "pos": s})
        add(f"sbsearch {C.slist(ids)} {k} {site}", "none" if got is None else f"some {got}", {"ids": ids, "k": k, "site": site})
        ctx.count(("search", n, k, s), got is not None, "search")
        if s < n:
            if got is None or site not in sb[got]:
                ctx.finding("search/wrong_batch", "search does not return the batch containing the site", {"n": n, "k": k, "pos": s, "got": got})
            else:
                # batch i of a SiteBatch holds the sites at the positions get_batch(nsites, nbatch, i) of the list AS GIVEN
                q, r = divmod(n, k)
                starts = [i * q + min(i, r) for i in range(k + 1)]
                want = next(i for i in range(k) if starts[i] <= s < starts[i + 1])
                members = list(sb[got])
                if got != want or members != [ids[j] for j in range(starts[got], starts[got + 1])]:
                    ctx.finding("search/not_batch_of_position", "the batch returned for a site is not the batch of its position in the list as given "
                                "(batches are contiguous, ordered slices of the site list)",
                                {"n": n, "k": k, "pos": s, "got": got, "expected": want, "ids": ids[:12], "batch": members[:12]})
        elif got is not None:
            ctx.finding("search/phantom", "search finds a site that is not in the list", {"n": n, "k": k})
    for _ in range(ctx.scale(40, 400)):
        n = rng.randint(2, 12)
        ids = mk_ids(n, rng.random() < 0.3)
        dup = rng.random() < 0.7
        if dup:
            ids[rng.randrange(n)] = ids[rng.randrange(n)]
        dup = len(set(ids)) < n
        try:
            hyruns.SiteBatch(ids, 1)
            impl = "ok " + C.slist(ids)
        except Exception as e:  # noqa
            impl = "err nonUnique" if dup else f"err other:{type(e).__name__}"
        add(f"sbitem {C.slist(ids)} 1 0", impl, {"ids": ids}, exact=True)
        ctx.count(("sbnew", tuple(ids)), not dup, "sitebatch_unique" if not dup else "sitebatch_repeated_ids")

    # ---------------- option manager, one call each
    def expected_tasks(args):
        keys = list(args.keys())
        return keys, [dict(zip(keys, t)) for t in itertools.product(*[arg_values(args[k]) for k in keys])]

    def build(name, ctxd, args):
        opm = hyruns.OptionManager(name, **ctxd)
        opm.from_cartesian_product(**{k: realize(a) for k, a in args.items()})
        return opm

    def find_oracle_applies(args, crit):
        for k, v in crit.items():
            vals = arg_values(args[k])
            if not (plain(v) and all(plain(x) for x in vals)) and not (args[k][0] == "bare" and tok(v) == tok(vals[0])):
                return False
        return True

    def roundtrip_legs(opm, snap, case, tmp, legs):
        """every reading of ONE exported dictionary gives back the manager: dictionary leg, json leg, the same dictionary
        again, a json file; in the order `legs`"""
        dd = None
        try:
            dd = opm.to_dict()
        except Exception as e:  # noqa
            ctx.finding("roundtrip/raises", "to_dict of a cartesian-product manager raises", {**case, "error": f"{type(e).__name__}: {e}"[:200]})
            return None
        res = []
        for leg in legs:
            try:
                if leg == "dict":
                    m2 = hyruns.OptionManager.from_dict(dd)
                elif leg == "json":
                    m2 = hyruns.OptionManager.from_dict(json.loads(json.dumps(dd)))
                else:
                    path = Path(tmp) / f"rt_{rng.randrange(10 ** 9)}.json"
                    opm.save(path)
                    m2 = hyruns.OptionManager.from_file(path, wait_secs=0)
            except Exception as e:  # noqa: a round trip that cannot be made is a violation, not a harness failure
                ctx.finding("roundtrip/raises" + case.get("sigtag", ""), "the dictionary/JSON round trip of a cartesian-product manager raises",
                            {**case, "leg": leg, "legs": legs, "error": f"{type(e).__name__}: {e}"[:200]})
                res.append(None)
                continue
            try:
                e1, e2 = bool(opm == m2), bool(m2 == opm)
            except Exception as e:  # noqa
                ctx.finding("roundtrip/raises" + case.get("sigtag", ""), "comparing a manager with its round trip raises",
                            {**case, "leg": leg, "legs": legs, "error": f"{type(e).__name__}: {e}"[:200]})
                res.append(None)
                continue
            same = same_as(m2, snap)
            res.append((e1, e2, same, m2.ntasks))
            if not (e1 and e2 and same):
                ctx.finding("roundtrip/not_equal" + case.get("sigtag", ""), "manager rebuilt from its dictionary differs from the original",
                            {**case, "leg": leg, "legs": legs, "eq": [e1, e2], "same": same, "ntasks": m2.ntasks})
        return res

    # renamed keys of the quantifier: names that do not collide (the task-level names differ from each other and from
    # "taskid", the top-level names from each other and from "name" / "tasks"); collisions are probed further down
    keysets = [("context", "options", "options"), ("ctx", "opt", "mopt"), ("context", "task_opts", "options"),
               ("cfg", "options", "opts2")]
    ctxpool = [1, "a", "run_7", 33, 0, False, None, 0.0, "", 2.5, -4]
    tmpdir = tempfile.TemporaryDirectory(prefix="c19_")
    tmp = tmpdir.name
    for it in range(ctx.scale(300, 3000)):
        if enough():
            break
        args = gen_args(rng)
        # context values include falsy ones (0, False, None, 0.0, ""): a value that tests false is still a value
        ctxd = {k: rng.choice(ctxpool) for k in rng.sample(["c1", "c2", "who"], rng.randint(0, 2))}
        kn = rng.choice(keysets)
        hyruns.reset_dict_keyname()
        hyruns.set_dict_keyname("context_name", kn[0])
        hyruns.set_dict_keyname("task_options_name", kn[1])
        hyruns.set_dict_keyname("manager_options_name", kn[2])
        shown = {k: list(a) for k, a in args.items()}
        conts = sorted({a[0] for a in args.values()} - {"list", "bare"})
        case0 = {"options": shown, "context": ctxd, "keynames": kn}
        try:
            opm = build("nm", ctxd, args)
            keys, want = expected_tasks(args)
            kt, vt = enc_args(args)
            impl = f"n={opm.ntasks} [" + ";".join(",".join(tok(t[k]) for k in keys) for t in opm.tasks) + "] fc=true"
            add(f"product {kt} {vt}", impl, case0)
            ctx.count(("product", kt, vt), opm.ntasks > 1, "product" + ("+" + "+".join(conts) if conts else ""),
                      sample={"options": shown, "ntasks": opm.ntasks})
            # oracle: every combination exactly once (as typed values: 1 and "1" are different values)
            if sorted(map(repr, map(typed, want))) != sorted(map(repr, map(typed, opm.tasks))):
                ctx.finding("product/not_each_once", "tasks are not every combination exactly once", case0)
            # the option lists the manager keeps are the values given
            if typed({k: list(v) for k, v in opm.options.items()}) != typed({k: arg_values(a) for k, a in args.items()}):
                ctx.finding("product/options_not_kept", "the manager does not keep the option values it was given", {**case0, "kept": repr(opm.options)[:200]})
            # get_task / task[key]
            for _ in range(2):
                tid = rng.choice([rng.randrange(opm.ntasks), rng.randrange(opm.ntasks), -1, opm.ntasks, opm.ntasks + 2])
                key = rng.choice(keys + list(ctxd.keys()) + ["nokey"])
                ck, cv = enc_dict(ctxd)
                try:
                    t = opm.get_task(tid)
                    try:
                        got = tok(t[key])
                    except AssertionError:
                        got = "err"
                    hyruns.reset_dict_keyname()
                    same_td = t.to_dict() == opm.to_dict()["tasks"][tid]
                    impl = f"task:{t.taskid}:{fmt_dict(t.context)}:{fmt_dict(t.options)} get={got} todict={str(same_td).lower()}"
                    if typed(t.options) != typed(want[tid]) or t.taskid != tid:
                        ctx.finding("get_task/not_the_combination", "get_task(i) is not the i-th combination", {**case0, "taskid": tid})
                except AssertionError:
                    impl = "err"
                    if 0 <= tid < len(want):
                        ctx.finding("get_task/rejects_valid", "get_task rejects a task number in range", {**case0, "taskid": tid})
                finally:
                    hyruns.set_dict_keyname("context_name", kn[0])
                    hyruns.set_dict_keyname("task_options_name", kn[1])
                    hyruns.set_dict_keyname("manager_options_name", kn[2])
                add(f"gettask {ck} {cv} {kt} {vt} {tid} {key}", impl, {**case0, "taskid": tid, "key": key}, exact=True)
                ctx.count(("gettask", kt, vt, tid, key), impl != "err", "get_task")
            # find, one or more criteria
            for _ in range(3):
                ncrit = 1 if rng.random() < 0.7 else min(len(keys), rng.randint(0, 3))
                crit = {}
                for key in rng.sample(keys, ncrit):
                    crit[key] = rng.choice(arg_values(args[key]) * 3 + [rng.choice([1, "a", 7, "zz", 10, "x"])])
                how = rng.choice(["find", "find", "search"])
                found = opm.find(**crit) if how == "find" else opm.search(**{k: f"^{v}$" for k, v in crit.items()})
                ck, cv = enc_dict(crit)
                pl = all(plain(v) for v in crit.values()) and all(plain(x) for a in args.values() for x in arg_values(a))
                qu = all(quant(v) for v in crit.values()) and all(quant(x) for a in args.values() for x in arg_values(a))
                add(f"find {kt} {vt} {ck} {cv}", f"ok {C.ilist(found)} plain={str(pl).lower()} quant={str(qu).lower()}", {**case0, "criteria": crit}, exact=True)
                ctx.count(("find", kt, vt, ck, cv), len(found) > 0, "find" if ncrit == 1 else f"find_{ncrit}_criteria")
                if find_oracle_applies(args, crit):
                    expect = [i for i, t in enumerate(want) if all(str(t[k]) == str(v) for k, v in crit.items())]
                    if found != expect:
                        ctx.finding("find/not_equality_filter", "find does not return exactly the tasks whose option equals the value",
                                    {**case0, "criteria": crit, "found": found, "expected": expect, "how": how})
            # a key that is not an option is rejected
            bad = rng.choice(["nokey", "Alpha", "alph", "month_"] + [k + "x" for k in keys])
            if bad not in keys:
                try:
                    r = "ok " + C.ilist(opm.find(**{bad: 1}))
                except AssertionError:
                    r = "err unknownKey"
                except Exception as e:
                    r = "err " + type(e).__name__
                add(f"find {kt} {vt} [{bad}] [i1]", r, {**case0, "key": bad})
                ctx.count(("findbad", kt, bad), True, "find_unknown_key")
            # round trip: every reading of one exported dictionary
            snap = snapshot(opm)
            legs = rng.sample(["dict", "json", "dict", "json", "file"], rng.randint(2, 4))
            sigtag = ":container" if conts else ""
            res = roundtrip_legs(opm, snap, {**case0, "containers": conts, "sigtag": sigtag}, tmp, legs)
            ck, cv = enc_dict(ctxd)
            if res is not None and res and res[0] is not None:
                e1, e2, same, nt = res[0]
                impl = f"some {str(e1).lower()} {str(e2).lower()} {str(same).lower()} {nt} knok=true okeq=true"
                add(f"roundtrip {kn[0]} {kn[1]} {kn[2]} nm {ck} {cv} {kt} {vt}", impl, case0, exact=True)
            ctx.count(("rt", kn, ck, cv, kt, vt, tuple(legs)), True, "roundtrip")
        finally:
            hyruns.reset_dict_keyname()

    # ---------------- histories on ONE manager object, the key names, ONE exported dictionary and files
    okpool = {"context_name": ["context", "ctx", "cfg"], "task_options_name": ["options", "opt", "topts"],
              "manager_options_name": ["options", "mopt", "opts2"]}
    for it in range(ctx.scale(250, 2500)):
        if enough():
            break
        hyruns.reset_dict_keyname()
        ctxd = rng.choice([{}, {"c1": ""}, {"c1": []}, {"who": {}}, {"c1": 0, "c2": ""}, {"c1": "a", "c2": []}, {"c1": 7, "who": None},
                           {"c2": False}])
        opm = hyruns.OptionManager("hist", **ctxd)
        kn = {"context_name": "context", "task_options_name": "options", "manager_options_name": "options"}
        cur_args, cur_ok = None, True       # last grid given, and whether it was accepted
        want = []                           # the combinations the manager must hold now ([] before the first grid)
        reg, reg_snap, reg_kn = None, None, None
        files = {}                          # path -> (snapshot, key names) of the last save the oracle knows took effect
        held = {}                           # list objects handed to the manager earlier (handed again later)
        shape = None
        ops, outs, loose = [], [], []
        tainted = False
        trace = []
        for step in range(rng.randint(4, 14)):
            if opm.ntasks > 5000 or enough():
                break       # no grid of the quantifier has more than 5**4 tasks: the object grows without bound, stop driving it
            if tainted:
                # after a grid with an option that is neither a scalar nor iterable (outside the quantifier) the property says
                # nothing about the state the manager is left in: the model states the one of this code (rejected, options partly
                # rebuilt, old tasks); answers are compared to the end of the history, but a difference is only tallied
                loose.append(len(ops))
            r = rng.random()
            fresh_case = {"context": ctxd, "trace": trace[-8:], "step": step}
            if r < 0.22 or (step == 0 and r < 0.7):
                # regenerate the grid: often the same keys and numbers of values as the grid before, other values / order;
                # sometimes the very same list objects again; rarely an argument that is not iterable
                args = gen_args(rng)
                if shape is not None and rng.random() < 0.6:
                    args = {k: (("list", gen_values(rng, n)) if n > 0 else a) for (k, n, a) in shape}
                bad = rng.random() < 0.08
                if bad:
                    keys_ = list(args.keys())
                    args[rng.choice(keys_)] = ("none", [])
                    if rng.random() < 0.5:
                        args = dict(sorted(args.items(), key=lambda kv: rng.random()))
                kw = {}
                for k, a in args.items():
                    if a[0] == "list" and k in held and rng.random() < 0.3:
                        args[k] = ("list", list(held[k][1]))
                        kw[k] = held[k][0]          # the same list object as in an earlier call
                    else:
                        kw[k] = realize(a)
                        if a[0] == "list":
                            held[k] = (kw[k], list(a[1]))
                bad = any(a[0] == "none" for a in args.values())
                kt, vt = enc_args(args)
                ops.append(f"C:{kt}:{vt}")
                if bad:
                    # an option that is neither a scalar nor iterable is outside the quantifier, and the property does not say which
                    # values must be refused: this tree may reject it (the model does) or take it as one more bare value.  From here
                    # on the history is run on both sides, a difference is only tallied (outside_property_differences)
                    tainted = True
                    loose.append(len(ops) - 1)
                try:
                    opm.from_cartesian_product(**kw)
                    outs.append("ok")
                    accepted = True
                except Exception as e:  # noqa
                    outs.append("err")
                    accepted = False
                    if not bad and not isinstance(e, TypeError):
                        outs[-1] = f"err other:{type(e).__name__}"
                trace.append(f"from_cartesian_product({ {k: list(a) for k, a in args.items()} })")
                if bad:
                    cur_ok = False
                elif accepted:
                    cur_args, cur_ok = args, True
                    shape = [(k, len(a[1]) if a[0] != "bare" else 0, a) for k, a in args.items()]
                    keys, want = expected_tasks(args)
                    if typed(opm.tasks) != typed(want):
                        ctx.finding("product/not_each_once", "tasks of a regenerated grid are not every combination exactly once",
                                    {**fresh_case, "options": {k: list(a) for k, a in args.items()}})
                else:
                    cur_ok = False
                    ctx.finding("product/rejects_valid", "a valid option dictionary was rejected", {**fresh_case, "options": {k: list(a) for k, a in args.items()}})
                ctx.count(("hist", it, step, "C"), accepted, "history_grid" + ("" if accepted else "_rejected"))
            elif r < 0.42:
                if cur_args is None or not cur_ok:
                    crit = {rng.choice(["alpha", "month", "nokey"]): 1}
                else:
                    keys = list(cur_args.keys())
                    crit = {}
                    for key in rng.sample(keys, 1 if rng.random() < 0.75 else min(len(keys), 2)):
                        crit[key] = rng.choice(arg_values(cur_args[key]) * 3 + [1, "a", 10])
                    if rng.random() < 0.08:
                        crit["nokey"] = 1
                how = rng.choice(["find", "search"])
                ck, cv = enc_dict(crit)
                ops.append(f"F:{ck}:{cv}")
                if cur_args is None or not cur_ok:
                    # before the first grid and after a rejected one the property says nothing about `find` (no task to look at,
                    # or options and tasks that belong to different grids): the answer is compared but a difference is only counted
                    loose.append(len(ops) - 1)
                try:
                    found = opm.find(**crit) if how == "find" else opm.search(**{k: f"^{v}$" for k, v in crit.items()})
                    outs.append("ids" + C.ilist(found))
                except (AssertionError, KeyError):
                    found = None
                    outs.append("err")
                trace.append(f"{how}({crit})")
                ctx.count(("hist", it, step, "F"), bool(found), "history_find")
                if cur_ok and cur_args is not None and all(k in cur_args for k in crit) and find_oracle_applies(cur_args, crit):
                    expect = [i for i, t in enumerate(want) if all(str(t[k]) == str(v) for k, v in crit.items())]
                    if found != expect:
                        ctx.finding("find/not_equality_filter", "find on a regenerated grid does not return exactly the tasks whose option equals the value",
                                    {**fresh_case, "criteria": crit, "found": found, "expected": expect, "how": how})
            elif r < 0.50:
                n = len(want)
                tid = rng.choice([rng.randrange(n) if n else 0, rng.randrange(n) if n else 0, -1, n, n + 3])
                ops.append(f"T:{tid}")
                try:
                    t = opm.get_task(tid)
                    outs.append(f"task:{t.taskid}:{fmt_dict(t.context)}:{fmt_dict(t.options)}")
                    if cur_ok and (not 0 <= tid < n or typed(t.options) != typed(want[tid])):
                        ctx.finding("get_task/not_the_combination", "get_task(i) on a regenerated grid is not the i-th combination", {**fresh_case, "taskid": tid})
                except AssertionError:
                    outs.append("err")
                    if cur_ok and 0 <= tid < n:
                        ctx.finding("get_task/rejects_valid", "get_task rejects a task number in range", {**fresh_case, "taskid": tid})
                trace.append(f"get_task({tid})")
                ctx.count(("hist", it, step, "T"), outs[-1] != "err", "history_get_task")
            elif r < 0.62:
                ops.append("E")
                reg = opm.to_dict()
                reg_snap, reg_kn = snapshot(opm), dict(kn)
                outs.append("ok")
                trace.append("dd = to_dict()")
                ctx.count(("hist", it, step, "E"), True, "history_export")
            elif r < 0.68:
                ops.append("J")
                reg = json.loads(json.dumps(reg))
                outs.append("ok")
                trace.append("dd = json.loads(json.dumps(dd))")
                ctx.count(("hist", it, step, "J"), reg is not None, "history_json")
            elif r < 0.84:
                ops.append("I")
                trace.append("from_dict(dd)")
                try:
                    m2 = hyruns.OptionManager.from_dict(reg)
                    if not well_kinded(m2):
                        raise KeyError("a field of the wrong kind")
                    e1, e2 = bool(opm == m2), bool(m2 == opm)
                    same = same_as(m2, snapshot(opm))
                    # `==` between managers that differ is not constrained by the property (the code's `==` is one-directional)
                    outs.append(f"mgr:{str(e1).lower()}:{str(e2).lower()}:true:{m2.ntasks}" if same else f"mgr:differs:{m2.ntasks}")
                except Exception as e:  # noqa
                    m2 = None
                    outs.append("err")
                ctx.count(("hist", it, step, "I"), m2 is not None, "history_import")
                # oracle: a dictionary exported under the key names in force now gives back the manager it was exported from,
                # however often it has been read before
                if reg is not None and reg_kn == kn and kn["context_name"] not in (kn["manager_options_name"], "name", "tasks") \
                        and kn["manager_options_name"] not in ("name", "tasks"):
                    if m2 is None:
                        ctx.finding("roundtrip/raises", "an exported dictionary cannot be read back", {**fresh_case, "keynames": kn})
                    elif not same_as(m2, reg_snap):
                        ctx.finding("roundtrip/not_equal", "an exported dictionary does not give back the manager it was exported from "
                                    "(the dictionary had been read or converted before)" if trace.count("from_dict(dd)") > 1 else
                                    "an exported dictionary does not give back the manager it was exported from",
                                    {**fresh_case, "keynames": kn, "ntasks": m2.ntasks})
                    elif reg_snap == snapshot(opm) and not (opm == m2 and m2 == opm):
                        ctx.finding("roundtrip/not_equal", "a manager read back from its dictionary is not == to the original in both directions",
                                    {**fresh_case, "keynames": kn})
            elif r < 0.90:
                key = rng.choice(list(okpool) + (["bad_name"] if rng.random() < 0.15 else []))
                name = rng.choice(okpool.get(key, ["zz"]))
                ops.append(f"K:{key}:{name}")
                try:
                    hyruns.set_dict_keyname(key, name)
                    kn[key] = name
                    outs.append("ok")
                except AssertionError:
                    outs.append("err")
                trace.append(f"set_dict_keyname({key!r}, {name!r})")
                ctx.count(("hist", it, step, "K"), key in okpool, "history_set_keyname")
            elif r < 0.92:
                ops.append("R")
                hyruns.reset_dict_keyname()
                kn = {"context_name": "context", "task_options_name": "options", "manager_options_name": "options"}
                outs.append("ok")
                trace.append("reset_dict_keyname()")
                ctx.count(("hist", it, step, "R"), True, "history_reset_keynames")
            elif r < 0.96:
                path = rng.choice(["f1", "f2"])
                ow = rng.random() < 0.5
                ops.append(f"S:{path}:{int(ow)}")
                fp = Path(tmp) / f"h{it}_{path}.json"
                existed = fp.exists()
                opm.save(fp, overwrite=ow)
                outs.append("ok")
                if ow or not existed:
                    files[path] = (snapshot(opm), dict(kn))
                trace.append(f"save({path}, overwrite={ow})")
                ctx.count(("hist", it, step, "S"), ow or not existed, "history_save")
            else:
                path = rng.choice(["f1", "f2"])
                ops.append(f"L:{path}")
                fp = Path(tmp) / f"h{it}_{path}.json"
                trace.append(f"from_file({path})")
                try:
                    m2 = hyruns.OptionManager.from_file(fp, wait_secs=0)
                    if not well_kinded(m2):
                        raise KeyError("a field of the wrong kind")
                    e1, e2 = bool(opm == m2), bool(m2 == opm)
                    same = same_as(m2, snapshot(opm))
                    # `==` between managers that differ is not constrained by the property (the code's `==` is one-directional)
                    outs.append(f"mgr:{str(e1).lower()}:{str(e2).lower()}:true:{m2.ntasks}" if same else f"mgr:differs:{m2.ntasks}")
                except Exception:  # noqa
                    m2 = None
                    outs.append("err")
                ctx.count(("hist", it, step, "L"), m2 is not None, "history_load")
                if path in files and files[path][1] == kn and kn["context_name"] not in (kn["manager_options_name"], "name", "tasks") \
                        and kn["manager_options_name"] not in ("name", "tasks"):
                    if m2 is None:
                        ctx.finding("roundtrip/raises", "a saved manager cannot be read back", {**fresh_case, "keynames": kn, "path": path})
                    elif not same_as(m2, files[path][0]):
                        ctx.finding("roundtrip/not_equal", "a saved manager does not come back equal from its file", {**fresh_case, "keynames": kn, "path": path})
        hyruns.reset_dict_keyname()
        ck, cv = enc_dict(ctxd)
        add("hist hist " + ck + " " + cv + " " + " ".join(ops), " ".join(outs), {"context": ctxd, "ops": ops, "loose": loose}, exact=True)

    # ---------------- beyond the quantifier: correspondence only (the model mirrors the code there too), no oracle
    for it in range(ctx.scale(120, 1200)):
        if enough():
            break
        hyruns.reset_dict_keyname()
        kind = rng.choice(["repeat", "dots", "collide", "noniter", "empty"])
        args = gen_args(rng, containers=False)
        keys = list(args.keys())
        ctxd = {"c1": rng.choice([1, "a", 33])}
        kn = ("context", "options", "options")
        if kind == "repeat":
            k = rng.choice(keys)
            vals = arg_values(args[k])
            args[k] = ("list", vals + [rng.choice(vals)])
        elif kind == "dots":
            k = rng.choice(keys)
            args[k] = ("list", rng.sample(["v1.0", "v1x0", "a[1]", "a1", "[a]1", 0.5, "0x5", "0.5", 1.5, 105, "a.b", "a_b"], rng.randint(1, 5)))
        elif kind == "collide":
            kn = rng.choice([("x", "options", "x"), ("tasks", "options", "mo"), ("context", "options", "tasks"), ("name", "o", "mo"),
                             ("context", "o", "name"), ("c", "c", "c"), ("c", "c", "o"), ("context", "taskid", "options"),
                             ("taskid", "options", "mo")])
        elif kind == "noniter":
            args[rng.choice(keys)] = ("none", [])
        else:
            args[rng.choice(keys)] = ("list", [])
        kt, vt = enc_args(args)
        case0 = {"options": {k: list(a) for k, a in args.items()}, "context": ctxd, "keynames": kn, "kind": kind}
        opm = hyruns.OptionManager("nm", **ctxd)
        try:
            opm.from_cartesian_product(**{k: realize(a) for k, a in args.items()})
            impl = f"n={opm.ntasks} [" + ";".join(",".join(tok(t[k]) for k in keys) for t in opm.tasks) + "] fc=true"
        except TypeError:
            impl = "err typeError " + C.slist(opm.options.keys())
        except Exception as e:  # noqa: beyond the quantifier another tree may refuse what this one accepts (reported as a disagreement)
            impl = f"err other:{type(e).__name__}"
        add(f"product {kt} {vt}", impl, case0, exact=True)
        ctx.count(("beyond", kind, kt, vt), True, "beyond_" + kind)
        if kind == "noniter" or impl.startswith("err other"):
            continue
        for _ in range(2):
            key = rng.choice(keys)
            pool = arg_values(args[key]) or [1]
            crit = {key: rng.choice(pool)}
            ck, cv = enc_dict(crit)
            pl = all(plain(v) for v in crit.values()) and all(plain(x) for a in args.values() for x in arg_values(a))
            qu = all(quant(v) for v in crit.values()) and all(quant(x) for a in args.values() for x in arg_values(a))
            try:
                r = f"ok {C.ilist(opm.find(**crit))} plain={str(pl).lower()} quant={str(qu).lower()}"
            except AssertionError:
                r = "err unknownKey"
            add(f"find {kt} {vt} {ck} {cv}", r, {**case0, "criteria": crit}, exact=True)
        if kind == "empty":
            # no task, no assertion: an unknown key goes unnoticed
            pl = all(plain(x) for a in args.values() for x in arg_values(a))
            qu = all(quant(x) for a in args.values() for x in arg_values(a))
            try:
                r = f"ok {C.ilist(opm.find(nokey=1))} plain={str(pl).lower()} quant={str(qu).lower()}"
            except AssertionError:
                r = "err unknownKey"
            add(f"find {kt} {vt} [nokey] [i1]", r, {**case0, "criteria": {"nokey": 1}}, exact=True)
        hyruns.set_dict_keyname("context_name", kn[0])
        hyruns.set_dict_keyname("task_options_name", kn[1])
        hyruns.set_dict_keyname("manager_options_name", kn[2])
        try:
            m2 = hyruns.OptionManager.from_dict(json.loads(json.dumps(opm.to_dict())))
            if not well_kinded(m2):
                raise KeyError("a field of the wrong kind")
            e1, e2 = bool(opm == m2), bool(m2 == opm)
            same = same_as(m2, snapshot(opm))
            impl = f"some {str(e1).lower()} {str(e2).lower()} {str(same).lower()} {m2.ntasks}"
        except Exception:  # noqa
            impl = "none"
        finally:
            hyruns.reset_dict_keyname()
        okeq = kn[0] != kn[2] and "tasks" not in (kn[0], kn[2])
        knok = okeq and "name" not in (kn[0], kn[2])
        ck, cv = enc_dict(ctxd)
        add(f"roundtrip {kn[0]} {kn[1]} {kn[2]} nm {ck} {cv} {kt} {vt}", impl + f" knok={str(knok).lower()} okeq={str(okeq).lower()}", case0, exact=True)
    tmpdir.cleanup()

    # ---------------- correspondence
    replies = lean.ask(reqs)
    kind_differs = 0
    outside = {}

    def tally(what):
        """both sides were run on an input the property leaves open (outside the quantifier, or an answer it does not fix) and
        they differ: counted in the evidence, neither a finding nor a disagreement"""
        outside[what] = outside.get(what, 0) + 1

    for req, impl, rep, case, exact in zip(reqs, impls, replies, cases, strict):
        if not exact and impl.startswith("err") and rep.startswith("err"):
            # the property fixes WHICH calls are rejected, not the wording / exception class / which guard speaks first
            kind_differs += impl.split(":")[0] != rep
            continue
        kind = case.get("kind")
        if req.startswith("sbsearch ") and rep == "none" and impl.startswith("err") \
                and (int(req.split()[2]) < 1 or case.get("site") not in case.get("ids", [])):
            # nbatch < 1 and a site that is not in the list are outside the quantifier: "nothing found" and "rejected" are both in order
            tally("search for an absent site, or nbatch < 1: rejected instead of nothing found")
            continue
        if kind == "collide" and tuple(case.get("keynames", ())) in TASK_LEVEL_COLLISIONS and impl != rep:
            # key names that collide inside a task dictionary are outside the quantifier and no theorem excludes them: the
            # model follows the dictionary literal of the code (last entry wins); another tree may order it otherwise
            tally("key names colliding inside a task dictionary")
            continue
        if kind == "noniter" and impl != rep:
            # the property does not say which bare values must be refused, nor what a refused call leaves behind
            tally("an option that is neither a scalar nor iterable: accepted, or another state left behind")
            continue
        if kind == "dots" and req.startswith("find ") and impl != rep:
            # values with `.`, `[`, `]` (floats in lists, dotted names): outside the quantifier; this code's regular expression
            # over-matches there (theorem valMatch_counterexamples), an exact comparison is as good
            tally("find on values with regular-expression metacharacters or brackets")
            continue
        if kind == "empty" and req.startswith("find ") and rep.startswith("ok []") and impl.startswith("err"):
            tally("unknown key on a manager without tasks: rejected instead of nothing found")
            continue
        if kind == "empty" and impl.startswith("err other"):
            # an option without values is outside the quantifier (1 to 5 values): "no task" and "rejected" are both in order
            tally("an option without values: rejected instead of no task")
            continue
        if req.startswith("hist "):
            # reply of the model: one token per operation, then a summary token (n=..., consistency of `run` with the fold)
            rt = rep.split()
            rep = " ".join(rt[:-1]) if rt and rt[-1].startswith("n=") else rep
            if rt and rt[-1].startswith("n=") and not rt[-1].startswith(f"n={len(impl.split())},"):
                rep += " " + rt[-1]
            if impl != rep and case.get("loose"):
                a_, b_ = impl.split(), rep.split()
                if len(a_) == len(b_) and all(x == y or i in case["loose"] for i, (x, y) in enumerate(zip(a_, b_))):
                    tally("answers before the first grid, or after a grid with an option that is neither a scalar nor iterable")
                    continue
        ctx.compare("C19", {"request": req, **case}, impl, rep)
    ctx.extra["outside_property_differences"] = outside
    ctx.extra["rejections_with_another_error_kind_than_the_model"] = kind_differs
    ctx.extra["rule"] = __doc__.split("Cases:")[1].strip()
    ctx.assumptions += ["itertools.product, re, json are exercised but not modelled beyond their results; numpy.array_split's arithmetic is mirrored in the model",
                        "option values are integers or identifier-like strings (find compares string forms; a `.` in a requested value matches any character)"]


def main(tier, replay=None):
    return C.run_check(PID, tier, body, replay=replay, trusted=["itertools.product / re / json (external, compared by result); numpy.array_split (arithmetic mirrored in the model, compared row by row)"])
