"""C19 — batches partition the work; option grids enumerate every combination once.

Model: lean/HydroVerif/Model/C19.lean; theorems: lean/HydroVerif/Props/C19.lean.
Correspondence: `get_batch`, `SiteBatch.search`, `OptionManager.from_cartesian_product / find /
to_dict -> json -> from_dict / ==` are run on the real code and on the model driver, request by request.
Oracle (failing-input search, on the real code only): partition / size / search / product / find /
round-trip facts stated independently of the model.
Cases: all (n, k, i) up to a bound incl. rejected calls, random large n; option dictionaries of 1..4
options x 1..5 values (ints, identifiers, bare scalars), context dicts, renamed dict keys.
A case is non-trivial when the call is accepted and returns a non-empty result.
"""
import itertools
import json

from . import common as C

PID = "C19"


def gen_opts(rng):
    if rng.random() < 0.2:
        # values that collide when combinations are labelled by joining their string forms:
        # (a, b_c) and (a_b, c) both read "a_b_c"; likewise with "-", "" and digits
        sep = rng.choice(["_", "-", "", "_"])
        a, b, c = rng.sample(["upper", "murray", "flow", "x", "q1", "7", "12", "ab"], 3)
        k1, k2 = rng.sample(["region", "variable", "alpha", "k"], 2)
        opts = {k1: [a, a + sep + b], k2: [b + sep + c, c]}
        if rng.random() < 0.5:
            opts[rng.choice(["month", "site_id"])] = rng.sample(range(1, 13), rng.randint(1, 3))
        if rng.random() < 0.3:
            # the same collision with integers: (1, 23) vs (12, 3)
            opts = {k1: [1, 12], k2: [23, 3]}
        return opts
    nopt = rng.randint(1, 4)
    keys = rng.sample(["alpha", "beta", "month", "site_id", "x1", "k"], nopt)
    opts = {}
    for k in keys:
        nv = rng.randint(1, 5)
        kind = rng.choice(["int", "str", "mixed", "bare_int", "bare_str"])
        if kind == "int":
            vals = rng.sample(range(-3, 40), nv)
        elif kind == "str":
            vals = rng.sample(["a", "ab", "abc", "b_1", "A", "zz9", "model", "mod", "el", "Model", "AB", "d", "D"], nv)
        elif kind == "mixed":
            vals = rng.sample([1, 10, 11, "1x", "x1", "one", 100, "a", 0], nv)
        elif kind == "bare_int":
            vals = rng.randint(0, 12)
        else:
            vals = rng.choice(["solo", "a", "x_y"])
        opts[k] = vals
    return opts


def as_list(v):
    return [v] if isinstance(v, (str, int, float)) else list(v)


def body(ctx):
    from hydrodiy.io import hyruns
    rng = ctx.rng
    lean = ctx.lean
    reqs, impls, cases = [], [], []

    def add(req, impl, case):
        reqs.append(req)
        impls.append(impl)
        cases.append(case)

    # ---------------- get_batch / search
    nmax = ctx.scale(40, 60)
    triples = []
    for n in range(-1, nmax + 1):
        for k in range(-1, n + 3):
            for i in range(-1, k + 2):
                triples.append((n, k, i))
    for _ in range(ctx.scale(300, 3000)):
        n = rng.randint(1, 10 ** rng.randint(1, 6))
        k = rng.randint(1, min(n, 2000) + (1 if rng.random() < 0.05 else 0))
        i = rng.randint(-1, k)
        triples.append((n, k, i))
    partitions = {}
    for (n, k, i) in triples:
        try:
            if k == 0 and n >= 1 and n >= k:
                # numpy raises on 0 sections only after the guards; guard order is what we compare
                pass
            r = hyruns.get_batch(n, k, i)
            impl = "ok " + C.ilist(r)
            ok = True
        except ValueError as e:
            msg = str(e)
            impl = "err " + ("nelemLt1" if "nelements>=1" in msg else "nelemLtNbatch" if ">= nbatch" in msg
                             else "ibatchRange" if "ibatch" in msg else "other:" + msg)
            ok = False
        except Exception as e:  # noqa
            impl = f"err other:{type(e).__name__}"
            ok = False
        if len(impl) > 4000:
            # large batches: compare a digest (first, last, length) on both sides through the oracle only
            r = list(r)
            if not (r == list(range(r[0], r[0] + len(r)))):
                ctx.finding("get_batch/not_contiguous", "batch is not a contiguous increasing range", {"n": n, "k": k, "i": i})
            partitions.setdefault((n, k), {})[i] = (int(r[0]), len(r))
            ctx.count((n, k, i), True, "large")
            continue
        add(f"batch {n} {k} {i}", impl, {"n": n, "k": k, "i": i})
        ctx.count((n, k, i), ok and len(r) > 0, "accepted" if ok else impl.split()[1],
                  sample={"get_batch": [n, k, i], "reply": impl[:80]})
        if ok:
            r = [int(x) for x in r]
            partitions.setdefault((n, k), {})[i] = (r[0] if r else None, len(r))
            if r != list(range(r[0], r[0] + len(r))) if r else False:
                ctx.finding("get_batch/not_contiguous", "batch is not a contiguous increasing range", {"n": n, "k": k, "i": i, "batch": r})
            if not (1 <= k <= n and 0 <= i < k):
                ctx.finding("get_batch/accepts_invalid", "a call outside 1<=nbatch<=nelements, 0<=ibatch<nbatch was accepted", {"n": n, "k": k, "i": i})
        else:
            if 1 <= k <= n and 0 <= i < k:
                ctx.finding("get_batch/rejects_valid", "a valid call was rejected", {"n": n, "k": k, "i": i, "reply": impl})
    # oracle on complete partitions
    for (n, k), d in partitions.items():
        if len(d) != k:
            continue
        pos, sizes = 0, []
        for i in range(k):
            st, ln = d[i]
            if ln and st != pos:
                ctx.finding("get_batch/not_partition", "batches are not consecutive/disjoint/covering", {"n": n, "k": k, "i": i, "start": st, "expected": pos})
                break
            pos += ln
            sizes.append(ln)
        else:
            if pos != n:
                ctx.finding("get_batch/not_partition", "batches do not cover every element", {"n": n, "k": k, "covered": pos})
            if max(sizes) - min(sizes) > 1:
                ctx.finding("get_batch/unbalanced", "batch sizes differ by more than one", {"n": n, "k": k, "sizes": sizes})

    for _ in range(ctx.scale(400, 4000)):
        n = rng.randint(1, 60)
        k = rng.randint(1, n)
        ids = rng.sample(range(1000, 5000), n)
        sb = hyruns.SiteBatch(ids, k)
        s = rng.randrange(n + 2)
        site = ids[s] if s < n else -5
        try:
            got = sb.search(site)
        except Exception:  # noqa  (a site that is in no batch may as well be reported with an exception)
            got = None
            if s < n:
                ctx.finding("search/raises_for_listed_site", "search raises for a site of the list", {"n": n, "k": k, "pos": s})
        add(f"search {n} {k} {s}", "none" if got is None else f"some {got}", {"n": n, "k": k, "pos": s})
        ctx.count(("search", n, k, s), got is not None, "search")
        if s < n:
            if got is None or site not in sb[got]:
                ctx.finding("search/wrong_batch", "search does not return the batch containing the site", {"n": n, "k": k, "pos": s, "got": got})
            else:
                # batch i of a SiteBatch holds the sites at the positions get_batch(nsites, nbatch, i) of the list AS GIVEN
                # (contiguous, ordered): sizes q+1 for the first r batches, q for the others, q, r = divmod(n, k)
                q, r = divmod(n, k)
                starts = [i * q + min(i, r) for i in range(k + 1)]
                want = next(i for i in range(k) if starts[i] <= s < starts[i + 1])
                members = [int(x) for x in sb[got]]
                if got != want or members != [ids[j] for j in range(starts[got], starts[got + 1])]:
                    ctx.finding("search/not_batch_of_position", "the batch returned for a site is not the batch of its position in the list as given "
                                "(batches are contiguous, ordered slices of the site list)",
                                {"n": n, "k": k, "pos": s, "got": got, "expected": want, "ids": ids[:12], "batch": members[:12]})
        elif got is not None:
            ctx.finding("search/phantom", "search finds a site that is not in the list", {"n": n, "k": k})

    # ---------------- option manager
    keysets = [("context", "options", "options"), ("ctx", "opt", "mopt"), ("context", "task_opts", "options"),
               ("cfg", "options", "opts2")]
    for it in range(ctx.scale(300, 3000)):
        opts = gen_opts(rng)
        # context values include falsy ones (0, False, None, 0.0): a value that tests false is still a value
        ctxd = {k: rng.choice([1, "a", "run_7", 33, 0, False, None, 0.0]) for k in rng.sample(["c1", "c2", "who"], rng.randint(0, 2))}
        kn = rng.choice(keysets)
        hyruns.reset_dict_keyname()
        hyruns.set_dict_keyname("context_name", kn[0])
        hyruns.set_dict_keyname("task_options_name", kn[1])
        hyruns.set_dict_keyname("manager_options_name", kn[2])
        try:
            opm = hyruns.OptionManager("nm", **ctxd)
            opm.from_cartesian_product(**opts)
            keys = list(opts.keys())
            vals = [as_list(opts[k]) for k in keys]
            kt = C.slist(keys)
            # a scalar given bare crosses as `!v` (the model wraps it as from_cartesian_product does)
            vt = "[" + ";".join(("!" + str(opts[k])) if isinstance(opts[k], (str, int, float)) else ",".join(str(v) for v in as_list(opts[k]))
                                for k in keys) + "]"
            impl = "[" + ";".join(",".join(str(t[k]) for k in keys) for t in opm.tasks) + "]"
            add(f"product {kt} {vt}", impl, {"options": opts})
            ctx.count(("product", kt, vt), opm.ntasks > 1, "product", sample={"options": opts, "ntasks": opm.ntasks})
            # oracle: every combination exactly once
            want = list(itertools.product(*vals))
            got = [tuple(t[k] for k in keys) for t in opm.tasks]
            if sorted(map(repr, want)) != sorted(map(repr, got)):
                ctx.finding("product/not_each_once", "tasks are not every combination exactly once", {"options": opts})
            # find
            for _ in range(3):
                key = rng.choice(keys)
                val = rng.choice(as_list(opts[key]) + [rng.choice([1, "a", 7, "zz", 10])])
                found = opm.find(**{key: val})
                add(f"find {kt} {vt} {key} {val}", "ok " + C.ilist(found), {"options": opts, "key": key, "val": val})
                ctx.count(("find", kt, vt, key, val), len(found) > 0, "find")
                expect = [i for i, t in enumerate(opm.tasks) if str(t[key]) == str(val)]
                if found != expect:
                    ctx.finding("find/not_equality_filter", "find does not return exactly the tasks whose option equals the value",
                                {"options": opts, "key": key, "val": val, "found": found, "expected": expect})
            # a key that is not an option is rejected
            bad = rng.choice(["nokey", "Alpha", "alph", "month_", ""] + [k + "x" for k in keys])
            if bad not in keys and bad != "":
                try:
                    r = "ok " + C.ilist(opm.find(**{bad: 1}))
                except AssertionError:
                    r = "err unknownKey"
                except Exception as e:
                    r = "err " + type(e).__name__
                add(f"find {kt} {vt} {bad} 1", r, {"options": opts, "key": bad})
                ctx.count(("findbad", kt, bad), True, "find_unknown_key")
            # round trip through json
            try:
                dd = json.loads(json.dumps(opm.to_dict()))
                opm2 = hyruns.OptionManager.from_dict(dd)
            except Exception as e:  # noqa: a round trip that cannot be made is a violation, not a harness failure
                ctx.finding("roundtrip/raises", "the dictionary/JSON round trip of a cartesian-product manager raises",
                            {"options": opts, "context": ctxd, "keynames": kn, "error": f"{type(e).__name__}: {e}"[:200]})
                continue
            e1, e2 = bool(opm == opm2), bool(opm2 == opm)
            same = (opm2.tasks == opm.tasks and opm2.options == {k: as_list(v) for k, v in opts.items()} and opm2.context == ctxd and opm2.name == "nm")
            ck, cv = C.slist(ctxd.keys()), C.slist(ctxd.values())
            impl = f"some {str(e1).lower()} {str(e2).lower()} {str(same).lower()} {opm2.ntasks}"
            add(f"roundtrip {kn[0]} {kn[1]} {kn[2]} nm {ck} {cv} {kt} {vt}", impl, {"options": opts, "context": ctxd, "keynames": kn})
            ctx.count(("rt", kn, ck, cv, kt, vt), True, "roundtrip")
            if not (e1 and e2 and same):
                ctx.finding("roundtrip/not_equal", "manager rebuilt from its dictionary differs from the original",
                            {"options": opts, "context": ctxd, "keynames": kn, "eq": [e1, e2], "same": same})
        finally:
            hyruns.reset_dict_keyname()

    # ---------------- histories on ONE manager object: the grid is regenerated (often with the same number of tasks)
    # between find/search calls; every answer must be about the grid the manager holds now.  Also contexts whose values
    # cannot cross the line protocol ("" and empty containers), checked against the oracle only.
    for it in range(ctx.scale(150, 1500)):
        hyruns.reset_dict_keyname()
        cvals = rng.choice([{}, {"c1": ""}, {"c1": []}, {"who": {}}, {"c1": 0, "c2": ""}, {"c1": "a", "c2": []}])
        opm = hyruns.OptionManager("hist", **cvals)
        shape = None
        for step in range(rng.randint(2, 4)):
            opts = gen_opts(rng)
            if shape is not None and rng.random() < 0.7:
                # same keys and value counts as the previous grid, different values / order
                opts = {}
                for k, n in shape:
                    pool = rng.choice([list(range(1, 13)), ["a", "ab", "b_1", "zz9", "model", "mod", "d", "D", "x1", "q"]])
                    opts[k] = rng.sample(pool, n)
            shape = [(k, len(as_list(v))) for k, v in opts.items()]
            opm.from_cartesian_product(**opts)
            keys = list(opts.keys())
            vals = [as_list(opts[k]) for k in keys]
            want = list(itertools.product(*vals))
            got = [tuple(t[k] for k in keys) for t in opm.tasks]
            ctx.count(("hist", step, repr(opts)), step > 0, "history_regenerated" if step else "history_first")
            if list(map(repr, want)) != list(map(repr, got)):
                ctx.finding("product/not_each_once", "tasks of a regenerated grid are not every combination exactly once",
                            {"options": opts, "step": step})
            for _ in range(2):
                key = rng.choice(keys)
                val = rng.choice(as_list(opts[key]))
                how = rng.choice(["find", "search"])
                try:
                    found = opm.find(**{key: val}) if how == "find" else opm.search(**{key: f"^{val}$"})
                except Exception as e:
                    found = f"raised {type(e).__name__}"
                expect = [i for i, w in enumerate(want) if str(w[keys.index(key)]) == str(val)]
                if found != expect:
                    ctx.finding("find/not_equality_filter", "find on a regenerated grid does not return exactly the tasks whose option equals the value",
                                {"options": opts, "key": key, "val": val, "found": found, "expected": expect, "step": step, "how": how})
            try:
                dd = json.loads(json.dumps(opm.to_dict()))
                opm2 = hyruns.OptionManager.from_dict(dd)
            except Exception as e:  # noqa
                ctx.finding("roundtrip/raises", "the dictionary/JSON round trip of a cartesian-product manager raises",
                            {"options": opts, "context": cvals, "step": step, "error": f"{type(e).__name__}: {e}"[:200]})
                continue
            e1, e2 = bool(opm == opm2), bool(opm2 == opm)
            same = opm2.tasks == opm.tasks and opm2.context == cvals and opm2.options == {k: as_list(v) for k, v in opts.items()}
            if not (e1 and e2 and same):
                ctx.finding("roundtrip/not_equal", "manager rebuilt from its dictionary differs from the original",
                            {"options": opts, "context": cvals, "eq": [e1, e2], "same": same, "step": step})

    # ---------------- correspondence
    replies = lean.ask(reqs)
    kind_differs = 0
    for req, impl, rep, case in zip(reqs, impls, replies, cases):
        if impl.startswith("err") and rep.startswith("err"):
            # the property fixes WHICH calls are rejected, not the wording / exception class / which guard speaks first
            kind_differs += impl.split(":")[0] != rep
            continue
        ctx.compare("C19", {"request": req, **case}, impl, rep)
    ctx.extra["rejections_with_another_error_kind_than_the_model"] = kind_differs
    ctx.extra["rule"] = __doc__.split("Cases:")[1].strip()
    ctx.assumptions += ["numpy.array_split, itertools.product, re, json are exercised but not modelled beyond their results",
                        "option values are integers or identifier-like strings (find compares string forms)"]


def main(tier, replay=None):
    return C.run_check(PID, tier, body, replay=replay, trusted=["numpy.array_split / itertools.product / re / json (external, compared by result)"])
